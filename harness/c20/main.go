// C20 — plugin installation follows the version rules and never half-replaces a plugin.
//
// E2 explicit-state search to FIX-POINT. CLIManager keeps no memory, so a state
// is exactly the file tree under the plugin root (paths, modes, bytes). Breadth
// first from a handful of initial roots; from EVERY reachable state EVERY
// operation of the alphabet (Install(version x overwrite x source shape),
// Uninstall) is applied by the real code on a real directory: the state is
// rebuilt in a fresh directory by replaying its shortest history, one operation
// is applied, the resulting tree is hashed. The search stops when the frontier
// is empty.
//
// Oracle: a reference installer written from the statement. It never looks at
// the source on disk: it works on the generator's description of the source
// (which files were written, which of them are top-level and regular, which
// labels "usable"/"metadata valid" the shape and the version carry) and on the
// model of the state (existing plugin: none / broken / version v). Semantic
// version precedence is the hand-written ORDER of the alphabet below.
//
// Plugins are small POSIX shell scripts whose bytes embed name and version, so
// a copy of the executable is self-describing and "the plugin answers with the
// new metadata" is observed by running what was installed.
//
// Cases run in single-case worker processes (this binary with --worker): a
// process that writes an executable file while another thread of the same
// process forks can make the following exec fail with ETXTBSY; with one case per
// process at a time no descriptor of a freshly written script is ever held by a
// foreign child, so the verdict is deterministic.
package main

import (
	"bufio"
	"context"
	"crypto/sha256"
	"encoding/hex"
	"encoding/json"
	"errors"
	"fmt"
	"io"
	"io/fs"
	"os"
	"os/exec"
	"path/filepath"
	"runtime"
	"runtime/debug"
	"sort"
	"strconv"
	"strings"
	"sync"
	"syscall"
	"time"

	"github.com/notaryproject/notation-go/dir"
	"github.com/notaryproject/notation-go/plugin"
	"github.com/notaryproject/notation-go/zzverif/lib/hx"
	pfw "github.com/notaryproject/notation-plugin-framework-go/plugin"
)

const pluginName = "foo"
const exeName = "notation-foo"

// ---------------------------------------------------------------------------
// version alphabet; precedence = index in this hand-written order
// ---------------------------------------------------------------------------

// precedence lists the valid versions of the alphabet from lowest to highest
// semantic-version precedence; versions in one row have equal precedence
// (build metadata is ignored). The oracle compares ROW INDICES, nothing else.
var precedence = [][]string{
	{"1.0.0-alpha"},
	{"1.0.0-alpha.1"},
	{"1.0.0-beta.2"},
	{"1.0.0-beta.11"},
	{"1.0.0", "1.0.0+b1"},
	{"1.1.0"},
	{"2.0.0"},
}

type ver struct {
	S         string
	Valid     bool // valid semantic version (hand label)
	MetaOK    bool // metadata carrying it has all mandatory fields (false only for "")
	Quick     bool
	PlainOnly bool // combined with the two plain source shapes only (further classes of non-semantic versions)
}

// Every non-semantic version (except the empty one) can be installed into a
// root without the plugin, so each of them occurs as the NEW version over every
// installed one and as the INSTALLED version under every new one: a comparison
// that validates only one operand, or validates more leniently than it
// compares, shows on one side.
var versions = []ver{
	{"1.0.0-alpha", true, true, false, false},
	{"1.0.0-alpha.1", true, true, false, false},
	{"1.0.0-beta.2", true, true, true, false},
	{"1.0.0-beta.11", true, true, true, false},
	{"1.0.0", true, true, true, false},
	{"1.0.0+b1", true, true, true, false},
	{"1.1.0", true, true, false, false},
	{"2.0.0", true, true, false, false},
	{"1.0", false, true, true, false},     // shorthand: two components
	{"v1.0.0", false, true, true, false},  // prefixed
	{"01.0.0", false, true, false, false}, // leading zero
	{"", false, false, true, false},
	{"1", false, true, false, true},             // shorthand: one component
	{"1.0.0.0", false, true, false, true},       // four components
	{"latest", false, true, false, true},        // no number at all
	{"1.0.0-", false, true, false, true},        // empty pre-release
	{"1.0.0-01", false, true, false, true},      // numeric pre-release identifier with leading zero
	{"1.0.0+", false, true, false, true},        // empty build metadata
	{"1.0.0 ", false, true, false, true},        // trailing blank
	{"1.0.0-beta..2", false, true, false, true}, // empty pre-release identifier
}

func verOf(s string) *ver {
	for i := range versions {
		if versions[i].S == s {
			return &versions[i]
		}
	}
	return nil
}

func rank(s string) int {
	for i, row := range precedence {
		for _, v := range row {
			if v == s {
				return i
			}
		}
	}
	return -1
}

func vlabel(s string) string {
	if s == "" {
		return "empty"
	}
	return s
}

// ---------------------------------------------------------------------------
// plugin executables: shell scripts whose bytes carry name and version
// ---------------------------------------------------------------------------

func stub(name, version string, omitURL bool) string {
	url := `"url":"https://example.invalid/plugin",`
	if omitURL {
		url = ""
	}
	return script(name, version, "{\"name\":\""+name+"\",\"description\":\"verif C20 stub\",\"version\":\""+version+"\","+url+
		"\"supportedContractVersions\":[\"1.0\"],\"capabilities\":[\"SIGNATURE_VERIFIER.TRUSTED_IDENTITY\"]}", 0)
}

// goodAnswer is the valid metadata object of plugin foo with version v.
func goodAnswer(v string) string {
	return `{"name":"foo","description":"verif C20 stub","version":"` + v + `","url":"https://example.invalid/plugin","supportedContractVersions":["1.0"],"capabilities":["SIGNATURE_VERIFIER.TRUSTED_IDENTITY"]}`
}

// script is a plugin executable that answers get-plugin-metadata with the
// given line and exit code. The answer must not contain a single quote.
func script(name, version, answer string, exit int) string {
	return "#!/bin/sh\n# verif C20 plugin stub name=" + name + " version=" + version + "\n" +
		"if [ \"$1\" = get-plugin-metadata ]; then\n" +
		"printf '%s\\n' '" + answer + "'\n" +
		fmt.Sprintf("exit %d\nfi\nexit 2\n", exit)
}

const brokenScript = "#!/bin/sh\nexit 1\n"

// ---------------------------------------------------------------------------
// source shapes (the generator's description is all the oracle sees)
// ---------------------------------------------------------------------------

type sfile struct {
	Rel  string
	Mode os.FileMode
	Body string
}

type shape struct {
	Label  string
	Kind   string // "file": PluginPath is the single file; "dir": PluginPath is the directory; "missing"
	Files  func(v string) []sfile
	Usable bool // hand label: the source is a usable plugin source for plugin foo
	MetaOK bool // hand label: the candidate answers with valid metadata named foo (given a version with MetaOK)
	Quick  bool
	Family string // differential family: "exe" (base dir-exe) or "nonexec" (base dir-nonexec)
	Sub    bool   // generated shape (sub-directories, near-miss names, bad metadata): combined with the reduced version set only
}

const srcDirName = "pkg"

func cand(mode os.FileMode) func(v string) sfile {
	return func(v string) sfile { return sfile{exeName, mode, stub(pluginName, v, false)} }
}

var (
	before  = sfile{"a-lib.txt", 0o644, "library file sorting before the candidate\n"}
	after   = sfile{"zz-readme.txt", 0o644, "file sorting after the candidate\n"}
	subExe  = func(d string) sfile { return sfile{d + "/" + exeName, 0o755, stub(pluginName, "9.9.9", false)} }
	subData = func(d string) sfile { return sfile{d + "/data.bin", 0o644, "data inside a sub-directory\n"} }
)

var shapes = []shape{
	{"file-exe", "file", func(v string) []sfile { return []sfile{cand(0o755)(v)} }, true, true, true, "exe", false},
	{"file-nonexec", "file", func(v string) []sfile { return []sfile{cand(0o644)(v)} }, false, true, true, "", false},
	{"dir-exe", "dir", func(v string) []sfile { return []sfile{cand(0o755)(v)} }, true, true, true, "exe", false},
	{"dir-nonexec", "dir", func(v string) []sfile { return []sfile{cand(0o644)(v)} }, true, true, true, "nonexec", false},
	{"dir-exe+before", "dir", func(v string) []sfile { return []sfile{before, cand(0o755)(v)} }, true, true, false, "exe", false},
	{"dir-exe+after", "dir", func(v string) []sfile { return []sfile{cand(0o755)(v), after} }, true, true, true, "exe", false},
	{"dir-nonexec+before", "dir", func(v string) []sfile { return []sfile{before, cand(0o644)(v)} }, true, true, false, "nonexec", false},
	{"dir-nonexec+after", "dir", func(v string) []sfile { return []sfile{cand(0o644)(v), after} }, true, true, true, "nonexec", false},
	{"dir-exe+before+after", "dir", func(v string) []sfile { return []sfile{before, cand(0o755)(v), after} }, true, true, true, "exe", false},
	{"dir-nonexec+before+after", "dir", func(v string) []sfile { return []sfile{before, cand(0o644)(v), after} }, true, true, false, "nonexec", false},
	// one executable candidate plus further regular non-executable files named notation-*
	{"dir-exe+nonexec-other-name", "dir", func(v string) []sfile {
		return []sfile{cand(0o755)(v), {"notation-zzz", 0o644, stub("zzz", v, false)}}
	}, true, true, false, "exe", false},
	{"dir-exe+nonexec-other-name-before", "dir", func(v string) []sfile {
		return []sfile{{"notation-aaa", 0o644, stub("aaa", v, false)}, cand(0o755)(v)}
	}, true, true, true, "exe", true},
	{"dir-exe+nonexec-own-name-suffixed", "dir", func(v string) []sfile {
		return []sfile{cand(0o755)(v), {"notation-foo.sha256", 0o644, "0000  notation-foo\n"}, {"notation-foo-defaults.conf", 0o644, "k=v\n"}}
	}, true, true, false, "exe", true},
	{"dir-two-exe", "dir", func(v string) []sfile {
		return []sfile{{"notation-bar", 0o755, stub("bar", v, false)}, cand(0o755)(v)}
	}, false, true, true, "", false},
	{"dir-two-nonexec", "dir", func(v string) []sfile {
		return []sfile{{"notation-bar", 0o644, stub("bar", v, false)}, cand(0o644)(v)}
	}, false, true, false, "", false},
	{"path-missing", "missing", func(v string) []sfile { return nil }, false, true, true, "", false},
	{"file-not-notation-name", "file", func(v string) []sfile {
		return []sfile{{"foo-plugin", 0o755, stub(pluginName, v, false)}}
	}, false, true, false, "", false},
	{"dir-no-notation-name", "dir", func(v string) []sfile {
		return []sfile{{"foo-plugin", 0o755, stub(pluginName, v, false)}}
	}, false, true, false, "", false},
}

// Misnamed metadata: the executable is called notation-foo and answers with
// valid metadata whose name is a near miss of "foo". Every member is misnamed
// (hand label), so every installation must be refused with the tree unchanged.
var nearMissNames = []struct {
	tag, name string
	quick     bool
}{
	{"other", "bar", true},
	{"capitalised", "Foo", true},
	{"upper", "FOO", true},
	{"mixed-case", "fOo", false},
	{"trailing-blank", "foo ", true},
	{"leading-blank", " foo", false},
	{"prefix", "fo", false},
	{"suffix", "foobar", true},
	{"file-name", "notation-foo", false},
	{"dot-slash", "./foo", false},
	{"cyrillic-o", "f\u043e\u043e", true}, // U+043E looks like o
	{"fullwidth", "\uff46\uff4f\uff4f", false},
	{"combining-mark", "foo\u0301", false},
	{"empty", "", false},
}

// Invalid metadata: correctly named, one requirement of the metadata contract broken.
var badMetadata = []struct {
	tag   string
	quick bool
	body  func(v string) string
}{
	{"missing-url", true, func(v string) string { return stub(pluginName, v, true) }},
	{"empty-description", false, func(v string) string {
		return script(pluginName, v, `{"name":"foo","description":"","version":"`+v+`","url":"https://example.invalid/plugin","supportedContractVersions":["1.0"],"capabilities":["SIGNATURE_VERIFIER.TRUSTED_IDENTITY"]}`, 0)
	}},
	{"no-capabilities", false, func(v string) string {
		return script(pluginName, v, `{"name":"foo","description":"verif C20 stub","version":"`+v+`","url":"https://example.invalid/plugin","supportedContractVersions":["1.0"],"capabilities":[]}`, 0)
	}},
	{"no-contract-versions", false, func(v string) string {
		return script(pluginName, v, `{"name":"foo","description":"verif C20 stub","version":"`+v+`","url":"https://example.invalid/plugin","capabilities":["SIGNATURE_VERIFIER.TRUSTED_IDENTITY"]}`, 0)
	}},
	{"contract-version-2.0-only", true, func(v string) string {
		return script(pluginName, v, `{"name":"foo","description":"verif C20 stub","version":"`+v+`","url":"https://example.invalid/plugin","supportedContractVersions":["2.0"],"capabilities":["SIGNATURE_VERIFIER.TRUSTED_IDENTITY"]}`, 0)
	}},
	{"not-json", false, func(v string) string { return script(pluginName, v, "foo "+v, 0) }},
	{"truncated-json", false, func(v string) string {
		return script(pluginName, v, `{"name":"foo","description":"verif C20 stub","version":"`+v+`","url":"https://example.invalid/plugin","supportedContractVersions":["1.0"],"capabilities":["SIGNATURE_VERIFIER.TRUSTED_IDENTITY"]`, 0)
	}},
	// bytes around a valid metadata object: the answer as a whole is not a JSON value
	{"trailing-log-line", true, func(v string) string {
		return script(pluginName, v, goodAnswer(v)+"\nplugin finished", 0)
	}},
	{"second-json-object", true, func(v string) string {
		return script(pluginName, v, goodAnswer(v)+`{"name":"bar"}`, 0)
	}},
	{"trailing-brace", false, func(v string) string { return script(pluginName, v, goodAnswer(v)+"}", 0) }},
	{"trailing-comma", false, func(v string) string { return script(pluginName, v, goodAnswer(v)+",", 0) }},
	{"leading-log-line", false, func(v string) string {
		return script(pluginName, v, "plugin starting\n"+goodAnswer(v), 0)
	}},
	{"wrapped-in-array", false, func(v string) string { return script(pluginName, v, "["+goodAnswer(v)+"]", 0) }},
	{"json-string-holding-the-object", false, func(v string) string {
		return script(pluginName, v, `"`+strings.ReplaceAll(goodAnswer(v), `"`, `\"`)+`"`, 0)
	}},
	{"valid-answer-exit-1", true, func(v string) string {
		return script(pluginName, v, `{"name":"foo","description":"verif C20 stub","version":"`+v+`","url":"https://example.invalid/plugin","supportedContractVersions":["1.0"],"capabilities":["SIGNATURE_VERIFIER.TRUSTED_IDENTITY"]}`, 1)
	}},
}

func init() {
	for _, n := range nearMissNames {
		n := n
		// as a directory source, and (case variants and blanks: what a lenient comparison forgives) as a file source
		shapes = append(shapes, shape{"dir-metadata-name-" + n.tag, "dir", func(v string) []sfile {
			return []sfile{{exeName, 0o755, stub(n.name, v, false)}}
		}, true, false, n.quick, "", true})
		if n.tag == "capitalised" || n.tag == "upper" || n.tag == "trailing-blank" {
			shapes = append(shapes, shape{"file-metadata-name-" + n.tag, "file", func(v string) []sfile {
				return []sfile{{exeName, 0o755, stub(n.name, v, false)}}
			}, true, false, n.tag == "upper", "", true})
		}
	}
	for _, b := range badMetadata {
		b := b
		shapes = append(shapes, shape{"file-metadata-" + b.tag, "file", func(v string) []sfile {
			return []sfile{{exeName, 0o755, b.body(v)}}
		}, true, false, b.quick, "", true})
	}
}

// Sub-directory shapes: candidate {executable, non-executable} x extra files
// {none, before, after, both} x position of the sub-directory in the sorted
// listing of the source {before all top-level files, between the before-file
// and the candidate, named like the source directory (after the candidate,
// before the after-file), after all} x {sub-directory holds files - one named
// like the plugin executable and answering 9.9.9 -, sub-directory empty}.
// The hand labels do not depend on any of this: sub-directories are ignored.
var subPositions = []struct{ tag, name string }{
	{"first", "000sub"},               // sorts before a-lib.txt
	{"middle", "m-sub"},               // a-lib.txt < m-sub < notation-foo
	{"named-like-source", srcDirName}, // notation-foo < pkg < zz-readme.txt, same name as the source directory
	{"last", "zzz-sub"},               // sorts after zz-readme.txt
}

// quickSub selects the sub-directory shapes of the quick tier.
var quickSub = map[string]bool{
	"dir-exe+before+after+subdir-first-files":       true,
	"dir-exe+before+after+subdir-first-empty":       true,
	"dir-exe+before+after+subdir-middle-files":      true,
	"dir-exe+before+after+subdir-middle-empty":      true,
	"dir-exe+before+after+subdir-last-files":        true,
	"dir-exe+subdir-first-files":                    true,
	"dir-exe+subdir-last-files":                     true,
	"dir-nonexec+after+subdir-first-files":          true,
	"dir-nonexec+after+subdir-middle-files":         true,
	"dir-exe+subdir-named-like-source":              true,
	"dir-nonexec+subdir-named-like-source":          true,
	"dir-exe+before+after+subdir-named-like-source": true,
}

func init() {
	for _, c := range []struct {
		tag  string
		mode os.FileMode
	}{{"exe", 0o755}, {"nonexec", 0o644}} {
		for _, ex := range []struct {
			tag           string
			before, after bool
		}{{"", false, false}, {"+before", true, false}, {"+after", false, true}, {"+before+after", true, true}} {
			for _, pos := range subPositions {
				for _, filled := range []bool{true, false} {
					label := "dir-" + c.tag + ex.tag + "+subdir-" + pos.tag
					switch {
					case pos.tag == "named-like-source" && !filled:
						continue
					case pos.tag == "named-like-source":
					case filled:
						label += "-files"
					default:
						label += "-empty"
					}
					c, ex, pos, filled := c, ex, pos, filled
					shapes = append(shapes, shape{label, "dir", func(v string) []sfile {
						var fs []sfile
						if ex.before {
							fs = append(fs, before)
						}
						fs = append(fs, cand(c.mode)(v))
						if ex.after {
							fs = append(fs, after)
						}
						if filled {
							fs = append(fs, subExe(pos.name), subData(pos.name))
						} else {
							fs = append(fs, sfile{pos.name, os.ModeDir | 0o755, ""})
						}
						return fs
					}, true, true, quickSub[label], c.tag, true})
				}
			}
		}
	}
	for l := range quickSub {
		if shapeOf(l) == nil {
			panic("quickSub names an unknown shape: " + l)
		}
	}
}

// ---------------------------------------------------------------------------
// the extra files themselves: their NAMES and their ATTRIBUTES
// ---------------------------------------------------------------------------
//
// "After a successful installation the plugin directory holds exactly the
// regular top-level files of the source … whatever other files that directory
// contains": the statement makes no exception for how an extra file is called,
// how large it is or which permission bits it carries. The shapes above give
// their extra files two tame names (a-lib.txt, zz-readme.txt); the classes
// below vary what a copy step, a filter or a "hardening" might key on. Every
// class has members sorting before AND after the candidate (byte order, the
// order of a directory walk), so a copy that stops at the offending file stops
// once before and once after the executable was copied. All names are legal
// POSIX file names and valid UTF-8; none contains a slash; none starts with
// "notation-" (candidates are a dimension of their own above).
// The hand labels do not depend on the class: usable, valid metadata.
type nameClass struct {
	tag   string
	names []string
}

var longName = "zz-" + strings.Repeat("long-name.", 25) + "xy" // 255 bytes: NAME_MAX

var extraNameClasses = []nameClass{
	{"blank-parentheses", []string{"LICENSE (MIT).txt", " leading blank.txt", "release notes (v1.1).txt", "trailing blank.txt "}},
	{"punctuation", []string{"Makefile,v", "a=b+c@d#1%20~.txt", "z[1]{2}!^.txt"}},
	{"shell-metacharacters", []string{"a&b;c|d.txt", "it's \"q\" `x` $HOME.txt", "z*?<>.txt"}},
	{"backslash-colon", []string{"C:\\lib\\x.dll", "z:alternate-stream"}},
	{"non-ascii", []string{"LI\u00c9SMOI.txt", "\u00c4nderungen.txt", "\u8bf4\u660e.txt", "\U0001f4e6-notes.txt"}},
	{"leading-dot-dash", []string{".hidden", "..data", "-rf", "--help", "zz.", "~backup~"}},
	{"control-characters", []string{"a\ttab.txt", "line\nbreak.txt", "z\x07bell\x7f.txt"}},
	{"longest-name", []string{"A-" + strings.Repeat("Long-Name.", 25) + "xyz", longName}},
	// collisions by construction: names that differ only by case / only by Unicode normalisation form
	{"case-and-normalisation-twins", []string{"README.TXT", "ReadMe.txt", "readme.txt", "caf\u00e9.txt", "cafe\u0301.txt", "CAF\u00c9.TXT"}},
}

// Attributes of an extra file other than its name: size {0 bytes, larger than
// twice the 32 KiB buffer of io.Copy}, permission bits {read-only, private,
// executable although it is no candidate, world-writable}.
var largeBody = strings.Repeat("0123456789abcdef0123456789abcdef0123456789abcdef0123456789abcde\n", 1100) + "end of the large extra file\n" // 70 KiB

var extraAttributeFiles = []sfile{
	{"a-empty.dat", 0o644, ""},
	{"a-helper.sh", 0o755, "#!/bin/sh\n# executable helper, not a plugin candidate\nexit 0\n"},
	{"a-world-writable.txt", 0o666, "world-writable extra file\n"},
	{"zz-empty", 0o600, ""},
	{"zz-large.bin", 0o644, largeBody},
	{"zz-private.key", 0o600, "private extra file\n"},
	{"zz-read-only.txt", 0o444, "read-only extra file\n"},
}

// quickExtras selects the name / attribute shapes of the quick tier: the union
// of all name classes in one source (with either kind of candidate) and the
// attribute mix. The thorough tier adds every class on its own (executable
// candidate), which tells the classes apart in the violation key.
var quickExtras = map[string]bool{
	"dir-exe+names-all-classes":       true,
	"dir-nonexec+names-all-classes":   true,
	"dir-exe+extras-mixed-attributes": true,
}

var nonexecExtras = map[string]bool{
	"dir-nonexec+names-all-classes":       true,
	"dir-nonexec+extras-mixed-attributes": true,
}

// narrow: shapes that meet the two versions of narrowVersions in BOTH tiers
// (what the name or the size of an extra file does to an installation does not
// depend on the version; relative to the installed versions lower / equal /
// higher / installed-version-invalid all still occur).
var narrow = map[string]bool{}
var narrowVersions = map[string]bool{"1.0.0-beta.11": true, "1.0.0": true}

func init() {
	add := func(label, family string, mode os.FileMode, extras []sfile) {
		if family == "nonexec" && !nonexecExtras[label] {
			return
		}
		all := append([]sfile(nil), extras...)
		shapes = append(shapes, shape{label, "dir", func(v string) []sfile {
			return append(append([]sfile(nil), all...), cand(mode)(v))
		}, true, true, quickExtras[label], family, true})
		narrow[label] = true
	}
	for _, c := range []struct {
		tag  string
		mode os.FileMode
	}{{"exe", 0o755}, {"nonexec", 0o644}} {
		var union []sfile
		for _, nc := range extraNameClasses {
			var fs []sfile
			seenBefore, seenAfter := false, false
			for _, n := range nc.names {
				if strings.Contains(n, "/") || strings.HasPrefix(n, "notation-") || n == "" || len(n) > 255 {
					panic("extra file name outside the stated alphabet: " + strconv.Quote(n))
				}
				if n < exeName {
					seenBefore = true
				} else {
					seenAfter = true
				}
				fs = append(fs, sfile{n, 0o644, "extra file named " + strconv.Quote(n) + "\n"})
			}
			if !seenBefore || !seenAfter {
				panic("name class " + nc.tag + " needs members sorting before and after the candidate")
			}
			add("dir-"+c.tag+"+names-"+nc.tag, c.tag, c.mode, fs)
			union = append(union, fs...)
		}
		add("dir-"+c.tag+"+names-all-classes", c.tag, c.mode, union)
		add("dir-"+c.tag+"+extras-mixed-attributes", c.tag, c.mode, extraAttributeFiles)
	}
	for _, m := range []map[string]bool{quickExtras, nonexecExtras} {
		for l := range m {
			if shapeOf(l) == nil {
				panic("unknown extra-file shape: " + l)
			}
		}
	}
}

func shapeOf(label string) *shape {
	for i := range shapes {
		if shapes[i].Label == label {
			return &shapes[i]
		}
	}
	return nil
}

// srcDesc is the generator's description of one materialised source.
type srcDesc struct {
	Path   string            // handed to Install as PluginPath
	Top    map[string]string // regular top-level files (for a file source: that file): name -> sha256
	Extras []string          // names in Top other than the candidate executable
}

func sum(b []byte) string { h := sha256.Sum256(b); return hex.EncodeToString(h[:]) }

func writeFile(path string, mode os.FileMode, body string) error {
	if err := os.MkdirAll(filepath.Dir(path), 0o755); err != nil {
		return err
	}
	if err := os.WriteFile(path, []byte(body), mode); err != nil {
		return err
	}
	return os.Chmod(path, mode)
}

func buildSource(base string, sh *shape, v string) (srcDesc, error) {
	d := srcDesc{Top: map[string]string{}}
	switch sh.Kind {
	case "missing":
		if err := os.MkdirAll(base, 0o755); err != nil {
			return d, err
		}
		d.Path = filepath.Join(base, "no-such-source")
		return d, nil
	case "file":
		f := sh.Files(v)[0]
		d.Path = filepath.Join(base, f.Rel)
		d.Top[f.Rel] = sum([]byte(f.Body))
		return d, writeFile(d.Path, f.Mode, f.Body)
	}
	d.Path = filepath.Join(base, srcDirName)
	if err := os.MkdirAll(d.Path, 0o755); err != nil {
		return d, err
	}
	// The source directory of a case is REUSED by all operations of its history:
	// files that stay are rewritten in place (same inode), files the new shape
	// does not have are unlinked. An installed plugin must not depend on what
	// happens to the source it came from afterwards.
	wanted := map[string]bool{}
	for _, f := range sh.Files(v) {
		for p := f.Rel; p != "." && p != "/" && p != ""; p = filepath.ToSlash(filepath.Dir(p)) {
			wanted[p] = true
		}
	}
	var stale []string
	_ = filepath.WalkDir(d.Path, func(p string, de fs.DirEntry, err error) error {
		if err != nil || p == d.Path {
			return nil
		}
		rel, _ := filepath.Rel(d.Path, p)
		if !wanted[filepath.ToSlash(rel)] {
			stale = append(stale, p)
			if de.IsDir() {
				return fs.SkipDir
			}
		}
		return nil
	})
	for _, p := range stale {
		if err := os.RemoveAll(p); err != nil {
			return d, err
		}
	}
	for _, f := range sh.Files(v) {
		if f.Mode.IsDir() { // an empty sub-directory
			if err := os.MkdirAll(filepath.Join(d.Path, filepath.FromSlash(f.Rel)), 0o755); err != nil {
				return d, err
			}
			continue
		}
		if err := writeFile(filepath.Join(d.Path, filepath.FromSlash(f.Rel)), f.Mode, f.Body); err != nil {
			return d, err
		}
		if !strings.Contains(f.Rel, "/") {
			d.Top[f.Rel] = sum([]byte(f.Body))
			if f.Rel != exeName {
				d.Extras = append(d.Extras, f.Rel)
			}
		}
	}
	return d, nil
}

// ---------------------------------------------------------------------------
// states
// ---------------------------------------------------------------------------

type entry struct {
	P string `json:"p"`           // path relative to the root, slash separated
	M uint32 `json:"m"`           // type bits and permission bits
	H string `json:"h,omitempty"` // sha256 of the bytes of a regular file
}

func snapshot(root string) ([]entry, error) {
	if _, err := os.Lstat(root); err != nil {
		if errors.Is(err, os.ErrNotExist) {
			return []entry{{P: "<root-absent>"}}, nil
		}
		return nil, err
	}
	var es []entry
	err := filepath.WalkDir(root, func(p string, d fs.DirEntry, err error) error {
		if err != nil {
			return err
		}
		if p == root {
			return nil
		}
		fi, err := os.Lstat(p)
		if err != nil {
			return err
		}
		rel, _ := filepath.Rel(root, p)
		e := entry{P: filepath.ToSlash(rel), M: uint32(fi.Mode() & (fs.ModeType | fs.ModePerm))}
		if fi.Mode().IsRegular() {
			b, err := os.ReadFile(p)
			if err != nil {
				return err
			}
			e.H = sum(b)
		} else if fi.Mode()&fs.ModeSymlink != 0 {
			t, _ := os.Readlink(p)
			e.H = "->" + t
		}
		es = append(es, e)
		return nil
	})
	return es, err
}

func hashTree(es []entry) string {
	h := sha256.New()
	for _, e := range es {
		fmt.Fprintf(h, "%s\x00%o\x00%s\n", e.P, e.M, e.H)
	}
	return hex.EncodeToString(h.Sum(nil))[:24]
}

// stateHash identifies a state: the plugin directory, the entries the initial
// states put next to it, and whether the root exists. Anything else that may
// appear under the root (staging or temporary entries of another
// implementation) is not part of the identity; it is recorded when it changes.
func stateHash(es []entry) string {
	var k []entry
	for _, e := range es {
		if inPluginDir(e.P) || e.P == "zz-stray" || strings.HasPrefix(e.P, "zz-stray/") || e.P == "<root-absent>" {
			k = append(k, e)
		}
	}
	return hashTree(k)
}

func showTree(es []entry) string {
	var sb strings.Builder
	for i, e := range es {
		if i > 0 {
			sb.WriteString(", ")
		}
		h := e.H
		if len(h) > 8 {
			h = h[:8]
		}
		p := e.P
		if len(p) > 80 {
			p = fmt.Sprintf("%s...(%d bytes)", p[:40], len(p))
		}
		if strings.IndexFunc(p, func(r rune) bool { return r < 0x20 || r == 0x7f }) >= 0 {
			p = strconv.Quote(p) // keep one violation on one line
		}
		fmt.Fprintf(&sb, "%s(%o %s)", p, e.M&uint32(fs.ModePerm), h)
	}
	return "[" + sb.String() + "]"
}

func inPluginDir(p string) bool { return p == pluginName || strings.HasPrefix(p, pluginName+"/") }

// outside returns the entries that are not <root>/foo or below it.
func outside(es []entry) []entry {
	var o []entry
	for _, e := range es {
		if !inPluginDir(e.P) && e.P != "<root-absent>" {
			o = append(o, e)
		}
	}
	return o
}

// model is what the reference installer knows about a state.
type model struct {
	Existing string `json:"existing"` // "none", "broken", "v:<version>"
	Dir      bool   `json:"dir"`      // <root>/foo exists
}

func (m model) class() string {
	if strings.HasPrefix(m.Existing, "v:") {
		return "version"
	}
	return m.Existing
}

func (m model) behaviour() string {
	if strings.HasPrefix(m.Existing, "v:") {
		return "ok:" + pluginName + "@" + m.Existing[2:]
	}
	return "unavailable" // nothing there, or something that does not answer
}

type initState struct {
	Label string
	Build func(root string) error
	Model model
}

var inits = []initState{
	{"empty-root", func(root string) error { return os.MkdirAll(root, 0o755) }, model{"none", false}},
	{"broken-foo", func(root string) error {
		return writeFile(filepath.Join(root, pluginName, exeName), 0o755, brokenScript)
	}, model{"broken", true}},
	// further ways an installed plugin can fail to answer (class "existing plugin without a version")
	{"broken-foo-stderr-text", func(root string) error {
		return writeFile(filepath.Join(root, pluginName, exeName), 0o755, "#!/bin/sh\necho 'cannot load library' >&2\nexit 1\n")
	}, model{"broken", true}},
	{"broken-foo-stderr-json-error", func(root string) error {
		return writeFile(filepath.Join(root, pluginName, exeName), 0o755, "#!/bin/sh\necho '{\"errorCode\":\"ERROR\",\"errorMessage\":\"down\"}' >&2\nexit 1\n")
	}, model{"broken", true}},
	{"broken-foo-garbage-answer", func(root string) error {
		return writeFile(filepath.Join(root, pluginName, exeName), 0o755, "#!/bin/sh\necho 'hello'\nexit 0\n")
	}, model{"broken", true}},
	{"broken-foo-answers-other-name", func(root string) error {
		return writeFile(filepath.Join(root, pluginName, exeName), 0o755, stub("bar", "1.0.0", false))
	}, model{"broken", true}},
	{"broken-foo-not-executable", func(root string) error {
		return writeFile(filepath.Join(root, pluginName, exeName), 0o644, stub(pluginName, "1.0.0", false))
	}, model{"broken", true}},
	{"broken-foo-empty-file", func(root string) error {
		return writeFile(filepath.Join(root, pluginName, exeName), 0o755, "")
	}, model{"broken", true}},
	{"stray-dir", func(root string) error {
		return writeFile(filepath.Join(root, "zz-stray", "readme.txt"), 0o644, "not a plugin\n")
	}, model{"none", false}},
	{"foo-dir-without-executable", func(root string) error {
		return writeFile(filepath.Join(root, pluginName, "data.txt"), 0o644, "left-over data, no executable\n")
	}, model{"none", true}},
	{"root-absent", func(root string) error { return os.MkdirAll(filepath.Dir(root), 0o755) }, model{"none", false}},
}

func initOf(label string) *initState {
	for i := range inits {
		if inits[i].Label == label {
			return &inits[i]
		}
	}
	return nil
}

// op is one operation of the alphabet.
type op struct {
	Kind      string `json:"kind"` // "install" | "uninstall"
	Version   string `json:"version,omitempty"`
	Overwrite bool   `json:"overwrite,omitempty"`
	Shape     string `json:"shape,omitempty"`
}

func (o op) String() string {
	if o.Kind == "uninstall" {
		return "uninstall"
	}
	return fmt.Sprintf("install(%s,ow=%v,%s)", vlabel(o.Version), o.Overwrite, o.Shape)
}

// replayCase is what --replay understands: initial state + operation list; the
// last operation is the judged one (for Kind "differential" Op and Base are
// both applied to the state reached by History and compared).
type replayCase struct {
	Kind    string `json:"kind"` // "transition" | "differential"
	Init    string `json:"init"`
	History []op   `json:"history"`
	Op      op     `json:"op"`
	Base    *op    `json:"base,omitempty"`
}

// ---------------------------------------------------------------------------
// one case (runs inside a worker process, or in-process for --replay)
// ---------------------------------------------------------------------------

type request struct {
	Dir      string `json:"dir"` // absolute scratch directory of this case
	Init     string `json:"init"`
	Hist     []op   `json:"hist"`
	WantHash string `json:"want_hash"` // hash the replayed history must reproduce ("" = do not check)
	Model    model  `json:"model"`     // "" Existing = derive the model by replaying (replay mode)
	Op       op     `json:"op"`
}

type viol struct {
	Key  string `json:"key"`
	What string `json:"what"`
}

type result struct {
	Infra       string   `json:"infra,omitempty"`
	Viol        []viol   `json:"viol,omitempty"`
	Outcome     string   `json:"outcome"`
	Evals       int      `json:"evals"`
	Want        string   `json:"want"` // proceed | refuse | either
	Proceeded   bool     `json:"proceeded"`
	Err         string   `json:"err,omitempty"`
	After       []entry  `json:"after"`
	AfterHash   string   `json:"after_hash"`
	StripHash   string   `json:"strip_hash"` // hash of After without the op's extra files
	Model       model    `json:"model"`      // model of the successor
	Nontrivial  bool     `json:"nontrivial"`
	Control     bool     `json:"control"`            // positive control: honest install expected to proceed and did
	Recorded    []string `json:"recorded,omitempty"` // observations beyond the statement: evidence only
	NoSuccessor bool     `json:"no_successor,omitempty"`
}

func (res *result) record(key string) { res.Recorded = append(res.Recorded, key) }

func (res *result) violation(key, format string, a ...any) {
	res.Viol = append(res.Viol, viol{key, fmt.Sprintf(format, a...)})
}

var ctx = context.Background()

// behave runs what is installed: Get("foo") + GetMetadata. The class is
// "ok:<name>@<version>" or "unavailable"; kind tells absent / not fetchable /
// not answering apart (same code + same tree => same kind), without error text.
func behave(mgr *plugin.CLIManager, res *result) (class, kind string) {
	res.Evals++
	p, err := mgr.Get(ctx, pluginName)
	if err != nil {
		if errors.Is(err, os.ErrNotExist) {
			return "unavailable", "absent"
		}
		return "unavailable", "get-error"
	}
	md, err := p.GetMetadata(ctx, &pfw.GetMetadataRequest{})
	// A plugin that answers may fail to be RUN on a starved machine (fork failing with EAGAIN / ENOMEM, the library's
	// pipe wait expiring). That is the machine, not the tree: ask again before calling the plugin unavailable.
	starved := func(err error) bool {
		if errors.Is(err, exec.ErrWaitDelay) || errors.Is(err, syscall.EAGAIN) || errors.Is(err, syscall.ENOMEM) || errors.Is(err, syscall.EMFILE) || errors.Is(err, syscall.ENFILE) {
			return true
		}
		m := err.Error()
		return strings.Contains(m, "resource temporarily unavailable") || strings.Contains(m, "cannot allocate memory") || strings.Contains(m, "too many open files")
	}
	for try := 0; err != nil && try < 4 && starved(err); try++ {
		time.Sleep(time.Duration(200*(try+1)) * time.Millisecond)
		md, err = p.GetMetadata(ctx, &pfw.GetMetadataRequest{})
	}
	if err != nil {
		return "unavailable", "metadata-error"
	}
	return "ok:" + md.Name + "@" + md.Version, "ok"
}

func listed(mgr *plugin.CLIManager, res *result) (bool, []string, error) {
	res.Evals++
	l, err := mgr.List(ctx)
	for _, n := range l {
		if n == pluginName {
			return true, l, err
		}
	}
	return false, l, err
}

// applyRaw applies one operation without judging (history replay); it reports
// whether the operation returned a nil error.
func applyRaw(mgr *plugin.CLIManager, srcBase string, o op) (bool, error) {
	if o.Kind == "uninstall" {
		return mgr.Uninstall(ctx, pluginName) == nil, nil
	}
	sh := shapeOf(o.Shape)
	if sh == nil || verOf(o.Version) == nil {
		return false, fmt.Errorf("unknown shape %q or version %q", o.Shape, o.Version)
	}
	src, err := buildSource(srcBase, sh, o.Version)
	if err != nil {
		return false, err
	}
	_, _, ierr := mgr.Install(ctx, plugin.CLIInstallOptions{PluginPath: src.Path, Overwrite: o.Overwrite})
	return ierr == nil, nil
}

func plainShape(sh *shape) bool { return sh.Label == "file-exe" || sh.Label == "dir-exe" }

// expect is the reference installer's decision: "refuse" and "proceed" are what
// the statement fixes, "either" is what it leaves open (recorded, consequences
// of whatever happens still checked).
//
//   - invalid or misnamed metadata                                   -> refuse (stated)
//   - existing plugin with a version, no overwrite, new version not
//     strictly higher / a version that is no semantic version        -> refuse (stated, whatever the source)
//   - source labelled unusable                                       -> either: the statement does not define
//     "usable"; a success must still satisfy every stated consequence for plugin foo
//   - existing plugin malfunctioning (no version), no overwrite      -> refuse (stated: neither condition holds)
//   - new version not a semantic version, nothing to compare with
//     (no existing plugin, or overwrite)                             -> either ("invalid version" may be refused)
//   - a shape other than the plain executable / directory holding
//     only it                                                        -> either here; the differential clause
//     ties it to the plain shape of its family
//   - plain shape, valid version: no existing plugin / overwrite /
//     strictly higher                                                -> proceed
func expect(m model, o op) (want, reason string) {
	sh, v := shapeOf(o.Shape), verOf(o.Version)
	if !sh.MetaOK || !v.MetaOK {
		return "refuse", "invalid-metadata"
	}
	rule := "" // how the version rule or its absence allows the installation
	switch {
	case m.Existing == "none":
		rule = "fresh"
	case o.Overwrite:
		rule = "overwrite"
	case m.Existing == "broken":
		// "replaces an existing plugin of the same name only if the new version is
		// strictly higher …, or if overwrite is requested": a plugin that does not
		// answer has no version the new one could be strictly higher than, and
		// overwrite is not requested, so it must not be replaced.
		return "refuse", "existing-version-unknown"
	default:
		e := verOf(m.Existing[2:])
		switch {
		case e == nil || !e.Valid || !v.Valid:
			return "refuse", "invalid-version"
		case rank(v.S) == rank(e.S):
			return "refuse", "equal-precedence"
		case rank(v.S) < rank(e.S):
			return "refuse", "lower"
		}
		rule = "higher"
	}
	switch {
	case !sh.Usable:
		return "either", "unusable-source"
	case !v.Valid:
		return "either", "invalid-version-nothing-to-compare/" + rule
	case !plainShape(sh):
		return "either", rule + "/other-shape"
	}
	return "proceed", rule
}

func treeOfDir(es []entry) map[string]entry {
	m := map[string]entry{}
	for _, e := range es {
		if strings.HasPrefix(e.P, pluginName+"/") {
			m[strings.TrimPrefix(e.P, pluginName+"/")] = e
		}
	}
	return m
}

func sameEntries(a, b []entry) bool { return hashTree(a) == hashTree(b) && len(a) == len(b) }

// inside returns <root>/foo and what is below it.
func inside(es []entry) []entry {
	var o []entry
	for _, e := range es {
		if inPluginDir(e.P) {
			o = append(o, e)
		}
	}
	return o
}

func stripped(es []entry, extras []string) []entry {
	var o []entry
outer:
	for _, e := range es {
		for _, x := range extras {
			if e.P == pluginName+"/"+x {
				continue outer
			}
		}
		o = append(o, e)
	}
	return o
}

// judged applies op o to the root (whose tree is `beforeT`, model m) and
// evaluates the oracle. Only what the statement says is a violation; what the
// current code happens to do beyond it is recorded (res.record).
func judged(mgr *plugin.CLIManager, root, srcBase string, m model, o op, beforeT []entry, res *result) {
	res.Model = m
	bb, bk := behave(mgr, res)
	if bb != m.behaviour() {
		res.Infra = fmt.Sprintf("state model says %q but the installed plugin behaves %q before %s", m.behaviour(), bb, o)
		return
	}
	if o.Kind == "uninstall" {
		res.Evals++
		err := mgr.Uninstall(ctx, pluginName)
		afterT, serr := snapshot(root)
		if serr != nil {
			res.Infra = "snapshot: " + serr.Error()
			return
		}
		res.After, res.AfterHash, res.StripHash = afterT, stateHash(afterT), hashTree(inside(afterT))
		if err != nil {
			res.Err = err.Error()
		}
		if !sameEntries(outside(afterT), outside(beforeT)) {
			res.record("uninstall/entries-outside-plugin-dir-changed")
		}
		installed := strings.HasPrefix(m.Existing, "v:")
		res.Nontrivial = m.Dir
		switch {
		case err != nil:
			res.Want = "refuse"
			if installed {
				// "it can afterwards be … uninstalled by its name"
				res.Want = "proceed"
				res.violation("uninstall/failed-on-installed-plugin", "Uninstall(foo) on a root holding %s failed: %v", showTree(beforeT), err)
			} else if m.Dir {
				res.record("uninstall/failed-on-directory-without-working-plugin:" + m.class())
			}
			if !sameEntries(inside(afterT), inside(beforeT)) {
				res.record("uninstall/failed-but-plugin-dir-changed")
				res.NoSuccessor = true // no model for what is left
			}
			switch {
			case errors.Is(err, os.ErrNotExist):
				res.Outcome = "uninstall:" + m.class() + "->ErrNotExist"
			default:
				res.Outcome = "uninstall:" + m.class() + "->other-error"
			}
		default:
			res.Want = "proceed"
			res.Proceeded = true
			res.Model = model{"none", false}
			if len(inside(afterT)) != 0 {
				res.violation("uninstall/plugin-dir-not-removed:"+m.class(), "Uninstall(foo) returned nil; tree before %s after %s", showTree(beforeT), showTree(afterT))
			}
			if ab, _ := behave(mgr, res); ab != "unavailable" {
				res.violation("uninstall/still-fetchable:"+m.class(), "after Uninstall Get/GetMetadata answers %q", ab)
			}
			if in, l, _ := listed(mgr, res); in {
				res.violation("uninstall/still-listed:"+m.class(), "after Uninstall List = %q", l)
			}
			res.Outcome = "uninstall:" + m.class() + "->removed"
			if !m.Dir {
				res.Outcome = "uninstall:nothing-installed->nil"
			}
		}
		return
	}

	sh, v := shapeOf(o.Shape), verOf(o.Version)
	if sh == nil || v == nil {
		res.Infra = fmt.Sprintf("unknown shape %q or version %q", o.Shape, o.Version)
		return
	}
	src, err := buildSource(srcBase, sh, o.Version)
	if err != nil {
		res.Infra = "source: " + err.Error()
		return
	}
	want, reason := expect(m, o)
	res.Want = want
	res.Nontrivial = m.Existing != "none" && sh.Usable && sh.MetaOK && v.MetaOK
	e := strings.TrimPrefix(m.Existing, "v:")
	pair := vlabel(e) + "->" + vlabel(o.Version)
	if !strings.HasPrefix(m.Existing, "v:") {
		pair = m.Existing + "->" + vlabel(o.Version)
	}

	res.Evals++
	exMd, newMd, ierr := mgr.Install(ctx, plugin.CLIInstallOptions{PluginPath: src.Path, Overwrite: o.Overwrite})
	afterT, serr := snapshot(root)
	if serr != nil {
		res.Infra = "snapshot: " + serr.Error()
		return
	}
	res.After, res.AfterHash = afterT, stateHash(afterT)
	res.StripHash = hashTree(stripped(inside(afterT), src.Extras))
	ab, ak := behave(mgr, res)
	res.Proceeded = ierr == nil
	observed := "refused"
	if ierr == nil {
		observed = "proceeded"
	} else {
		res.Err = ierr.Error()
	}
	res.Outcome = "install:" + reason + "->" + observed
	if !sameEntries(outside(afterT), outside(beforeT)) {
		// staging directories, a created root … : the statement speaks about the plugin's files
		res.record("install/entries-outside-plugin-dir-changed")
	}

	// --- the decision -------------------------------------------------------
	// keys: by version pair when the source is one of the two plain shapes, by
	// shape otherwise (then the shape, not the pair, is what is special)
	by := func(family, plainLabel string) string {
		if plainShape(sh) {
			return "install/" + family + ":" + plainLabel
		}
		return "install/" + family + "-from-shape:" + sh.Label
	}
	switch {
	case want == "refuse" && ierr == nil:
		switch reason {
		case "invalid-metadata":
			if !sh.MetaOK {
				res.violation("install/accepted-invalid-metadata:"+sh.Label, "%s succeeded although the candidate's metadata is invalid or names another plugin", o)
			} else {
				res.violation(by("accepted-invalid-metadata", "version-"+vlabel(o.Version)), "%s succeeded although the candidate's metadata lacks a mandatory field", o)
			}
		case "invalid-version":
			res.violation(by("accepted-invalid-version", pair), "%s over existing %s succeeded without overwrite although a version is not a semantic version", o, m.Existing)
		default:
			res.violation(by("accepted-not-higher", pair), "%s over existing %s succeeded without overwrite (%s)", o, m.Existing, reason)
		}
	case want == "proceed" && ierr != nil:
		// only the two plain shapes with a valid version get here
		switch reason {
		case "higher":
			res.violation("install/refused-higher:"+pair, "%s over existing %s refused: %v", o, m.Existing, ierr)
		case "overwrite":
			res.violation("install/refused-despite-overwrite:"+sh.Label, "%s over existing %s refused: %v", o, m.Existing, ierr)
		default:
			res.violation("install/refused-without-existing-plugin:"+sh.Label, "%s into a root without plugin foo refused: %v", o, ierr)
		}
	case want == "either" && reason == "unusable-source" && ierr == nil:
		res.record("install/accepted-source-labelled-unusable:" + sh.Label)
	}

	// --- consequences of what the code reported -----------------------------
	if ierr != nil {
		// "leaves the installed plugin's files and behaviour exactly as they were"
		if !sameEntries(inside(afterT), inside(beforeT)) {
			res.violation("install/refused-but-tree-changed:"+sh.Label, "%s over %s refused (%v) but the plugin's files changed: before %s after %s", o, m.Existing, ierr, showTree(beforeT), showTree(afterT))
		}
		if ab != bb || ak != bk {
			res.violation("install/refused-but-behaviour-changed:"+sh.Label, "%s over %s refused (%v) but Get/GetMetadata answered %q (%s) before and %q (%s) after", o, m.Existing, ierr, bb, bk, ab, ak)
		}
		return
	}
	res.Model = model{"v:" + o.Version, true}
	res.Control = want == "proceed"
	// <root>/foo holds exactly the regular top-level files of the source (names, bytes)
	got := treeOfDir(afterT)
	exact := len(got) == len(src.Top)
	for n, h := range src.Top {
		g, ok := got[n]
		if !ok || g.H != h || !fs.FileMode(g.M).IsRegular() {
			exact = false
		}
	}
	if !exact {
		var names []string
		for n := range src.Top {
			names = append(names, n)
		}
		sort.Strings(names)
		res.violation("install/tree-not-exactly-source:"+sh.Label, "%s succeeded; source top-level files %q; plugin directory holds %s", o, names, showTree(afterT))
	}
	if wantB := "ok:" + pluginName + "@" + o.Version; ab != wantB {
		res.violation("install/installed-plugin-answers-wrong:"+sh.Label, "%s succeeded but Get(foo).GetMetadata answers %q, want %q", o, ab, wantB)
	}
	// the values returned by Install are not part of the statement: recorded
	if newMd == nil || newMd.Version != o.Version || newMd.Name != pluginName {
		res.record("install/returned-new-metadata-differs")
	}
	switch {
	case strings.HasPrefix(m.Existing, "v:") && (exMd == nil || exMd.Version != e || exMd.Name != pluginName):
		res.record("install/returned-existing-metadata-differs:version")
	case !strings.HasPrefix(m.Existing, "v:") && exMd != nil:
		res.record("install/returned-existing-metadata-differs:" + m.Existing)
	}
	if in, l, lerr := listed(mgr, res); !in {
		res.violation("install/not-listed:"+sh.Label, "after %s List = %q, %v", o, l, lerr)
	}
	// and can afterwards be uninstalled by its name
	res.Evals++
	if uerr := mgr.Uninstall(ctx, pluginName); uerr != nil {
		res.violation("uninstall-after-install/failed:"+sh.Label, "Uninstall(foo) after %s: %v", o, uerr)
		return
	}
	finalT, serr := snapshot(root)
	if serr != nil {
		res.Infra = "snapshot: " + serr.Error()
		return
	}
	if len(inside(finalT)) != 0 {
		res.violation("uninstall-after-install/plugin-dir-not-removed:"+sh.Label, "after %s the tree was %s, after Uninstall(foo) %s", o, showTree(afterT), showTree(finalT))
	}
	if !sameEntries(outside(finalT), outside(afterT)) {
		res.record("uninstall-after-install/entries-outside-plugin-dir-changed")
	}
	if fb, _ := behave(mgr, res); fb != "unavailable" {
		res.violation("uninstall-after-install/still-fetchable:"+sh.Label, "Get/GetMetadata answers %q after Uninstall", fb)
	}
}

// runCase rebuilds the state (initial state + history) in a fresh directory and
// applies the judged operation.
func runCase(req request) (res result) {
	defer func() {
		if v := recover(); v != nil {
			res.violation("panic/"+req.Op.Kind+":"+req.Op.Shape, "panic in %s: %v\n%s", req.Op, v, debug.Stack())
		}
	}()
	_ = os.RemoveAll(req.Dir)
	if err := os.MkdirAll(req.Dir, 0o755); err != nil {
		res.Infra = err.Error()
		return
	}
	defer os.RemoveAll(req.Dir)
	root := filepath.Join(req.Dir, "root")
	in := initOf(req.Init)
	if in == nil {
		res.Infra = "unknown initial state " + req.Init
		return
	}
	if err := in.Build(root); err != nil {
		res.Infra = "initial state: " + err.Error()
		return
	}
	mgr := plugin.NewCLIManager(dir.NewSysFS(root))
	m := req.Model
	derive := m.Existing == ""
	if derive {
		m = in.Model
	}
	for i, h := range req.Hist {
		res.Evals++
		_ = i
		ok, err := applyRaw(mgr, filepath.Join(req.Dir, "src"), h)
		if err != nil {
			res.Infra = err.Error()
			return
		}
		// replay mode: the model follows what the operations reported, exactly as in the search
		if derive && ok {
			if h.Kind == "install" {
				m = model{"v:" + h.Version, true}
			} else {
				m = model{"none", false}
			}
		}
	}
	beforeT, err := snapshot(root)
	if err != nil {
		res.Infra = "snapshot: " + err.Error()
		return
	}
	if req.WantHash != "" && stateHash(beforeT) != req.WantHash {
		res.Infra = fmt.Sprintf("replaying history %v from %s gave tree %s (%s), expected hash %s: the code under test is not a function of the tree", req.Hist, req.Init, showTree(beforeT), stateHash(beforeT), req.WantHash)
		return
	}
	judged(mgr, root, filepath.Join(req.Dir, "src"), m, req.Op, beforeT, &res)
	return
}

// ---------------------------------------------------------------------------
// worker processes
// ---------------------------------------------------------------------------

func workerLoop() {
	runtime.GOMAXPROCS(2)
	dec := json.NewDecoder(bufio.NewReader(os.Stdin))
	out := bufio.NewWriter(os.Stdout)
	enc := json.NewEncoder(out)
	for {
		var req request
		if err := dec.Decode(&req); err != nil {
			return
		}
		res := runCase(req)
		if err := enc.Encode(&res); err != nil {
			return
		}
		out.Flush()
	}
}

type worker struct {
	cmd *exec.Cmd
	in  io.WriteCloser
	enc *json.Encoder
	dec *json.Decoder
}

func startWorker() (*worker, error) {
	exe, err := os.Executable()
	if err != nil {
		return nil, err
	}
	cmd := exec.Command(exe, "--worker")
	cmd.Stderr = os.Stderr
	in, err := cmd.StdinPipe()
	if err != nil {
		return nil, err
	}
	outp, err := cmd.StdoutPipe()
	if err != nil {
		return nil, err
	}
	if err := cmd.Start(); err != nil {
		return nil, err
	}
	return &worker{cmd, in, json.NewEncoder(in), json.NewDecoder(bufio.NewReader(outp))}, nil
}

func (w *worker) stop() {
	_ = w.in.Close()
	_ = w.cmd.Wait()
}

func (w *worker) do(req request) (result, error) {
	var res result
	if err := w.enc.Encode(&req); err != nil {
		return res, err
	}
	err := w.dec.Decode(&res)
	return res, err
}

type pool struct {
	ch chan *worker
	n  int
}

func newPool(n int) (*pool, error) {
	p := &pool{make(chan *worker, n), n}
	for i := 0; i < n; i++ {
		w, err := startWorker()
		if err != nil {
			return nil, err
		}
		p.ch <- w
	}
	return p, nil
}

func (p *pool) do(req request) result {
	w := <-p.ch
	if w == nil {
		w, _ = startWorker()
	}
	if w == nil {
		p.ch <- nil
		return result{Infra: "no worker process available"}
	}
	res, err := w.do(req)
	if err != nil {
		w.stop()
		p.ch <- nil // restarted lazily
		return result{Infra: fmt.Sprintf("worker process failed on %s %v + %s: %v", req.Init, req.Hist, req.Op, err)}
	}
	p.ch <- w
	return res
}

func (p *pool) close() {
	for i := 0; i < p.n; i++ {
		if w := <-p.ch; w != nil {
			w.stop()
		}
	}
}

// ---------------------------------------------------------------------------
// the search
// ---------------------------------------------------------------------------

type state struct {
	ID    int
	Hash  string
	Tree  []entry
	Init  string
	Hist  []op
	Model model
	Depth int
}

// quickGenerated: the versions the generated shapes meet in the quick tier (a
// pre-release, a release, a non-semantic version: lower / equal / higher /
// invalid relative to the installed versions all occur).
var quickGenerated = map[string]bool{"1.0.0-beta.11": true, "1.0.0": true, "1.0": true}

// thoroughGenerated: the six versions the generated shapes meet in the thorough tier.
var thoroughGenerated = map[string]bool{"1.0.0-beta.2": true, "1.0.0-beta.11": true, "1.0.0": true, "1.0.0+b1": true, "1.0": true, "": true}

func alphabet(thorough bool) (ops []op, vs []ver, shs []shape) {
	for _, v := range versions {
		if thorough || v.Quick {
			vs = append(vs, v)
		}
	}
	for _, s := range shapes {
		if thorough || s.Quick {
			shs = append(shs, s)
		}
	}
	for _, v := range vs {
		for _, ow := range []bool{false, true} {
			for _, s := range shs {
				if v.PlainOnly && !plainShape(&s) {
					continue
				}
				if narrow[s.Label] && !narrowVersions[v.S] {
					continue
				}
				if s.Sub && (!thoroughGenerated[v.S] || (!thorough && !quickGenerated[v.S])) {
					// what a sub-directory, a misnamed or an invalid answer does to an installation
					// does not depend on the version: these shapes meet the six versions of the quick set only
					continue
				}
				ops = append(ops, op{"install", v.S, ow, s.Label})
			}
		}
	}
	ops = append(ops, op{Kind: "uninstall"})
	return
}

func search(r *hx.Run) {
	ops, vs, shs := alphabet(r.Thorough())
	scratch := hx.Scratch()
	nw := runtime.GOMAXPROCS(0)
	if w := os.Getenv("VERIF_WORKERS"); w != "" {
		if x, err := strconv.Atoi(w); err == nil && x > 0 {
			nw = x
		}
	}
	pl, err := newPool(nw)
	if err != nil {
		r.Infra("cannot start worker processes: %v", err)
		return
	}
	defer pl.close()

	if r.Thorough() {
		r.SetDeadline(540 * time.Second)
	} else {
		r.SetDeadline(36 * time.Second)
	}

	seen := map[string]*state{}
	var all []*state
	var frontier []*state
	// initial states (built in-process: no plugin is executed here)
	for _, in := range inits {
		d := filepath.Join(scratch, "init-"+in.Label)
		root := filepath.Join(d, "root")
		if err := in.Build(root); err != nil {
			r.Infra("initial state %s: %v", in.Label, err)
			return
		}
		t, err := snapshot(root)
		_ = os.RemoveAll(d)
		if err != nil {
			r.Infra("initial state %s: %v", in.Label, err)
			return
		}
		s := &state{ID: len(all), Hash: stateHash(t), Tree: t, Init: in.Label, Model: in.Model}
		if _, dup := seen[s.Hash]; dup {
			r.Infra("two initial states share a tree: %s", in.Label)
			return
		}
		seen[s.Hash] = s
		all = append(all, s)
		frontier = append(frontier, s)
		r.State(1)
	}

	opIdx := map[op]int{}
	for i, o := range ops {
		opIdx[o] = i
	}
	var controls, transitions, violating int64
	maxDepth, level := 0, 0
	capped := false
	var caseSeq int64
	var seqMu sync.Mutex
	for len(frontier) > 0 {
		n := len(frontier) * len(ops)
		results := make([]*result, n)
		r.Parallel(n, func(i int) {
			if r.Expired() {
				return
			}
			s, o := frontier[i/len(ops)], ops[i%len(ops)]
			seqMu.Lock()
			caseSeq++
			id := caseSeq
			seqMu.Unlock()
			res := pl.do(request{Dir: filepath.Join(scratch, fmt.Sprintf("case-%d", id)), Init: s.Init, Hist: s.Hist, WantHash: s.Hash, Model: s.Model, Op: o})
			results[i] = &res
		}, nil)

		var next []*state
		done := 0
		for i, res := range results {
			if res == nil {
				capped = true
				continue
			}
			done++
			s, o := frontier[i/len(ops)], ops[i%len(ops)]
			rc := replayCase{Kind: "transition", Init: s.Init, History: s.Hist, Op: o}
			r.Eval(res.Evals)
			if res.Infra != "" {
				r.Infra("%s %v + %s: %s", s.Init, s.Hist, o, res.Infra)
				continue
			}
			r.Transition(1)
			transitions++
			for _, v := range res.Viol {
				r.Violation(v.Key, fmt.Sprintf("init=%s history=%v: %s", s.Init, s.Hist, v.What), rc)
			}
			r.Outcome(res.Outcome)
			if res.Nontrivial {
				r.Nontrivial(s.Hash + "|" + o.String())
			}
			if res.Control {
				controls++
			}
			if transitions%997 == 1 {
				r.Sample(map[string]any{"init": s.Init, "history": fmt.Sprint(s.Hist), "state_model": s.Model, "op": o.String(), "reference": res.Want, "outcome": res.Outcome, "error": res.Err, "tree_after": showTree(res.After)})
			}
			for _, k := range res.Recorded {
				r.Outcome("recorded:" + k)
			}
			if len(res.Viol) > 0 || res.NoSuccessor {
				// the model of a successor reached through a violating transition is unreliable
				// (e.g. the installed bytes are not the source's): do not explore from it
				violating++
				continue
			}
			if t, ok := seen[res.AfterHash]; ok {
				if t.Model != res.Model {
					r.Infra("one tree, two models: %s reached by %s %v has model %+v; reached by %s %v + %s the model is %+v", t.Hash, t.Init, t.Hist, t.Model, s.Init, s.Hist, o, res.Model)
				}
				continue
			}
			ns := &state{ID: len(all), Hash: res.AfterHash, Tree: res.After, Init: s.Init,
				Hist: append(append([]op(nil), s.Hist...), o), Model: res.Model, Depth: s.Depth + 1}
			seen[ns.Hash] = ns
			all = append(all, ns)
			next = append(next, ns)
			r.State(1)
			if ns.Depth > maxDepth {
				maxDepth = ns.Depth
			}
		}

		// differential clause, per (state, version, overwrite)
		for si, s := range frontier {
			for _, v := range vs {
				for _, ow := range []bool{false, true} {
					for _, fam := range []struct{ name, base string }{{"exe", "dir-exe"}, {"nonexec", "dir-nonexec"}} {
						bo := op{"install", v.S, ow, fam.base}
						bi, ok := opIdx[bo]
						if !ok || results[si*len(ops)+bi] == nil {
							continue
						}
						base := results[si*len(ops)+bi]
						for _, sh := range shs {
							if sh.Family != fam.name || sh.Label == fam.base {
								continue
							}
							vo := op{"install", v.S, ow, sh.Label}
							vi, ok := opIdx[vo]
							if !ok {
								continue
							}
							vr := results[si*len(ops)+vi]
							if vr == nil || vr.Infra != "" || base.Infra != "" {
								continue
							}
							rc := replayCase{Kind: "differential", Init: s.Init, History: s.Hist, Op: vo, Base: &bo}
							if key, what := differential(base, vr, sh.Label); key != "" {
								r.Violation(key, fmt.Sprintf("init=%s history=%v %s vs %s: %s", s.Init, s.Hist, vo, bo, what), rc)
							} else {
								r.Outcome("differential:" + fam.name + "-family-agrees")
							}
						}
					}
				}
			}
		}
		if capped || r.Expired() {
			r.Capped(fmt.Sprintf("time cap: levels 0..%d closed completely; level %d: %d of %d transitions", level-1, level, done, n))
			capped = true
			break
		}
		frontier = next
		level++
	}

	r.Extra["fixpoint_reached"] = !capped
	r.Extra["violating_transitions_not_explored_further"] = violating
	r.Extra["max_depth"] = maxDepth
	r.Extra["bfs_levels_closed"] = level
	r.Extra["operations_per_state"] = len(ops)
	r.Extra["versions"] = len(vs)
	r.Extra["source_shapes"] = len(shs)
	nsub := 0
	for _, s := range shs {
		if s.Sub {
			nsub++
		}
	}
	r.Extra["source_shapes_generated"] = nsub
	r.Extra["near_miss_metadata_names"] = len(nearMissNames)
	r.Extra["invalid_metadata_variants"] = len(badMetadata)
	r.Extra["alphabet"] = "Install: (plain shapes x all versions + generated shapes {sub-directories, near-miss metadata names, invalid metadata} x six versions (quick tier: three) + extra-file shapes {name classes, attribute mix} x two versions (both tiers)) x overwrite; Uninstall(foo)"
	nameClasses := map[string][]string{}
	nExtraShapes := 0
	for _, s := range shs {
		if !narrow[s.Label] {
			continue
		}
		nExtraShapes++
		var names []string
		for _, f := range s.Files("1.0.0") {
			if f.Rel != exeName {
				names = append(names, fmt.Sprintf("%s (%o, %d bytes)", strconv.Quote(f.Rel), f.Mode&os.ModePerm, len(f.Body)))
			}
		}
		nameClasses[s.Label] = names
	}
	r.Extra["source_shapes_extra_file_names_and_attributes"] = nExtraShapes
	r.Extra["extra_file_classes"] = nameClasses
	r.Extra["extra_file_name_classes_defined"] = len(extraNameClasses)
	r.Extra["initial_states"] = len(inits)
	r.Extra["worker_processes"] = nw
	var byModel = map[string]int{}
	for _, s := range all {
		byModel[s.Model.class()]++
	}
	r.Extra["states_by_existing_plugin"] = byModel
	fmt.Printf("C20: states=%d transitions=%d max_depth=%d fixpoint=%v ops/state=%d\n", len(all), transitions, maxDepth, !capped, len(ops))
	if controls == 0 && !capped {
		r.Infra("no honest installation was accepted: all positive controls failed")
	}
}

// differential compares the result of installing from a variant source with
// the result of installing from the family's base source (directory holding
// only the candidate) in the same state.
func differential(base, variant *result, label string) (key, what string) {
	if base.Proceeded != variant.Proceeded {
		return "differential/outcome-differs:" + label, fmt.Sprintf("base proceeded=%v (%s), variant proceeded=%v (%s)", base.Proceeded, base.Err, variant.Proceeded, variant.Err)
	}
	if !base.Proceeded {
		return "", "" // both refused: each is separately held to "plugin's files unchanged"
	}
	// the plugin directories (paths, modes, bytes), the variant's own extra files set aside
	if variant.StripHash != base.StripHash {
		return "differential/installed-plugin-differs:" + label, fmt.Sprintf("tree after base %s, after variant %s (extra files of the variant may only add themselves)", showTree(base.After), showTree(variant.After))
	}
	return "", ""
}

// ---------------------------------------------------------------------------
// replay
// ---------------------------------------------------------------------------

func replay(r *hx.Run) {
	var c replayCase
	if err := r.LoadReplay(&c); err != nil {
		r.Infra("replay: %v", err)
		return
	}
	scratch := hx.Scratch()
	run := func(o op, tag string) result {
		res := runCase(request{Dir: filepath.Join(scratch, "replay-"+tag), Init: c.Init, Hist: c.History, Op: o})
		r.Eval(res.Evals)
		r.Transition(1)
		if res.Infra != "" {
			r.Infra("%s", res.Infra)
		}
		for _, v := range res.Viol {
			r.Violation(v.Key, fmt.Sprintf("init=%s history=%v: %s", c.Init, c.History, v.What), replayCase{Kind: "transition", Init: c.Init, History: c.History, Op: o})
		}
		r.Outcome(res.Outcome)
		for _, k := range res.Recorded {
			r.Outcome("recorded:" + k)
		}
		fmt.Printf("replay: init=%s history=%v op=%s reference=%s outcome=%s err=%q tree=%s\n", c.Init, c.History, o, res.Want, res.Outcome, res.Err, showTree(res.After))
		return res
	}
	vr := run(c.Op, "op")
	if c.Kind == "differential" && c.Base != nil {
		br := run(*c.Base, "base")
		if key, what := differential(&br, &vr, c.Op.Shape); key != "" {
			r.Violation(key, fmt.Sprintf("init=%s history=%v %s vs %s: %s", c.Init, c.History, c.Op, *c.Base, what), c)
		}
	}
	if r.Violations() == 0 {
		fmt.Println("replay: holds")
	}
}

func main() {
	if len(os.Args) > 1 && os.Args[1] == "--worker" {
		workerLoop()
		return
	}
	r := hx.New("C20")
	r.Rule = "breadth-first closure of the state graph of CLIManager on a real plugin root: state = file tree (paths, modes, bytes) under the root, deduplicated by a canonical hash; from every reachable state every operation {Install(version x overwrite x source shape), Uninstall(foo)} is executed by the real code in a fresh directory (shortest history replayed first) and judged by a reference installer that sees only the generator's description of the source and the model of the state; source shapes = {single file, directory} x candidate {executable, not executable, two, none, misnamed} x extra files {none, sorting before, after, both} x sub-directories {position x filled/empty} x metadata {near-miss names, invalid answers} x NAMES of the extra files {blank and parentheses, punctuation, shell metacharacters, backslash and colon, non-ASCII, leading dot / dash / trailing dot, control characters, 255-byte names, twins differing only by case or by Unicode normalisation form - every class with members sorting before and after the candidate} x ATTRIBUTES of the extra files {0 bytes, 70 KiB, modes 0444 0600 0666 0755}; non-trivial = distinct (state, operation) pairs where a plugin directory exists and the source is usable with valid metadata (the version rule or overwrite decides), and uninstalls of an existing directory"
	r.Assumptions = []string{
		"plugins are POSIX shell scripts whose bytes embed name and version (an installed copy is self-describing); /bin/sh exists",
		"what is enforced is the statement only: refusal is demanded for invalid/misnamed metadata and for an existing versioned plugin without overwrite unless the new version is strictly higher (whatever the source); success is demanded only for the two plain sources (the executable, the directory holding only it) with a valid version and no existing plugin / overwrite / strictly higher version; every other usable-labelled shape is tied to the plain shape of its family by the differential clause; sources labelled unusable, a non-semantic version with nothing to compare against, may go either way (recorded); an existing plugin that does not answer (regular file notation-foo present: silent exit 1, stderr text, stderr JSON error, garbage answer, other name, not executable, empty file) has no version, so without overwrite it must not be replaced; whatever Install reports, the stated consequences of a refusal / a success are checked",
		"recorded, not judged (outcome classes recorded:*): entries under the root outside <root>/foo, the metadata values returned by Install, acceptance of a source labelled unusable, Uninstall on a directory that holds no working plugin; error texts and error types are never compared",
		"all operations of one history use ONE source location: files that stay are rewritten in place (same inode), the tree before the judged operation is taken before its source is prepared - an installed plugin must not depend on what later happens to its source",
		"semantic-version precedence is the row order of the hand-written table `precedence` (1.0.0 and 1.0.0+b1 share a row)",
		"names and attributes of extra files: the statement excepts no regular top-level file of the source ('exactly the regular top-level files of the source', 'whatever other files that directory contains'), so an extra file with any legal POSIX name (valid UTF-8, no slash, not starting with notation-), any size and any permission bits is held to the same three clauses as a-lib.txt: a success installs exactly the source's files, a refusal leaves the plugin's files and behaviour untouched, and the outcome and the installed plugin equal those of the directory holding only the candidate (differential clause); these shapes meet two versions (a pre-release, a release) in both tiers; the quick tier has the union of all name classes in one source (executable and non-executable candidate) and the attribute mix, the thorough tier also every name class on its own; names that are not valid UTF-8 and names only another file system could hold are not in the alphabet; the scratch file system is case-sensitive and normalisation-preserving (tmpfs)",
		"file modes of installed extra files are part of the state hash but not of the 'exactly the source files' oracle (names and bytes; the executable must be executable)",
		"each case runs in a single-case worker process so that no foreign child holds a descriptor of a freshly written script (ETXTBSY)",
	}
	if r.Replay != "" {
		replay(r)
		r.Finish()
	}
	search(r)
	r.Finish()
}
