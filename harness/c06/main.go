// C06 — expiry and certificate validity are judged against the right clock.
//
// E3: a time line whose instants are offsets from "now" (every generated instant
// is >= 1 h away from the verification instant): scheme x tsa store in the policy x
// verifyTimestamp option x validity windows of (leaf, CA) x signing time x expiry x
// countersignature state (forged offline RFC 3161 tokens) x TSA revocation answer x
// format, through the real verifier; reference clock model of DESIGN.md A.2.
//
// Secondary dimensions (none of them enters the reference model - the statement does not mention them, so the
// verdicts must not depend on them): the ORDER of the policy's trust store list (where the tsa store stands, what
// stands around it), the UTC offset the envelope's times are written with (JWS: RFC 3339 with the signer's offset),
// the verifier's own local time zone (time.Local, sequential family), a chain with an INTERMEDIATE certificate
// that has its own validity window, signing times two hours outside a window edge (so that a shift by a zone
// offset crosses the edge), and the validity windows of the TSA's OWN certificates (tsawin.go: expired / not yet valid /
// about to expire at the verification instant, around the token's genTime) - the clause "issued by an unrevoked TSA"
// holds whatever their age.
package main

import (
	"context"
	"crypto/x509"
	"encoding/base64"
	"encoding/json"
	"errors"
	"fmt"
	"math/big"
	"net/http"
	"net/http/httptest"
	"sort"
	"strings"
	"sync"
	"sync/atomic"
	"time"

	"github.com/notaryproject/notation-go"
	"github.com/notaryproject/notation-go/verifier"
	"github.com/notaryproject/notation-go/verifier/trustpolicy"
	"github.com/notaryproject/notation-go/zzverif/engine/timeshim"
	"github.com/notaryproject/notation-go/zzverif/lib/forge"
	"github.com/notaryproject/notation-go/zzverif/lib/hx"
	"github.com/notaryproject/notation-go/zzverif/lib/mocks"
	"github.com/notaryproject/notation-go/zzverif/lib/pki"
	"github.com/notaryproject/notation-go/zzverif/lib/refsig"
	"github.com/notaryproject/notation-go/zzverif/lib/tsa"
	"github.com/notaryproject/notation-go/zzverif/lib/vt"
	"github.com/opencontainers/go-digest"
	ocispec "github.com/opencontainers/image-spec/specs-go/v1"
)

const day = 24 * time.Hour

type window struct {
	Name     string
	From, To time.Duration // offsets from now
}

var windows = []window{{"valid-now", -10 * day, 10 * day}, {"expired-1d-ago", -10 * day, -1 * day}, {"starts-in-1d", 1 * day, 10 * day},
	// secondary (index >= firstNestedWindow): windows strictly NESTED inside valid-now - they differ from it in both
	// edges (the three above share an edge pairwise, so "the certificate that starts last" / "ends first" never
	// singles out the offending one)
	{"expired-1d-ago-started-6d-ago", -6 * day, -1 * day}, {"starts-in-1d-ends-in-6d", 1 * day, 6 * day}}

const firstNestedWindow = 3

var signTimes = []struct {
	Name string
	Off  time.Duration
	Year int // != 0: the instant is 1 June of that year (too far away for a time.Duration); Off then only orders it
}{{"-5d", -5 * day, 0}, {"-20d", -20 * day, 0}, {"-12h", -12 * time.Hour, 0}, {"+5d", 5 * day, 0},
	// secondary (index >= firstEdgeSign): two hours before the start / after the end of the valid-now window (and two
	// hours before the start of the expired-1d-ago window)
	{"-10d-2h", -10*day - 2*time.Hour, 0}, {"+10d+2h", 10*day + 2*time.Hour, 0},
	// secondary: centuries ago (needed below every far-past expiry: an expiry must lie after the signing time)
	{"in-1499", -251 * 365 * day, 1499}}

const firstEdgeSign = 4

var expiries = []struct {
	Name string
	Off  time.Duration
	Set  bool
	Year int // as in signTimes
}{{"no-expiry", 0, false, 0}, {"expires-in-1d", 1 * day, true, 0}, {"expired-2h-ago", -2 * time.Hour, true, 0}, {"expired-3d-ago", -3 * day, true, 0},
	// secondary (index >= firstFarExpiry): the far past - before the Unix epoch (negative seconds) and before 1678
	// (outside the range of int64 nanoseconds)
	{"expired-in-1960", -60 * 365 * day, true, 1960}, {"expired-in-1500", -250 * 365 * day, true, 1500}}

const firstFarExpiry = 4

func (w *world) instant(off time.Duration, year int) time.Time {
	if year != 0 {
		return time.Date(year, time.June, 1, 0, 0, 0, 0, time.UTC)
	}
	return w.now.Add(off)
}

// countersignature states
type tokenKind struct {
	Name        string
	Present     bool
	Gen         time.Duration // genTime offset
	Acc         int           // accuracy seconds
	Wrong       bool          // imprint of another message
	Authority   int           // 0 trusted, 1 untrusted root, 2 EKU not critical, 3 code-signing leaf
	Garbage     bool
	CopyOfPrior bool
}

var tokens = []tokenKind{
	{Name: "no-countersignature"},
	{Name: "token@-5d", Present: true, Gen: -5 * day, Acc: 1},
	{Name: "token@-20d", Present: true, Gen: -20 * day, Acc: 1},
	{Name: "token@-12h", Present: true, Gen: -12 * time.Hour, Acc: 1},
	{Name: "token@-1d-10s,accuracy-60s(straddles-expiry-edge)", Present: true, Gen: -1*day - 10*time.Second, Acc: 60},
	{Name: "token@-1d-10s,accuracy-1s(inside)", Present: true, Gen: -1*day - 10*time.Second, Acc: 1},
	{Name: "token@-5d,imprint-of-another-message", Present: true, Gen: -5 * day, Acc: 1, Wrong: true},
	{Name: "token@-5d,untrusted-tsa-root", Present: true, Gen: -5 * day, Acc: 1, Authority: 1},
	{Name: "token@-5d,tsa-leaf-eku-not-critical", Present: true, Gen: -5 * day, Acc: 1, Authority: 2},
	{Name: "token@-5d,tsa-leaf-is-code-signing", Present: true, Gen: -5 * day, Acc: 1, Authority: 3},
	{Name: "garbage-token", Present: true, Garbage: true},
	// the byte-identical token of ANOTHER signature of the same signer (the fine signature used as the earlier
	// verification in the instance-reuse cases): genuine, trusted, well timed - but over another signature value
	{Name: "token@-5d,genuine-token-of-another-signature", Present: true, Gen: -5 * day, Acc: 1, Wrong: true, CopyOfPrior: true},
}

// Order of the policy's trustStores list. S = the store of the signing scheme's type (ca:s / signingAuthority:s),
// T = the tsa store (only when the tsa policy lists one), O = a store of the OTHER signing type holding an unrelated
// root (and, like S, every TSA root: only tsa stores may anchor a countersignature).
var layouts = []string{"S T", "T S", "S T O", "O T S"}

// UTC offset with which the envelope's signing time and expiry are written (same instants). JWS only: COSE
// carries Unix seconds.
var envZones = []struct {
	Name string
	Off  time.Duration
}{{"utc", 0}, {"+08:00", 8 * time.Hour}, {"-09:30", -(9*time.Hour + 30*time.Minute)}}

// The verifier's own local time zone (time.Local while the judged call runs). 0 = whatever the machine has.
var verifierZones = []struct {
	Name string
	Off  time.Duration
}{{"machine-default", 0}, {"+05:45", 5*time.Hour + 45*time.Minute}, {"-08:00", -8 * time.Hour}}

// Intermediate certificate between leaf and root: none (chain of two), or one with its own validity window.
var mids = func() []string {
	out := []string{"no-intermediate"}
	for _, wd := range windows {
		out = append(out, "intermediate-"+wd.Name)
	}
	return out
}()

func midWindow(m int) *window {
	if m == 0 {
		return nil
	}
	return &windows[m-1]
}

var tsaPolicies = []string{"tsa-not-listed", "tsa-listed-trusted-root", "tsa-listed-store-unloadable", "tsa-listed-other-root"}
var options = []trustpolicy.TimestampOption{"", trustpolicy.OptionAlways, trustpolicy.OptionAfterCertExpiry}
var tsaRevs = []string{"tsa-rev-ok", "tsa-rev-revoked", "tsa-rev-unknown", "tsa-rev-validator-error"}

type caseT struct {
	Scheme int `json:"scheme"`
	TSAPol int `json:"tsa_policy"`
	Option int `json:"option"`
	LeafW  int `json:"leaf_window"`
	CAW    int `json:"ca_window"`
	Sign   int `json:"signing_time"`
	Expiry int `json:"expiry"`
	Token  int `json:"token"`
	TSARev int `json:"tsa_rev"`
	Format int `json:"format"`
	// Prior 1: the same verifier instance verified, immediately before, a signature of the same chain, scheme and
	// format that is fine on every clock (signed 5 days ago, no expiry, valid countersignature at -5d).
	Prior int `json:"prior"`
	// secondary dimensions (see the header comment); all zero = the conventional case
	Layout int `json:"store_list_layout"`
	Zone   int `json:"envelope_zone"`
	Mid    int `json:"intermediate"`
	VZone  int `json:"verifier_zone"`
	// RevVia 1: the judged verifier is given NO timestamping validator: it uses the built-in check, and the
	// countersignature comes from a TSA whose certificate names a CRL served by the harness on 127.0.0.1
	// (tsa_rev 0: not listed, 1: listed as revoked, 2: the CRL cannot be fetched)
	RevVia int `json:"tsa_validator_source"`
	// TSAWin: validity windows of the certificates of the trusted TSA (tsaWins, tsawin.go); 0 = both valid now
	TSAWin int `json:"tsa_cert_window"`
}

// Prior values: histories before the judged call
var priors = []string{"", "[after a fine signature on the same verifier] ",
	"[after ANOTHER verifier object, configured the opposite way (timestamping validator, tsa store in a policy statement of the same name, verifyTimestamp), was created and verified a fine signature] ",
	"[ANOTHER verifier object, configured the opposite way, was created and used between the creation of the judged verifier and the judged call] "}
var priorKeys = []string{"", ":after-earlier-verification-on-same-verifier", ":after-another-verifier-object-configured-differently", ":another-verifier-object-created-in-between"}

func (c caseT) secondary() bool {
	return c.Layout != 0 || c.Zone != 0 || c.Mid != 0 || c.VZone != 0 || c.RevVia != 0 || c.TSAWin != 0 || c.Sign >= firstEdgeSign || c.Expiry >= firstFarExpiry || c.LeafW >= firstNestedWindow || c.CAW >= firstNestedWindow
}

// storeList renders the trustStores list of the case (and says which entries it uses).
func (c caseT) storeList() []string {
	caType := []string{"ca", "signingAuthority"}[c.Scheme]
	other := []string{"signingAuthority", "ca"}[c.Scheme]
	var out []string
	for _, f := range strings.Fields(layouts[c.Layout]) {
		switch f {
		case "S":
			out = append(out, caType+":s")
		case "T":
			if c.TSAPol != 0 {
				out = append(out, "tsa:t")
			}
		case "O":
			out = append(out, other+":o")
		}
	}
	return out
}

func (c caseT) String() string {
	sec := ""
	if c.secondary() {
		sec = fmt.Sprintf(" | trustStores=%v envelope-times-written-in=%s %s verifier-zone=%s tsa-validator=%s %s", c.storeList(), envZones[c.Zone].Name, mids[c.Mid], verifierZones[c.VZone].Name, []string{"given-by-the-caller", "built-in(CRL-on-127.0.0.1)"}[c.RevVia], tsaWins[c.TSAWin].Name)
	}
	return priors[c.Prior] + fmt.Sprintf("%s %s verifyTimestamp=%q leaf=%s ca=%s signed@%s %s %s %s %s", []string{"x509", "signingAuthority"}[c.Scheme], tsaPolicies[c.TSAPol], options[c.Option], windows[c.LeafW].Name, windows[c.CAW].Name, signTimes[c.Sign].Name, expiries[c.Expiry].Name, tokens[c.Token].Name, tsaRevs[c.TSARev], []string{"jws", "cose"}[c.Format]) + sec
}

type world struct {
	now    time.Time
	chains map[[3]int]*pki.Chain
	auth   []*tsa.Authority
	spare  *pki.Cert // an unrelated root for the store of the other signing type
	// TSA hierarchy with revocation information: one root, three time-stamping certificates naming a CRL of the root
	// served by crlSrv: [0] not listed, [1] listed as revoked, [2] names a CRL that cannot be fetched
	// crlAuth[tsa window][answer]; only for the TSA windows that keep the root's window (tsaWinsWithCRL)
	crlAuth map[int][]*tsa.Authority
	crlSrv  *httptest.Server
	// tsaAuth[i]: the trusted TSA with the certificate windows tsaWins[i] ([0] = auth[0]); tsaRootsExtra: the roots
	// of the variants that have a root of their own
	tsaAuth       []*tsa.Authority
	tsaRootsExtra []*pki.Cert
	desc          ocispec.Descriptor
	envs          sync.Map
	mu            sync.Mutex

	observed, controls, controlsOK atomic.Int64 // cases observable through the all-log level; positive controls
	forgeBroken                    atomic.Value // string: a zoned envelope could not be built as intended
}

// chain returns the signing chain leaf <- [intermediate <-] root with the given validity windows (mid 0: no
// intermediate).
func (w *world) chain(lw, mid, cw int) *pki.Chain {
	w.mu.Lock()
	defer w.mu.Unlock()
	if c, ok := w.chains[[3]int{lw, mid, cw}]; ok {
		return c
	}
	at := func(wd window) (time.Time, time.Time) { return w.now.Add(wd.From), w.now.Add(wd.To) }
	lf, lt := at(windows[lw])
	cf, ct := at(windows[cw])
	o := pki.ChainOpts{Len: 2, Prefix: fmt.Sprintf("c06-%d-%d-%d", lw, mid, cw), CAIdx: 6,
		Leaf: &pki.Tmpl{Subject: pki.Name("c06 leaf"), NotBefore: lf, NotAfter: lt},
		CAs:  []*pki.Tmpl{{Subject: pki.Name(fmt.Sprintf("c06 root %d", cw)), NotBefore: cf, NotAfter: ct, PathLen: -1}}}
	if mw := midWindow(mid); mw != nil {
		mf, mt := at(*mw)
		o.Len = 3
		o.CAs = append([]*pki.Tmpl{{Subject: pki.Name(fmt.Sprintf("c06 intermediate %d", mid)), NotBefore: mf, NotAfter: mt, PathLen: -1}}, o.CAs...)
	}
	c := pki.NewChain(o)
	w.chains[[3]int{lw, mid, cw}] = c
	return c
}

func (w *world) envelope(c caseT) []byte {
	type k struct{ s, lw, mid, cw, st, ex, tk, f, z, via, tw int }
	tw := c.TSAWin
	if !tokenTakesTSAWindow(tokens[c.Token]) {
		tw = 0 // the same envelope
	}
	key := k{c.Scheme, c.LeafW, c.Mid, c.CAW, c.Sign, c.Expiry, c.Token, c.Format, c.Zone, c.RevVia * (1 + c.TSARev), tw}
	if b, ok := w.envs.Load(key); ok {
		return b.([]byte)
	}
	ch := w.chain(c.LeafW, c.Mid, c.CAW)
	sp := forge.Spec{Format: forge.Formats[c.Format], Chain: ch.X509(), Key: ch.Leaf().Key, Payload: forge.PayloadFor(w.desc),
		Scheme: []string{forge.SchemeX509, forge.SchemeSA}[c.Scheme], SigningTime: w.instant(signTimes[c.Sign].Off, signTimes[c.Sign].Year)}
	if e := expiries[c.Expiry]; e.Set {
		sp.Expiry = w.instant(e.Off, e.Year)
	}
	// the same instants written with another UTC offset, as a signer in that zone writes them (JWS: RFC 3339 text;
	// the forge lets a later attribute of the same name replace the value it wrote in UTC)
	zoned := map[string]string{}
	if c.Zone != 0 && c.Format == 0 {
		z := envZones[c.Zone]
		loc := time.FixedZone(z.Name, int(z.Off/time.Second))
		zoned[[]string{"io.cncf.notary.signingTime", "io.cncf.notary.authenticSigningTime"}[c.Scheme]] = sp.SigningTime.In(loc).Format(time.RFC3339)
		if !sp.Expiry.IsZero() {
			zoned["io.cncf.notary.expiry"] = sp.Expiry.In(loc).Format(time.RFC3339)
		}
		for _, name := range []string{"io.cncf.notary.signingTime", "io.cncf.notary.authenticSigningTime", "io.cncf.notary.expiry"} {
			if v, ok := zoned[name]; ok {
				sp.Ext = append(sp.Ext, forge.Attr{Key: name, Value: v})
			}
		}
	}
	if tk := tokens[c.Token]; tk.Present {
		sp.Timestamp = func(sig []byte) []byte {
			if tk.Garbage {
				return []byte{0x30, 0x03, 0x02, 0x01, 0x01}
			}
			if tk.CopyOfPrior {
				prior := w.envelope(caseT{Scheme: c.Scheme, LeafW: c.LeafW, Mid: c.Mid, CAW: c.CAW, Token: 1, Format: c.Format})
				if ref, err := refsig.Verify(forge.Formats[c.Format], prior); err == nil {
					return w.auth[0].Token(tsa.Opts{Message: ref.SigValue, GenTime: w.now.Add(tk.Gen), AccuracySeconds: tk.Acc})
				}
			}
			au := w.auth[tk.Authority]
			if tk.Authority == 0 {
				au = w.tsaAuth[tw] // the trusted TSA with the case's certificate windows
			}
			if c.RevVia == 1 && tk.Authority == 0 {
				au = w.crlAuth[tw][c.TSARev] // same trusted hierarchy question, but a certificate that names a CRL
			}
			return au.Token(tsa.Opts{Message: sig, GenTime: w.now.Add(tk.Gen), AccuracySeconds: tk.Acc, WrongImprint: tk.Wrong})
		}
	}
	b := forge.Build(sp)
	if len(zoned) > 0 {
		// the envelope must really carry the zoned texts (and each header once)
		var prot map[string]any
		pj, err := base64.RawURLEncoding.DecodeString(forge.SplitJWS(b).Protected)
		if err == nil {
			err = json.Unmarshal(pj, &prot)
		}
		for name, v := range zoned {
			if err != nil || prot[name] != v || strings.Count(string(pj), `"`+name+`":`) != 1 {
				w.forgeBroken.Store(fmt.Sprintf("envelope does not carry %s=%s (protected header %s, err %v)", name, v, pj, err))
			}
		}
	}
	w.envs.Store(key, b)
	return b
}

// crlHierarchy builds the TSA hierarchy whose certificates name a CRL, and serves that CRL on 127.0.0.1.
func (w *world) crlHierarchy() {
	var crlDER []byte
	w.crlSrv = httptest.NewServer(http.HandlerFunc(func(rw http.ResponseWriter, q *http.Request) {
		if q.URL.Path != "/tsa.crl" {
			http.NotFound(rw, q)
			return
		}
		rw.Header().Set("Content-Type", "application/pkix-crl")
		_, _ = rw.Write(crlDER)
	}))
	nb, na := w.now.Add(-30*day), w.now.Add(30*day)
	root := pki.Make(pki.Tmpl{Subject: pki.Name("c06 crl tsa root"), CA: true, PathLen: -1, NotBefore: nb, NotAfter: na}, pki.Key(pki.RSA2048, 220), nil)
	w.crlAuth = map[int][]*tsa.Authority{}
	var revoked []*big.Int
	for _, tw := range tsaWinsWithCRL() {
		// the leaf's window is the TSA window's; names and keys are the same for every window
		lf, lt := w.now.Add(tsaWins[tw].LeafFrom), w.now.Add(tsaWins[tw].LeafTo)
		for i, path := range []string{"/tsa.crl", "/tsa.crl", "/missing.crl"} {
			leaf := pki.Make(pki.Tmpl{Subject: pki.Name(fmt.Sprintf("c06 crl tsa %d", i)), NotBefore: lf, NotAfter: lt, KeyUsage: x509.KeyUsageDigitalSignature,
				EKU: []x509.ExtKeyUsage{x509.ExtKeyUsageTimeStamping}, EKUCritical: true, CRLURLs: []string{w.crlSrv.URL + path}}, pki.Key(pki.RSA2048, 221+i), root)
			w.crlAuth[tw] = append(w.crlAuth[tw], &tsa.Authority{Root: root, Leaf: leaf})
		}
		revoked = append(revoked, w.crlAuth[tw][1].Leaf.Cert.SerialNumber)
	}
	crlDER = pki.CRL(root, 1, w.now.Add(-2*day), w.now.Add(20*day), revoked, 0).Raw
}

// ---- reference clock model (DESIGN.md A.2) ----

type expect struct {
	ExpiryFails bool
	TSPasses    bool
	Why         string
	// Unjudged: the statement says neither that the validation passes nor that it fails (recorded only)
	Unjudged bool
}

func (w *world) model(c caseT) expect { return w.modelAt(c, 0) }

// modelAt evaluates the reference with the verification instant displaced by nowOff (clock seam).
func (w *world) modelAt(c caseT, nowOff time.Duration) expect {
	var e expect
	ex := expiries[c.Expiry]
	e.ExpiryFails = ex.Set && ex.Off <= nowOff
	wins := []window{windows[c.LeafW], windows[c.CAW]}
	if mw := midWindow(c.Mid); mw != nil {
		wins = append(wins, *mw)
	}
	inside := func(lo, hi time.Duration) bool {
		for _, wd := range wins {
			if lo < wd.From || hi > wd.To {
				return false
			}
		}
		return true
	}
	if c.Scheme == 1 {
		st := signTimes[c.Sign].Off
		e.TSPasses = inside(st, st)
		e.Why = "signing-authority: signing time inside every window"
		return e
	}
	anyExpired := false
	for _, wd := range wins {
		if wd.To < nowOff {
			anyExpired = true
		}
	}
	applies := c.TSAPol != 0 && (options[c.Option] != trustpolicy.OptionAfterCertExpiry || anyExpired)
	if !applies {
		e.TSPasses = inside(nowOff, nowOff)
		e.Why = "timestamping does not apply: chain valid at verification time"
		return e
	}
	tk := tokens[c.Token]
	acc := time.Duration(tk.Acc) * time.Second
	switch {
	case !tk.Present:
		e.Why = "timestamping applies: no countersignature"
	case tk.Garbage:
		e.Why = "timestamping applies: countersignature does not parse"
	case tk.Wrong:
		e.Why = "timestamping applies: countersignature over another message"
	case c.TSAPol == 2:
		e.Why = "timestamping applies: tsa store cannot be loaded"
	case !((c.TSAPol == 1 && tk.Authority != 1) || (c.TSAPol == 3 && tk.Authority == 1)):
		e.Why = "timestamping applies: TSA does not chain to the policy's tsa store"
	case tk.Authority == 2 || tk.Authority == 3:
		e.Why = "timestamping applies: TSA leaf is not a proper time-stamping certificate"
	case !inside(tk.Gen-acc, tk.Gen+acc):
		e.Why = "timestamping applies: time range of the countersignature not inside every certificate window"
	case c.TSARev != 0:
		e.Why = "timestamping applies: TSA revocation not OK"
	case !tsaValidAtGen(c):
		e.Unjudged = true
		e.Why = "timestamping applies: countersignature issued outside the TSA certificates' own validity (not judged)"
	default:
		e.TSPasses = true
		e.Why = "timestamping applies: valid countersignature inside every window"
	}
	return e
}

var ctx = context.Background()

func (w *world) run(r *hx.Run, c caseT) {
	if c.VZone != 0 {
		// the verifier's own time zone: process-global, so these cases run one at a time (main keeps them out of the
		// parallel part). time.Now() inside the verifier (through the clock seam too) and every time decoded from
		// Unix seconds then carry this location.
		// The zone is written INTO the Location time.Local points to (not by re-pointing the variable), so that code
		// holding that pointer - a time.Time made earlier, the clock seam's copy of time.Local - sees it as well.
		z := verifierZones[c.VZone]
		_ = time.Local.String() // forces the lazy initialisation of the machine's zone, which would overwrite ours
		saved := *time.Local
		*time.Local = *time.FixedZone(z.Name, int(z.Off/time.Second))
		defer func() { *time.Local = saved }()
		if _, off := time.Now().Zone(); off != int(z.Off/time.Second) {
			r.Infra("verifier zone %s not in effect (offset %d s)", z.Name, off)
			return
		}
	}
	caType := []string{"ca", "signingAuthority"}[c.Scheme]
	otherType := []string{"signingAuthority", "ca"}[c.Scheme]
	ch := w.chain(c.LeafW, c.Mid, c.CAW)
	ts := mocks.NewTrustStore().Put(caType, "s", ch.Root().Cert).Put(otherType, "o", w.spare.Cert)
	stores := c.storeList()
	switch c.TSAPol {
	case 1:
		ts.Put("tsa", "t", w.trustedTSARoots()...)
	case 2:
		ts.Errs["tsa:t"] = errors.New("mock: tsa store cannot be loaded")
	case 3:
		ts.Put("tsa", "t", w.auth[1].Root.Cert)
	}
	if c.TSAPol != 0 {
		// collision by construction: the store of the signing scheme's type (and the one of the other signing type,
		// when the list names it) ALSO holds every TSA root. Only tsa stores may anchor a countersignature, so this
		// changes nothing for a correct verifier - and it lets a verifier that takes TSA roots from the wrong stores
		// (or from all stores, or from the neighbour in the list) pass a token the policy's tsa store does not cover.
		for _, root := range w.allTSARoots() {
			ts.Put(caType, "s", root)
			ts.Put(otherType, "o", root)
		}
	}
	rvr, rverr := tsaRevAnswer(c.TSARev)
	tsaValidator := mocks.Fixed(rvr, rverr)
	sv := trustpolicy.SignatureVerification{VerificationLevel: "strict", VerifyTimestamp: options[c.Option], Override: map[trustpolicy.ValidationType]trustpolicy.ValidationAction{
		trustpolicy.TypeAuthenticTimestamp: trustpolicy.ActionLog, trustpolicy.TypeExpiry: trustpolicy.ActionLog, trustpolicy.TypeRevocation: trustpolicy.ActionSkip}}
	// the signature that is fine on every clock, used by the histories (same chain, scheme and format)
	pc := caseT{Scheme: c.Scheme, LeafW: c.LeafW, Mid: c.Mid, CAW: c.CAW, Token: 1, Format: c.Format}
	// otherObject creates ANOTHER verifier object whose configuration is the opposite of the judged one wherever the
	// two can differ without changing what the fine signature needs: it brings a lenient timestamping validator where
	// the judged verifier brings none (and none where the judged one brings its own), its policy statement has the
	// same name but lists a tsa store (holding every TSA root) exactly when the judged one does not, and it says
	// verifyTimestamp "always" where the judged one does not. It verifies the fine signature. Nothing of this may
	// reach the judged verifier: verifier objects share no state the statement knows of.
	otherObject := func() {
		ots := mocks.NewTrustStore().Put(caType, "s", ch.Root().Cert)
		ostores := []string{caType + ":s"}
		if c.TSAPol == 0 {
			ostores = append(ostores, "tsa:t")
			ots.Put("tsa", "t", w.allTSARoots()...)
		}
		oopt := trustpolicy.OptionAlways
		if options[c.Option] == trustpolicy.OptionAlways {
			oopt = ""
		}
		osv := trustpolicy.SignatureVerification{VerificationLevel: "strict", VerifyTimestamp: oopt, Override: map[trustpolicy.ValidationType]trustpolicy.ValidationAction{
			trustpolicy.TypeAuthenticTimestamp: trustpolicy.ActionLog, trustpolicy.TypeExpiry: trustpolicy.ActionLog, trustpolicy.TypeRevocation: trustpolicy.ActionSkip}}
		oo := verifier.VerifierOptions{OCITrustPolicy: vt.OCIDoc(osv, ostores, []string{"*"}), RevocationCodeSigningValidator: mocks.AllOK()}
		if c.RevVia == 1 {
			oo.RevocationTimestampingValidator = mocks.AllOK()
		}
		ov, err := verifier.NewVerifierWithOptions(ots, oo)
		if err != nil {
			r.Infra("other verifier: %v", err)
			return
		}
		r.Eval(1)
		_, _ = ov.Verify(ctx, w.desc, w.envelope(pc), notation.VerifierVerifyOptions{ArtifactReference: "reg.io/r@" + w.desc.Digest.String(), SignatureMediaType: forge.Formats[c.Format]})
	}
	if c.Prior == 2 {
		otherObject()
	}
	mkOpts := func(sv trustpolicy.SignatureVerification, tv *mocks.Validator) verifier.VerifierOptions {
		o := verifier.VerifierOptions{OCITrustPolicy: vt.OCIDoc(sv, stores, []string{"*"}), RevocationCodeSigningValidator: mocks.AllOK()}
		if c.RevVia == 0 {
			o.RevocationTimestampingValidator = tv
		}
		return o
	}
	v, err := verifier.NewVerifierWithOptions(ts, mkOpts(sv, tsaValidator))
	if err != nil {
		r.Infra("verifier: %v", err)
		return
	}
	if c.Prior == 1 {
		r.Eval(1)
		_, _ = v.Verify(ctx, w.desc, w.envelope(pc), notation.VerifierVerifyOptions{ArtifactReference: "reg.io/r@" + w.desc.Digest.String(), SignatureMediaType: forge.Formats[c.Format]})
		tsaValidator.Calls = nil
	}
	if c.Prior == 3 {
		otherObject()
	}
	r.Eval(1)
	outcome, verr := v.Verify(ctx, w.desc, w.envelope(c), notation.VerifierVerifyOptions{ArtifactReference: "reg.io/r@" + w.desc.Digest.String(), SignatureMediaType: forge.Formats[c.Format]})
	bad := func(key, what string) {
		key += priorKeys[c.Prior]
		if c.VZone != 0 {
			key += ":verifier-in-another-time-zone"
		}
		r.Violation(key, what+" | "+c.String(), c)
	}
	want := w.model(c)
	// The statement is one-directional: an expired signature FAILS expiry; the authentic-timestamp validation passes
	// ONLY IF the stated conditions hold. Those two directions are judged. The converses (an unexpired signature passes
	// expiry, a chain that was valid passes the timestamp validation) are positive controls: counted, recorded when
	// they do not hold, and an all-controls-failed run is an infrastructure error, never a violation. How many
	// entries of a type the outcome lists is not fixed by the statement either.
	if outcome == nil && verr == nil {
		bad("nil-outcome", "Verify returned neither an outcome nor an error")
		return
	}
	if verr != nil {
		// every action is log: an error here means the two validations cannot be observed through this level
		r.Outcome("recorded:all-log-level-verification-failed(not observable)")
		return
	}
	w.observed.Add(1)
	expFailed, tsListed, tsPassed := readResults(outcome)
	if want.ExpiryFails && !expFailed {
		bad("expiry/passed-although-expired:"+expiries[c.Expiry].Name, "expiry validation passed (or no failing expiry result is reported)")
	}
	if !want.ExpiryFails {
		w.controls.Add(1)
		if expFailed {
			r.Outcome("recorded:control/expiry-failed-although-not-expired:" + expiries[c.Expiry].Name)
		} else {
			w.controlsOK.Add(1)
		}
	}
	gotPass := tsListed && tsPassed
	if want.Unjudged {
		r.Outcome(fmt.Sprintf("recorded:token-issued-outside-the-tsa-certificates-validity/timestamp-passed=%v", gotPass))
	} else if gotPass && !want.TSPasses {
		bad("timestamp/passed:"+slug(want.Why), "authentic-timestamp validation passed; model: "+want.Why)
	}
	if want.TSPasses {
		w.controls.Add(1)
		if !gotPass {
			r.Outcome("recorded:control/timestamp-failed-although-model-passes:" + slug(want.Why))
		} else {
			w.controlsOK.Add(1)
		}
	}
	// the TSA revocation validator is consulted only for a countersignature that got that far, and with the TSA chain
	for _, cl := range tsaValidator.Calls {
		for _, cert := range cl.Chain {
			if string(cert.Raw) == string(ch.Leaf().Cert.Raw) {
				bad("timestamp/tsa-validator-received-signing-chain", "the timestamping revocation validator was handed the code-signing chain")
			}
		}
	}
	cls := "ts-fails"
	if want.TSPasses {
		cls = "ts-passes"
	}
	r.Outcome(fmt.Sprintf("%s | %s | expiry-fails=%v", cls, want.Why, want.ExpiryFails))
	r.Nontrivial(fmt.Sprintf("%+v", c))
	// strict level: the overall verdict follows the two validations
	if c.TSARev == 0 && c.Format == 0 && !want.Unjudged {
		sv2 := trustpolicy.SignatureVerification{VerificationLevel: "strict", VerifyTimestamp: options[c.Option], Override: map[trustpolicy.ValidationType]trustpolicy.ValidationAction{trustpolicy.TypeRevocation: trustpolicy.ActionSkip}}
		v2, err := verifier.NewVerifierWithOptions(ts, mkOpts(sv2, mocks.Fixed(rvr, rverr)))
		if err == nil {
			r.Eval(1)
			_, e2 := v2.Verify(ctx, w.desc, w.envelope(c), notation.VerifierVerifyOptions{ArtifactReference: "reg.io/r@" + w.desc.Digest.String(), SignatureMediaType: forge.Formats[c.Format]})
			wantOK := want.TSPasses && !want.ExpiryFails
			if e2 == nil && !wantOK {
				bad(fmt.Sprintf("strict/verdict-accepted=%v-model-accepted=%v", e2 == nil, wantOK), fmt.Sprintf("strict level: err=%v; model: %s, expiry fails=%v", e2, want.Why, want.ExpiryFails))
			}
			if e2 != nil && wantOK {
				r.Outcome("recorded:control/strict-level-rejected-although-model-accepts")
			}
		}
	}
}

// ---- clock-advance histories (clock seam) ----
//
// Package verifier is compiled with its "time" import rewritten to engine/timeshim, so the harness decides
// what time.Now() returns inside the verifier. One verifier instance verifies the same signature at two
// instants (all ordered pairs of offsets; every offset keeps each instant of the case >= 1 h away from the
// displaced "now"): each verification must follow the clock model for ITS instant - nothing about time may
// be remembered by the instance.

var clockOffsets = []time.Duration{0, 2 * day, 11 * day, -2 * day, 26 * time.Hour}

type clockCase struct {
	Case caseT           `json:"case"`
	Offs []time.Duration `json:"offsets"`
}

func (w *world) clockFamily(r *hx.Run) {
	timeshim.SetOffset(0)
	before := timeshim.Calls()
	w.run(r, caseT{})
	if timeshim.Calls() == before {
		r.Capped("clock seam not active (overlay build failed or package verifier no longer reads package time): clock-advance histories not run")
		return
	}
	var cases []caseT
	for sc := 0; sc < 2; sc++ {
		for tp := 0; tp < 2; tp++ {
			for opt := 0; opt < 3; opt++ {
				for lw := 0; lw < firstNestedWindow; lw++ {
					for ex := 0; ex < firstFarExpiry; ex++ {
						for _, tk := range []int{0, 1, 3} {
							for f := 0; f < 2; f++ {
								if sc == 1 && (tp != 0 || opt != 0 || tk != 0) {
									continue
								}
								if !r.Thorough() && (opt == 1 || (f == 1 && lw != 0)) {
									continue
								}
								cases = append(cases, caseT{Scheme: sc, TSAPol: tp, Option: opt, LeafW: lw, Expiry: ex, Token: tk, Format: f})
							}
						}
					}
				}
			}
		}
	}
	// TSA certificates that expire (or have expired) while the clock moves x revocation answer of the TSA
	for _, tw := range []int{1, 6} {
		for rev := 0; rev < 2; rev++ {
			for _, opt := range []int{0, 2} {
				for lw := 0; lw < 2; lw++ {
					for f := 0; f < 2; f++ {
						if !r.Thorough() && f == 1 && (lw != 0 || opt != 0) {
							continue
						}
						cases = append(cases, caseT{TSAPol: 1, Option: opt, LeafW: lw, Token: 1, TSARev: rev, Format: f, TSAWin: tw})
					}
				}
			}
		}
	}
	n := 0
	for _, c := range cases {
		for _, o1 := range clockOffsets {
			for _, o2 := range clockOffsets {
				if o1 == o2 {
					continue
				}
				n++
				w.clockPair(r, c, []time.Duration{o1, o2})
			}
		}
	}
	timeshim.SetOffset(0)
	r.Extra["clock_histories"] = n
	r.Extra["clock_offsets"] = fmt.Sprint(clockOffsets)
	w.clockBoundaries(r)
}

// clockBoundaries freezes the clock exactly around the expiry instant and around the edges of the leaf's
// validity window. "A signature whose expiry time is not after the moment of verification fails": at the expiry
// instant and one second later it fails, one second earlier it passes. Certificate windows are inclusive; only
// one second inside / outside is judged.
func (w *world) clockBoundaries(r *hx.Run) {
	defer timeshim.Unfreeze()
	n := 0
	for f := 0; f < 2; f++ {
		for sc := 0; sc < 2; sc++ {
			c := caseT{Scheme: sc, Expiry: 1, Format: f} // expires in 1 d, leaf and CA valid now
			caType := []string{"ca", "signingAuthority"}[sc]
			ch := w.chain(c.LeafW, c.Mid, c.CAW)
			ts := mocks.NewTrustStore().Put(caType, "s", ch.Root().Cert)
			sv := trustpolicy.SignatureVerification{VerificationLevel: "strict", Override: map[trustpolicy.ValidationType]trustpolicy.ValidationAction{
				trustpolicy.TypeAuthenticTimestamp: trustpolicy.ActionLog, trustpolicy.TypeExpiry: trustpolicy.ActionLog, trustpolicy.TypeRevocation: trustpolicy.ActionSkip}}
			v, err := verifier.NewVerifierWithOptions(ts, verifier.VerifierOptions{OCITrustPolicy: vt.OCIDoc(sv, []string{caType + ":s"}, []string{"*"}), RevocationCodeSigningValidator: mocks.AllOK(), RevocationTimestampingValidator: mocks.AllOK()})
			if err != nil {
				r.Infra("verifier: %v", err)
				return
			}
			env := w.envelope(c)
			expiry := w.now.Add(expiries[c.Expiry].Off)
			leaf := ch.Leaf().Cert
			type probe struct {
				name             string
				at               time.Time
				expFails, judgeE bool
				tsPasses, judgeT bool
			}
			var probes []probe
			for _, d := range []time.Duration{-time.Second, 0, time.Second} {
				probes = append(probes, probe{"expiry" + signed(d), expiry.Add(d), d >= 0, true, true, sc == 0})
			}
			if sc == 0 { // notary.x509 without tsa store: the chain must be valid at the verification instant
				for _, d := range []time.Duration{-time.Second, time.Second} {
					probes = append(probes, probe{"leaf.NotAfter" + signed(d), leaf.NotAfter.Add(d), true, true, d < 0, true})
					probes = append(probes, probe{"leaf.NotBefore" + signed(d), leaf.NotBefore.Add(d), false, true, d > 0, true})
				}
			}
			for _, p := range probes {
				timeshim.Freeze(p.at)
				n++
				r.Eval(1)
				outcome, verr := v.Verify(ctx, w.desc, env, notation.VerifierVerifyOptions{ArtifactReference: "reg.io/r@" + w.desc.Digest.String(), SignatureMediaType: forge.Formats[f]})
				timeshim.Unfreeze()
				er, tr := vt.ResultOf(outcome, trustpolicy.TypeExpiry), vt.ResultOf(outcome, trustpolicy.TypeAuthenticTimestamp)
				cc := clockCase{c, nil}
				where := fmt.Sprintf("clock frozen at %s (%s) | %s", p.at.Format(time.RFC3339), p.name, c.String())
				_, _ = er, tr
				if outcome == nil && verr == nil {
					r.Violation("clock/nil-outcome:boundary", where, cc)
					continue
				}
				if verr != nil {
					r.Outcome("recorded:all-log-level-verification-failed(not observable)")
					continue
				}
				w.observed.Add(1)
				expFailed, tsListed, tsPassed := readResults(outcome)
				pname := p.name[:strings.IndexAny(p.name, "+-")]
				// judged directions only: expired => fails; passes => chain valid at the verification instant
				if p.judgeE && p.expFails && !expFailed {
					r.Violation(fmt.Sprintf("clock/boundary-expiry-fails=%v-want=%v:%s", expFailed, p.expFails, pname), where, cc)
				}
				if p.judgeE && !p.expFails {
					w.controls.Add(1)
					if expFailed {
						r.Outcome("recorded:control/boundary-expiry-failed-one-second-before-expiry")
					} else {
						w.controlsOK.Add(1)
					}
				}
				if got := tsListed && tsPassed; p.judgeT && got && !p.tsPasses {
					r.Violation(fmt.Sprintf("clock/boundary-timestamp-passes=%v-want=%v:%s", got, p.tsPasses, pname), where, cc)
				} else if p.judgeT && p.tsPasses {
					w.controls.Add(1)
					if !got {
						r.Outcome("recorded:control/boundary-timestamp-failed-inside-validity")
					} else {
						w.controlsOK.Add(1)
					}
				}
				r.Outcome("clock-boundary: " + p.name[:strings.IndexAny(p.name, "+-")])
				r.Nontrivial(fmt.Sprintf("clockb|%d|%d|%s", f, sc, p.name))
			}
		}
	}
	r.Extra["clock_boundary_verifications"] = n
}

func signed(d time.Duration) string {
	if d < 0 {
		return d.String()
	}
	return "+" + d.String()
}

func (w *world) clockPair(r *hx.Run, c caseT, offs []time.Duration) {
	caType := []string{"ca", "signingAuthority"}[c.Scheme]
	ch := w.chain(c.LeafW, c.Mid, c.CAW)
	ts := mocks.NewTrustStore().Put(caType, "s", ch.Root().Cert)
	stores := []string{caType + ":s"}
	if c.TSAPol == 1 {
		stores = append(stores, "tsa:t")
		ts.Put("tsa", "t", w.auth[0].Root.Cert)
		if root := w.tsaAuth[c.TSAWin].Root; root != w.auth[0].Root {
			ts.Put("tsa", "t", root.Cert)
		}
	}
	sv := trustpolicy.SignatureVerification{VerificationLevel: "strict", VerifyTimestamp: options[c.Option], Override: map[trustpolicy.ValidationType]trustpolicy.ValidationAction{
		trustpolicy.TypeAuthenticTimestamp: trustpolicy.ActionLog, trustpolicy.TypeExpiry: trustpolicy.ActionLog, trustpolicy.TypeRevocation: trustpolicy.ActionSkip}}
	// the TSA revocation answer of the case (the histories of the first family all have tsa-rev-ok)
	tsaValidator := mocks.AllOK()
	if c.TSARev != 0 {
		rvr, rverr := tsaRevAnswer(c.TSARev)
		tsaValidator = mocks.Fixed(rvr, rverr)
	}
	v, err := verifier.NewVerifierWithOptions(ts, verifier.VerifierOptions{OCITrustPolicy: vt.OCIDoc(sv, stores, []string{"*"}), RevocationCodeSigningValidator: mocks.AllOK(), RevocationTimestampingValidator: tsaValidator})
	if err != nil {
		r.Infra("verifier: %v", err)
		return
	}
	env := w.envelope(c)
	for step, off := range offs {
		timeshim.SetOffset(off)
		r.Eval(1)
		outcome, verr := v.Verify(ctx, w.desc, env, notation.VerifierVerifyOptions{ArtifactReference: "reg.io/r@" + w.desc.Digest.String(), SignatureMediaType: forge.Formats[c.Format]})
		timeshim.SetOffset(0)
		want := w.modelAt(c, off)
		where := fmt.Sprintf("step %d of clock history %v on one verifier", step+1, offs)
		bad := func(key, what string) {
			r.Violation("clock/"+key, what+" | "+where+" | "+c.String(), clockCase{c, offs})
		}
		er, tr := vt.ResultOf(outcome, trustpolicy.TypeExpiry), vt.ResultOf(outcome, trustpolicy.TypeAuthenticTimestamp)
		_, _ = er, tr
		if outcome == nil && verr == nil {
			bad("nil-outcome", "neither outcome nor error")
			return
		}
		if verr != nil {
			r.Outcome("recorded:all-log-level-verification-failed(not observable)")
			return
		}
		w.observed.Add(1)
		expFailed, tsListed, tsPassed := readResults(outcome)
		if want.ExpiryFails && !expFailed {
			bad(fmt.Sprintf("expiry-fails=%v-model=%v:step%d", expFailed, want.ExpiryFails, step+1), fmt.Sprintf("verification instant now%+v: no failing expiry result", off))
		}
		if !want.ExpiryFails {
			w.controls.Add(1)
			if expFailed {
				r.Outcome(fmt.Sprintf("recorded:control/clock-expiry-failed-although-not-expired:step%d", step+1))
			} else {
				w.controlsOK.Add(1)
			}
		}
		got := tsListed && tsPassed
		if got && !want.TSPasses && !want.Unjudged {
			bad(fmt.Sprintf("timestamp-passes=%v-model=%v:step%d", got, want.TSPasses, step+1), fmt.Sprintf("verification instant now%+v: authentic-timestamp passed; model: %s", off, want.Why))
		}
		if want.TSPasses {
			w.controls.Add(1)
			if !got {
				r.Outcome(fmt.Sprintf("recorded:control/clock-timestamp-failed-although-model-passes:step%d", step+1))
			} else {
				w.controlsOK.Add(1)
			}
		}
		r.Outcome(fmt.Sprintf("clock: step%d expiry-fails=%v ts-passes=%v", step+1, want.ExpiryFails, want.TSPasses))
		r.Nontrivial(fmt.Sprintf("clock|%+v|%v|%d", c, offs, step))
	}
}

// readResults: expiry failed = some expiry entry carries an error; timestamp listed / passed = at least one
// authentic-timestamp entry is reported / none of them carries an error.
func readResults(o *notation.VerificationOutcome) (expFailed, tsListed, tsPassed bool) {
	for _, x := range vt.ResultOf(o, trustpolicy.TypeExpiry) {
		if x.Error != nil {
			expFailed = true
		}
	}
	tr := vt.ResultOf(o, trustpolicy.TypeAuthenticTimestamp)
	tsListed, tsPassed = len(tr) > 0, true
	for _, x := range tr {
		if x.Error != nil {
			tsPassed = false
		}
	}
	return
}

func slug(s string) string {
	out := []rune{}
	for _, r := range s {
		switch {
		case r >= 'a' && r <= 'z', r >= '0' && r <= '9', r == '-':
			out = append(out, r)
		case r >= 'A' && r <= 'Z':
			out = append(out, r+32)
		default:
			if len(out) > 0 && out[len(out)-1] != '-' {
				out = append(out, '-')
			}
		}
	}
	return string(out)
}

func main() {
	r := hx.New("C06")
	r.Rule = "time-line product: scheme x tsa store in policy x verifyTimestamp x (leaf, CA) validity windows x signing time x expiry x countersignature state x TSA revocation answer x format; quick = every case with at most 5 deviations from the default case, thorough = the full product (minus envelopes core-go cannot parse: expiry not after signing time); crossed with the secondary dimensions the model must not depend on - order of the trustStores list (tsa store last / first / in the middle, a store of the other signing type around it) x UTC offset the JWS envelope's times are written with x an intermediate certificate with its own window x signing times two hours outside a window edge x validity windows strictly nested inside valid-now (both edges differ) x expiry / signing instants centuries ago (before the Unix epoch, before 1678) - up to 3 (thorough 5) deviations in total when one of them deviates; every case with <= 2 deviations again with the verifier's local time zone (time.Local) set to +05:45 and -08:00, and again with ANOTHER verifier object of the opposite configuration (timestamping validator given / not given, tsa store in an equally named statement, verifyTimestamp) created and used before the judged verifier is created / between its creation and the judged call (one at a time); the judged verifier WITHOUT a timestamping validator (built-in check against a CRL served on 127.0.0.1: not listed / revoked / not fetchable) x verifyTimestamp x leaf window x format x all four histories; the TSA CERTIFICATE WINDOW dimension (tsawin.go: certificates of the trusted TSA valid now / leaf expired 1 d ago / root expired 1 d ago / both expired 2 h ago / leaf valid only from 6 d to 4 d ago / leaf valid since 3 d ago / leaf expires in 1 d; same leaf key and subject, same root where the root's window is kept) as a full product with TSA revocation answer x verifyTimestamp x signing leaf window (valid now, expired) x the five well-formed trusted tokens x format x history on the same verifier, plus window x {ok, revoked} x format crossed with one deviation of every other dimension, x the two other verifier zones, x the two other-verifier-object histories, x the built-in CRL check (windows that keep the root), and in the clock-advance histories (TSA leaf that expires between / before the two instants x {ok, revoked}); a TSA whose revocation answer is not OK never lets the validation pass whatever the age of its certificates, a token issued outside the TSA certificates' own validity is recorded and not judged; clock-advance histories and frozen-clock boundary reads through the clock seam; one real verifier.Verify per case under an all-log level (+ one under strict); non-trivial = every distinct case (each has its own expected pair of results)"
	r.Assumptions = []string{"the verification instant is the real clock; every generated instant is >= 1 h away from it, so each case has one outcome whenever it runs", "countersignatures are forged by lib/tsa (offline RFC 3161 authority); tokens from public TSAs are outside the bound", "reference clock model: DESIGN.md appendix A.2 (harness/c06 model())", "the built-in revocation check reaches the harness's CRL server on 127.0.0.1 (no other network)", "COSE envelopes carry Unix seconds, so the envelope-zone dimension exists for JWS only; certificate and token times are DER (always UTC)", "TSA certificate windows: the statement's 'issued by an unrevoked TSA chaining to the policy's tsa stores' is read as independent of the age of the TSA certificates at verification time; whether a token whose genTime lies outside the TSA certificates' own validity must be refused is not stated and not judged; the harness's CRL keeps listing a revoked TSA certificate after its expiry"}
	now := time.Now().Truncate(time.Second)
	w := &world{now: now, chains: map[[3]int]*pki.Chain{}}
	w.spare = pki.NewChain(pki.ChainOpts{Len: 2, Prefix: "c06-unrelated", CAIdx: 7}).Root()
	w.crlHierarchy()
	defer w.crlSrv.Close()
	w.desc = ocispec.Descriptor{MediaType: "application/vnd.oci.image.manifest.v1+json", Digest: digest.FromString("c06"), Size: 3}
	nb, na := now.Add(-30*day), now.Add(30*day)
	w.auth = []*tsa.Authority{tsa.New("trusted", 0, tsa.LeafProper, nb, na), tsa.New("untrusted", 1, tsa.LeafProper, nb, na), tsa.New("noncritical", 2, tsa.LeafEKUNotCritical, nb, na), tsa.New("codesigning", 3, tsa.LeafCodeSigning, nb, na)}
	w.tsaHierarchies()

	if r.Replay != "" {
		var cc clockCase
		if err := r.LoadReplay(&cc); err == nil && len(cc.Offs) > 0 {
			w.clockPair(r, cc.Case, cc.Offs)
			r.Finish()
		}
		var c caseT
		if err := r.LoadReplay(&c); err != nil {
			r.Infra("replay: %v", err)
		} else {
			w.run(r, c)
		}
		r.Finish()
	}
	// dimension 9 (format) is free; dimensions 10.. and the edge signing times are SECONDARY: a case in which one of
	// them deviates is enumerated up to maxDevSec deviations in total
	sizes := []int{2, len(tsaPolicies), len(options), len(windows), len(windows), len(signTimes), len(expiries), len(tokens), len(tsaRevs), 2, len(layouts), len(envZones), len(mids)}
	const dimFormat = 9
	maxDev, maxDevSec := 5, 3
	if r.Thorough() {
		maxDev, maxDevSec = len(sizes), 5
	}
	var cases, zoneCases, objCases []caseT
	var rec func(i int, cur []int, dev int, sec bool)
	rec = func(i int, cur []int, dev int, sec bool) {
		if i == len(sizes) {
			c := caseT{Scheme: cur[0], TSAPol: cur[1], Option: cur[2], LeafW: cur[3], CAW: cur[4], Sign: cur[5], Expiry: cur[6], Token: cur[7], TSARev: cur[8], Format: cur[9], Layout: cur[10], Zone: cur[11], Mid: cur[12]}
			if e := expiries[c.Expiry]; e.Set && e.Off <= signTimes[c.Sign].Off {
				return // expiry not after the signing time: refused as malformed before any clock is consulted
			}
			if c.Zone != 0 && c.Format != 0 {
				return // COSE carries Unix seconds: the same envelope as zone 0
			}
			for l := 0; l < c.Layout; l++ {
				o := c
				o.Layout = l
				if fmt.Sprint(o.storeList()) == fmt.Sprint(c.storeList()) {
					return // without a tsa store this layout is the same list as an earlier one
				}
			}
			cases = append(cases, c)
			// the same case after an unproblematic signature on the same verifier instance (cases with <= 3 deviations)
			if dev >= 1 && dev <= 3 {
				c.Prior = 1
				cases = append(cases, c)
				c.Prior = 0
			}
			// the same case with the verifier living in another time zone (cases with <= 2 deviations; run one at a time)
			if dev <= 2 {
				for vz := 1; vz < len(verifierZones); vz++ {
					c.VZone = vz
					zoneCases = append(zoneCases, c)
				}
				c.VZone = 0
				// the same case with another, differently configured verifier object created before / in between
				// (whatever such an object might leave behind is process-global: run one at a time)
				for _, p := range []int{2, 3} {
					c.Prior = p
					objCases = append(objCases, c)
				}
			}
			return
		}
		for v := 0; v < sizes[i]; v++ {
			d, s := dev, sec
			if v != 0 && i != dimFormat {
				d++
				if i > dimFormat || (i == 5 && v >= firstEdgeSign) || (i == 6 && v >= firstFarExpiry) || ((i == 3 || i == 4) && v >= firstNestedWindow) {
					s = true
				}
			}
			if d > maxDev || (s && d > maxDevSec) {
				continue
			}
			rec(i+1, append(cur, v), d, s)
		}
	}
	rec(0, nil, 0, false)
	// TSA certificate windows: the full product with the dimensions the clause "issued by an unrevoked TSA" speaks of
	// (tsawin.go), minus what the deviation-bounded product above already holds
	{
		have := map[caseT]bool{}
		for _, c := range cases {
			have[c] = true
		}
		n := 0
		for _, c := range append(tsaWindowFamily(), tsaWindowCrossFamily()...) {
			if e := expiries[c.Expiry]; e.Set && e.Off <= signTimes[c.Sign].Off {
				continue // malformed envelope, as above
			}
			if !have[c] {
				have[c] = true
				cases = append(cases, c)
				n++
			}
		}
		r.Extra["tsa_cert_window_family_cases(added to cases)"] = n
		objCases = append(objCases, tsaWindowObjectFamily()...)
		for tw := 1; tw < len(tsaWins); tw++ {
			for rev := 0; rev < 2; rev++ {
				for vz := 1; vz < len(verifierZones); vz++ {
					zoneCases = append(zoneCases, caseT{TSAPol: 1, Token: 1, TSARev: rev, TSAWin: tw, VZone: vz})
				}
			}
		}
	}
	// the judged verifier without a timestamping validator of its own (built-in check against the CRL the harness
	// serves): answer of the CRL x verifyTimestamp x leaf window x format x history (none, same object, other object
	// before / in between). One at a time, after the parallel part.
	for _, tw := range tsaWinsWithCRL() {
		for rev := 0; rev < 3; rev++ {
			for opt := range options {
				for lw := 0; lw < 2; lw++ {
					for f := 0; f < 2; f++ {
						for p := range priors {
							if tw != 0 && !r.Thorough() && (f == 1 || p >= 2) && opt != 0 {
								continue
							}
							objCases = append(objCases, caseT{TSAPol: 1, Option: opt, LeafW: lw, Token: 1, TSARev: rev, Format: f, RevVia: 1, Prior: p, TSAWin: tw})
						}
					}
				}
			}
		}
	}
	// pre-build the chains sequentially (deterministic serial numbers do not matter, but avoid lock contention)
	for lw := range windows {
		for mid := range mids {
			for cw := range windows {
				w.chain(lw, mid, cw)
			}
		}
	}
	r.Extra["cases"] = len(cases)
	r.Extra["max_deviations"] = maxDev
	r.Extra["max_deviations_when_a_secondary_dimension_deviates"] = maxDevSec
	r.Extra["verifier_zone_cases"] = len(zoneCases)
	r.Extra["other_verifier_object_and_built_in_validator_cases"] = len(objCases)
	r.Extra["store_list_layouts"] = fmt.Sprint(layouts)
	r.Extra["envelope_zones"] = fmt.Sprint(envZones)
	r.Extra["verifier_zones"] = fmt.Sprint(verifierZones)
	r.Extra["intermediate"] = fmt.Sprint(mids)
	r.Extra["tsa_cert_windows"] = tsaWinNames()
	// positive control: the default case and the fully valid countersignature case must pass
	ctrl := []caseT{{}, {TSAPol: 1, Token: 1}, {TSAPol: 1, Token: 1, LeafW: 1}, {Scheme: 1}}
	for _, c := range ctrl {
		if !w.model(c).TSPasses {
			r.Infra("model rejects a positive control: %s", c)
		}
	}
	sort.SliceStable(cases, func(i, j int) bool { return false })
	r.Parallel(len(cases), func(i int) {
		w.run(r, cases[i])
		if i%2503 == 0 {
			r.Sample(map[string]any{"case": cases[i].String(), "model": w.model(cases[i])})
		}
	}, nil)
	// sequential: the verifier's time zone (time.Local) is process-global
	for _, c := range zoneCases {
		w.run(r, c)
	}
	// sequential: histories over two verifier objects
	for _, c := range objCases {
		w.run(r, c)
	}
	if s, _ := w.forgeBroken.Load().(string); s != "" {
		r.Infra("zoned envelope: %s", s)
	}
	// sequential: the displaced clock is process-global
	w.clockFamily(r)
	r.Extra["observable_through_all_log_level"] = w.observed.Load()
	r.Extra["positive_controls"] = w.controls.Load()
	r.Extra["positive_controls_passed"] = w.controlsOK.Load()
	if w.observed.Load() == 0 || (w.controls.Load() > 0 && w.controlsOK.Load() == 0) {
		r.Infra("vacuous run: %d cases observable, %d of %d positive controls (unexpired passes expiry, valid chain passes the timestamp validation) held", w.observed.Load(), w.controlsOK.Load(), w.controls.Load())
	}
	r.Finish()
}
