// TSA certificate validity windows (a secondary dimension and a family of its own).
//
// "issued by an unrevoked TSA chaining to the policy's tsa stores" is said of every countersignature, whatever the
// age of the TSA's own certificates at the moment of verification. The alphabet below places the validity windows
// of the TSA leaf and of the TSA root before / around / after the verification instant and around the
// countersignature's genTime; it is crossed with the revocation answer, verifyTimestamp, the signing leaf's
// window, the token's time, the format and the histories.
//
// Reference: the model never lets the authentic-timestamp validation pass for a TSA whose revocation answer is
// not OK - independent of the TSA window. Whether a token issued OUTSIDE the TSA certificate's own validity must be
// refused is not said by the statement: such cases are not judged in either direction (recorded only).
package main

import (
	"crypto/x509"
	"errors"
	"fmt"
	"time"

	"github.com/notaryproject/notation-core-go/revocation/result"
	"github.com/notaryproject/notation-go/zzverif/lib/pki"
	"github.com/notaryproject/notation-go/zzverif/lib/tsa"
)

type tsaWindow struct {
	Name             string
	LeafFrom, LeafTo time.Duration // offsets from now
	RootFrom, RootTo time.Duration
}

// tsaWins[0] is the conventional TSA (w.auth[0]). Collisions by construction: every variant leaf has the subject and
// the key of w.auth[0].Leaf; variants that keep the root's window are issued by the very same root certificate, so
// only validity and serial number tell them apart. Variants with another root window have a root of their own
// (another key and name: two roots of one name and key in one store would let chain building pick either).
var tsaWins = []tsaWindow{
	{"tsa-certs-valid-now", -30 * day, 30 * day, -30 * day, 30 * day},
	{"tsa-leaf-expired-1d-ago", -30 * day, -1 * day, -30 * day, 30 * day},
	{"tsa-root-expired-1d-ago", -30 * day, 30 * day, -30 * day, -1 * day},
	{"tsa-leaf-and-root-expired-2h-ago", -30 * day, -2 * time.Hour, -30 * day, -2 * time.Hour},
	{"tsa-leaf-valid-from-6d-ago-to-4d-ago", -6 * day, -4 * day, -30 * day, 30 * day},
	{"tsa-leaf-starts-3d-ago", -3 * day, 30 * day, -30 * day, 30 * day},
	{"tsa-leaf-expires-in-1d", -30 * day, 1 * day, -30 * day, 30 * day},
}

func (t tsaWindow) defaultRoot() bool {
	return t.RootFrom == tsaWins[0].RootFrom && t.RootTo == tsaWins[0].RootTo
}

// tokenTakesTSAWindow: the TSA window is a property of the trusted authority's certificates; tokens of the other
// authorities (and envelopes without a parsable token) do not change with it.
func tokenTakesTSAWindow(tk tokenKind) bool {
	return tk.Present && !tk.Garbage && !tk.CopyOfPrior && tk.Authority == 0
}

// tsaValidAtGen: the TSA certificates of the case are valid at the token's genTime.
func tsaValidAtGen(c caseT) bool {
	tk := tokens[c.Token]
	if c.TSAWin == 0 || !tokenTakesTSAWindow(tk) {
		return true
	}
	t := tsaWins[c.TSAWin]
	if tk.Gen < t.LeafFrom || tk.Gen > t.LeafTo {
		return false
	}
	if c.RevVia == 1 { // the CRL hierarchy has one root, valid now
		return true
	}
	return tk.Gen >= t.RootFrom && tk.Gen <= t.RootTo
}

// tsaHierarchies builds w.tsaAuth (one authority per TSA window; [0] is w.auth[0]).
func (w *world) tsaHierarchies() {
	base := w.auth[0]
	w.tsaAuth = []*tsa.Authority{base}
	for i, t := range tsaWins {
		if i == 0 {
			continue
		}
		root := base.Root
		if !t.defaultRoot() {
			root = pki.Make(pki.Tmpl{Subject: pki.Name("trusted tsa root " + t.Name), CA: true, PathLen: -1, NotBefore: w.now.Add(t.RootFrom), NotAfter: w.now.Add(t.RootTo)}, pki.Key(pki.RSA2048, 230+i), nil)
			w.tsaRootsExtra = append(w.tsaRootsExtra, root)
		}
		leaf := pki.Make(pki.Tmpl{Subject: base.Leaf.Cert.Subject, NotBefore: w.now.Add(t.LeafFrom), NotAfter: w.now.Add(t.LeafTo), KeyUsage: x509.KeyUsageDigitalSignature,
			EKU: []x509.ExtKeyUsage{x509.ExtKeyUsageTimeStamping}, EKUCritical: true}, base.Leaf.Key, root)
		w.tsaAuth = append(w.tsaAuth, &tsa.Authority{Root: root, Leaf: leaf})
	}
}

// tsaWinsWithCRL: the TSA windows the CRL hierarchy (built-in revocation check) exists for - those that keep the
// root's window (the root signs the CRL the check must be able to use).
func tsaWinsWithCRL() []int {
	var out []int
	for i, t := range tsaWins {
		if t.defaultRoot() {
			out = append(out, i)
		}
	}
	return out
}

// tsaWindowFamily: the full product TSA window x revocation answer x verifyTimestamp x signing leaf window x
// well-formed trusted token x format x history on the same verifier, under a policy that lists the tsa store.
func tsaWindowFamily() []caseT {
	var out []caseT
	for tw := 1; tw < len(tsaWins); tw++ {
		for rev := range tsaRevs {
			for opt := range options {
				for lw := 0; lw < 2; lw++ {
					for tk := 1; tk <= 5; tk++ {
						for f := 0; f < 2; f++ {
							for p := 0; p < 2; p++ {
								out = append(out, caseT{TSAPol: 1, Option: opt, LeafW: lw, Token: tk, TSARev: rev, Format: f, TSAWin: tw, Prior: p})
							}
						}
					}
				}
			}
		}
	}
	return out
}

// tsaWindowObjectFamily: the same question after / around ANOTHER verifier object (one at a time).
func tsaWindowObjectFamily() []caseT {
	var out []caseT
	for tw := 1; tw < len(tsaWins); tw++ {
		for rev := 0; rev < 2; rev++ {
			for lw := 0; lw < 2; lw++ {
				for _, p := range []int{2, 3} {
					out = append(out, caseT{TSAPol: 1, LeafW: lw, Token: 1, TSARev: rev, TSAWin: tw, Prior: p})
				}
			}
		}
	}
	return out
}

func tsaWinNames() string {
	var n []string
	for _, t := range tsaWins {
		n = append(n, t.Name)
	}
	return fmt.Sprint(n)
}

// trustedTSARoots: what the policy's tsa store holds under "tsa-listed-trusted-root".
func (w *world) trustedTSARoots() []*x509.Certificate {
	out := []*x509.Certificate{w.auth[0].Root.Cert, w.auth[2].Root.Cert, w.auth[3].Root.Cert, w.crlAuth[0][0].Root.Cert}
	for _, r := range w.tsaRootsExtra {
		out = append(out, r.Cert)
	}
	return out
}

// allTSARoots: every TSA root of the world (trusted or not).
func (w *world) allTSARoots() []*x509.Certificate {
	var out []*x509.Certificate
	for _, a := range w.auth {
		out = append(out, a.Root.Cert)
	}
	out = append(out, w.crlAuth[0][0].Root.Cert)
	for _, r := range w.tsaRootsExtra {
		out = append(out, r.Cert)
	}
	return out
}

// tsaRevAnswer: what the scripted timestamping revocation validator answers (per certificate, leaf first).
func tsaRevAnswer(rev int) ([]result.Result, error) {
	switch rev {
	case 1:
		return []result.Result{result.ResultRevoked, result.ResultOK}, nil
	case 2:
		return []result.Result{result.ResultOK, result.ResultUnknown}, nil
	case 3:
		return nil, errors.New("mock: timestamping validator failed")
	}
	return nil, nil
}

// tsaWindowCrossFamily: TSA window x revocation answer (ok, revoked) x format, crossed with ONE deviation of every
// other dimension (scheme, the other tsa policies, CA window, signing time, expiry, order of the store list, zone
// of the envelope's times, intermediate certificate): none of them may change what the clause demands.
func tsaWindowCrossFamily() []caseT {
	var out []caseT
	for tw := 1; tw < len(tsaWins); tw++ {
		for rev := 0; rev < 2; rev++ {
			for f := 0; f < 2; f++ {
				base := caseT{TSAPol: 1, Token: 1, TSARev: rev, Format: f, TSAWin: tw}
				c := base
				c.Scheme = 1
				out = append(out, c)
				for _, tp := range []int{0, 2, 3} {
					c = base
					c.TSAPol = tp
					out = append(out, c)
				}
				for v := 1; v < len(windows); v++ {
					c = base
					c.CAW = v
					out = append(out, c)
				}
				for v := 1; v < len(signTimes); v++ {
					c = base
					c.Sign = v
					out = append(out, c)
				}
				for v := 1; v < len(expiries); v++ {
					c = base
					c.Expiry = v
					out = append(out, c)
				}
				for v := 1; v < len(layouts); v++ {
					c = base
					c.Layout = v
					out = append(out, c)
				}
				if f == 0 {
					for v := 1; v < len(envZones); v++ {
						c = base
						c.Zone = v
						out = append(out, c)
					}
				}
				for v := 1; v < len(mids); v++ {
					c = base
					c.Mid = v
					out = append(out, c)
				}
			}
		}
	}
	return out
}
