// C13, environment seam "the caller's context": GetCertificates takes a context.Context. The statement knows two
// results of a load - exactly the certificates of the files, or a failure as a whole - whatever the state of that
// context is. The alphabet: real contexts of the standard library that are done before the call, and scripted
// contexts that become done WHILE the load runs (the n-th time the loader consults Err() or Done()), which is how a
// cancellation or a deadline arrives in the middle of a store without any wall-clock dependence.
package main

import (
	"context"
	"fmt"
	"sync"
	"time"
)

// ctxKinds: "" (not listed) is context.Background(), which every other part uses.
var ctxKinds = []string{
	"cancelled-before-call",
	"deadline-exceeded-before-call",
	"cancelled-at-second-poll",
	"deadline-exceeded-at-third-poll",
	"cancellable-never-cancelled", // a live context that is not Background: nothing may change
}

// scriptedCtx answers "live" to the first `live` consultations and is done from then on.
type scriptedCtx struct {
	context.Context // Background: Value
	mu              sync.Mutex
	live            int
	polls           int
	err             error
	done            chan struct{}
	closed          bool
}

func (s *scriptedCtx) poll() bool {
	s.mu.Lock()
	defer s.mu.Unlock()
	s.polls++
	if s.polls > s.live && !s.closed {
		s.closed = true
		close(s.done)
	}
	return s.closed
}

func (s *scriptedCtx) Err() error {
	if s.poll() {
		return s.err
	}
	return nil
}

func (s *scriptedCtx) Done() <-chan struct{} {
	s.poll()
	return s.done
}

func (s *scriptedCtx) Deadline() (time.Time, bool) {
	if s.err == context.DeadlineExceeded {
		// more than an hour away from now in either direction would be a wall-clock statement; a scripted deadline
		// is "already in the past once it struck, far in the future before"
		s.mu.Lock()
		defer s.mu.Unlock()
		if s.closed {
			return time.Unix(1, 0), true
		}
		return time.Now().Add(1000 * time.Hour), true
	}
	return time.Time{}, false
}

func makeCtx(kind string) (context.Context, func(), error) {
	switch kind {
	case "":
		return context.Background(), func() {}, nil
	case "cancelled-before-call":
		ctx, cancel := context.WithCancel(context.Background())
		cancel()
		return ctx, cancel, nil
	case "deadline-exceeded-before-call":
		ctx, cancel := context.WithDeadline(context.Background(), time.Unix(1, 0))
		return ctx, cancel, nil
	case "cancelled-at-second-poll":
		return &scriptedCtx{Context: context.Background(), live: 1, err: context.Canceled, done: make(chan struct{})}, func() {}, nil
	case "deadline-exceeded-at-third-poll":
		return &scriptedCtx{Context: context.Background(), live: 2, err: context.DeadlineExceeded, done: make(chan struct{})}, func() {}, nil
	case "cancellable-never-cancelled":
		ctx, cancel := context.WithCancel(context.Background())
		return ctx, cancel, nil
	}
	return nil, nil, fmt.Errorf("unknown context kind %q", kind)
}

func ctxLive(kind string) bool { return kind == "" || kind == "cancellable-never-cancelled" }
