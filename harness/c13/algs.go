// C13, dimension "signature algorithm": the core alphabet of main.go knows one way of signing a
// certificate (ECDSA P-256 with SHA-256, issuer key and subject key of the same type). Whether a certificate
// "is a CA or self-signed certificate" does not depend on HOW it was signed: this file adds, for every role a
// certificate can play towards the statement x every signature algorithm of a hand-written alphabet, one entry
// kind (part "algorithms" of main.go).
//
// The algorithms comprise the ones in everyday use (RSA PKCS#1 v1.5, RSA-PSS, ECDSA with a longer digest,
// Ed25519), issuer and subject keys of different types, the retired digests (SHA-1, MD5; crypto/x509 cannot
// create such certificates, so the algorithm identifiers are put in by hand and the signature is computed with
// the primitives of crypto/rsa / crypto/ecdsa: these certificates ARE properly signed by the key the label
// says), and algorithm identifiers nobody can evaluate for these keys (MD2, DSA over an RSA key, a private OID). For the last group the signature bytes are
// produced by the labelled key but nobody can check them; only the roles whose label does not need such a check
// are generated (not a CA and not signed by its own key; CA signed by another key).
//
// The labels are checked against the material with the primitives (never with the code under test).
package main

import (
	"bytes"
	"crypto"
	"crypto/ecdsa"
	"crypto/ed25519"
	_ "crypto/md5"
	"crypto/rand"
	"crypto/rsa"
	_ "crypto/sha1"
	"crypto/sha256"
	_ "crypto/sha512"
	"crypto/x509"
	"crypto/x509/pkix"
	"encoding/asn1"
	"fmt"
	"math/big"

	"github.com/notaryproject/notation-go/zzverif/lib/pki"
)

type algDef struct {
	Name       string
	Signer     string                  // type of the signing key when the signer is not the certificate itself: "rsa" | "ec" | "ed"
	Subject    string                  // type of the certificate's own key
	Native     x509.SignatureAlgorithm // non-zero: crypto/x509 creates the certificate
	OID        asn1.ObjectIdentifier   // otherwise: the algorithm identifier is put in by hand ...
	NullParams bool                    // ... with NULL parameters (RSA) or none (ECDSA)
	Hash       crypto.Hash             // ... and the signature is made over this digest
	Parsed     x509.SignatureAlgorithm // what crypto/x509 must call the algorithm after parsing
	Verifiable bool                    // a signature of this algorithm can be attributed to a key
}

var algs = []algDef{
	{Name: "rsa-sha256", Signer: "rsa", Subject: "rsa", Native: x509.SHA256WithRSA, Parsed: x509.SHA256WithRSA, Hash: crypto.SHA256, Verifiable: true},
	{Name: "rsa-pss-sha256", Signer: "rsa", Subject: "rsa", Native: x509.SHA256WithRSAPSS, Parsed: x509.SHA256WithRSAPSS, Hash: crypto.SHA256, Verifiable: true},
	{Name: "ecdsa-sha384", Signer: "ec", Subject: "ec", Native: x509.ECDSAWithSHA384, Parsed: x509.ECDSAWithSHA384, Hash: crypto.SHA384, Verifiable: true},
	{Name: "ed25519", Signer: "ed", Subject: "ed", Native: x509.PureEd25519, Parsed: x509.PureEd25519, Verifiable: true},
	// issuer key and subject key of different types (only the roles signed by another key exist)
	{Name: "rsa-sha256-over-ec-key", Signer: "rsa", Subject: "ec", Native: x509.SHA256WithRSA, Parsed: x509.SHA256WithRSA, Hash: crypto.SHA256, Verifiable: true},
	{Name: "ecdsa-sha256-over-rsa-key", Signer: "ec", Subject: "rsa", Native: x509.ECDSAWithSHA256, Parsed: x509.ECDSAWithSHA256, Hash: crypto.SHA256, Verifiable: true},
	{Name: "ed25519-over-ec-key", Signer: "ed", Subject: "ec", Native: x509.PureEd25519, Parsed: x509.PureEd25519, Verifiable: true},
	// retired digests: properly signed, by hand
	{Name: "rsa-sha1", Signer: "rsa", Subject: "rsa", OID: asn1.ObjectIdentifier{1, 2, 840, 113549, 1, 1, 5}, NullParams: true, Hash: crypto.SHA1, Parsed: x509.SHA1WithRSA, Verifiable: true},
	{Name: "ecdsa-sha1", Signer: "ec", Subject: "ec", OID: asn1.ObjectIdentifier{1, 2, 840, 10045, 4, 1}, Hash: crypto.SHA1, Parsed: x509.ECDSAWithSHA1, Verifiable: true},
	{Name: "rsa-md5", Signer: "rsa", Subject: "rsa", OID: asn1.ObjectIdentifier{1, 2, 840, 113549, 1, 1, 4}, NullParams: true, Hash: crypto.MD5, Parsed: x509.MD5WithRSA, Verifiable: true},
	{Name: "rsa-md5-over-ec-key", Signer: "rsa", Subject: "ec", OID: asn1.ObjectIdentifier{1, 2, 840, 113549, 1, 1, 4}, NullParams: true, Hash: crypto.MD5, Parsed: x509.MD5WithRSA, Verifiable: true},
	// algorithms nobody can evaluate: the bytes come from the labelled key (PKCS#1 v1.5 over SHA-256) under a foreign identifier
	{Name: "rsa-md2", Signer: "rsa", Subject: "rsa", OID: asn1.ObjectIdentifier{1, 2, 840, 113549, 1, 1, 2}, NullParams: true, Hash: crypto.SHA256, Parsed: x509.UnknownSignatureAlgorithm}, // this crypto/x509 has no name for the identifier
	{Name: "dsa-sha1-identifier-over-rsa-key", Signer: "rsa", Subject: "rsa", OID: asn1.ObjectIdentifier{1, 2, 840, 10040, 4, 3}, Hash: crypto.SHA256, Parsed: x509.DSAWithSHA1},
	{Name: "unknown-algorithm-oid", Signer: "rsa", Subject: "rsa", OID: asn1.ObjectIdentifier{1, 3, 6, 1, 4, 1, 99999, 13, 1}, NullParams: true, Hash: crypto.SHA256, Parsed: x509.UnknownSignatureAlgorithm},
}

// algRoles: what a certificate can be towards the statement. The verdicts are those of the core kinds of the same role.
var algRoles = []struct {
	Name       string
	IsCA       bool
	SelfIssued bool // issuer name == subject name
	OwnKey     bool // signed by its own key
	CA, TSA    verdict
	Why        string
}{
	{"leaf-issued-by-ca", false, false, false, bad, bad, "not-ca-or-self-signed"},
	{"self-issued-leaf-signed-by-other-key", false, true, false, bad, bad, "not-ca-or-self-signed"},
	{"self-signed-non-ca", false, true, true, good, open, ""},
	{"intermediate-ca", true, false, false, good, bad, "tsa-non-root"},
	{"self-issued-ca-signed-by-other-key", true, true, false, good, bad, "tsa-non-root"},
	{"root-ca", true, true, true, good, good, ""},
}

type algKind struct{ alg, role int }

var (
	firstAlgKind int       // index of the first kind of this file in kinds
	algKindOf    []algKind // [kind - firstAlgKind]
)

// registerAlgKinds appends role(algorithm) kinds to the alphabet (called once, before the material is built).
func registerAlgKinds() {
	firstAlgKind = len(kinds)
	for ai, a := range algs {
		for ri, ro := range algRoles {
			if ro.OwnKey && (!a.Verifiable || a.Signer != a.Subject) {
				continue // nobody could tell that it is signed by its own key / the algorithm does not fit the key
			}
			kinds = append(kinds, kindDef{Name: ro.Name + "(" + a.Name + ")", CA: ro.CA, TSA: ro.TSA, Why: ro.Why})
			algKindOf = append(algKindOf, algKind{ai, ri})
		}
	}
}

func algKey(typ string, i int) crypto.Signer {
	switch typ {
	case "rsa":
		return pki.Key(pki.RSA2048, i)
	case "ec":
		return pki.Key(pki.EC256, 2*i) // 0: the issuing key of main.go, 2: its end-entity key
	}
	seed := sha256.Sum256([]byte(fmt.Sprintf("c13 ed25519 key %d (not a secret)", i)))
	return ed25519.NewKeyFromSeed(seed[:])
}

// signTBS signs by hand, with the primitives.
func signTBS(a algDef, signer crypto.Signer, tbs []byte) ([]byte, error) {
	h := a.Hash.New()
	h.Write(tbs)
	digest := h.Sum(nil)
	switch k := signer.(type) {
	case *rsa.PrivateKey:
		return rsa.SignPKCS1v15(rand.Reader, k, a.Hash, digest)
	case *ecdsa.PrivateKey:
		return ecdsa.SignASN1(rand.Reader, k, digest)
	}
	return nil, fmt.Errorf("no hand-made signature for %T", signer)
}

// resign replaces the signature algorithm of a certificate (inside and outside the signed part) and signs it again.
func resign(der []byte, a algDef, signer crypto.Signer) ([]byte, error) {
	var outer struct {
		TBS asn1.RawValue
		Alg asn1.RawValue
		Sig asn1.BitString
	}
	if rest, err := asn1.Unmarshal(der, &outer); err != nil || len(rest) != 0 {
		return nil, fmt.Errorf("resign: outer structure: %v", err)
	}
	ai := pkix.AlgorithmIdentifier{Algorithm: a.OID}
	if a.NullParams {
		ai.Parameters = asn1.NullRawValue
	}
	algDER, err := asn1.Marshal(ai)
	if err != nil {
		return nil, err
	}
	var body []byte
	rest := outer.TBS.Bytes
	for i := 0; len(rest) > 0; i++ {
		var e asn1.RawValue
		if rest, err = asn1.Unmarshal(rest, &e); err != nil {
			return nil, fmt.Errorf("resign: field %d: %v", i, err)
		}
		if i == 0 && (e.Class != asn1.ClassContextSpecific || e.Tag != 0) {
			return nil, fmt.Errorf("resign: the certificate has no explicit version")
		}
		if i == 2 { // version, serial number, signature algorithm
			body = append(body, algDER...)
		} else {
			body = append(body, e.FullBytes...)
		}
	}
	tbs, err := asn1.Marshal(asn1.RawValue{Class: asn1.ClassUniversal, Tag: asn1.TagSequence, IsCompound: true, Bytes: body})
	if err != nil {
		return nil, err
	}
	sig, err := signTBS(a, signer, tbs)
	if err != nil {
		return nil, err
	}
	return asn1.Marshal(struct {
		TBS asn1.RawValue
		Alg asn1.RawValue
		Sig asn1.BitString
	}{asn1.RawValue{FullBytes: tbs}, asn1.RawValue{FullBytes: algDER}, asn1.BitString{Bytes: sig, BitLength: 8 * len(sig)}})
}

// madeBy: was the signature of c made by the private key of pub? (primitives only)
func madeBy(c *x509.Certificate, a algDef, pub crypto.PublicKey) bool {
	if a.Parsed == x509.PureEd25519 {
		p, ok := pub.(ed25519.PublicKey)
		return ok && ed25519.Verify(p, c.RawTBSCertificate, c.Signature)
	}
	h := a.Hash.New()
	h.Write(c.RawTBSCertificate)
	digest := h.Sum(nil)
	switch p := pub.(type) {
	case *rsa.PublicKey:
		if a.Signer != "rsa" {
			return false
		}
		if a.Parsed == x509.SHA256WithRSAPSS {
			return rsa.VerifyPSS(p, a.Hash, digest, c.Signature, &rsa.PSSOptions{SaltLength: rsa.PSSSaltLengthEqualsHash}) == nil
		}
		return rsa.VerifyPKCS1v15(p, a.Hash, digest, c.Signature) == nil
	case *ecdsa.PublicKey:
		return a.Signer == "ec" && ecdsa.VerifyASN1(p, digest, c.Signature)
	}
	return false
}

func makeAlgCert(a algDef, ri, pos int) (*x509.Certificate, error) {
	ro := algRoles[ri]
	own := algKey(a.Subject, 1)
	signer := own
	if !ro.OwnKey {
		signer = algKey(a.Signer, 0)
	}
	subject := pki.Name(fmt.Sprintf("c13 %s(%s) %d", ro.Name, a.Name, pos))
	issuer := subject
	if !ro.SelfIssued {
		issuer = pki.Name("c13 issuing ca of the algorithm kinds (in no file), " + a.Signer)
	}
	nb, na := pki.DefaultWindow()
	serialCounter++
	t := &x509.Certificate{
		SerialNumber: big.NewInt(700000 + serialCounter), Subject: subject, NotBefore: nb, NotAfter: na,
		BasicConstraintsValid: true, IsCA: ro.IsCA, KeyUsage: x509.KeyUsageDigitalSignature,
		SignatureAlgorithm: a.Native,
	}
	if ro.IsCA {
		t.MaxPathLen, t.KeyUsage = -1, x509.KeyUsageCertSign|x509.KeyUsageCRLSign
	}
	if a.Native == 0 { // created with the everyday algorithm of the signer's key type, re-signed below
		t.SignatureAlgorithm = map[string]x509.SignatureAlgorithm{"rsa": x509.SHA256WithRSA, "ec": x509.ECDSAWithSHA256}[a.Signer]
	}
	der, err := x509.CreateCertificate(rand.Reader, t, &x509.Certificate{Subject: issuer}, own.Public(), signer)
	if err != nil {
		return nil, err
	}
	if a.Native == 0 {
		if der, err = resign(der, a, signer); err != nil {
			return nil, err
		}
	}
	c, err := x509.ParseCertificate(der)
	if err != nil {
		return nil, fmt.Errorf("does not parse: %v", err)
	}
	// ---- the label must be true of the material
	if c.SignatureAlgorithm != a.Parsed {
		return nil, fmt.Errorf("parsed signature algorithm is %v, not %v", c.SignatureAlgorithm, a.Parsed)
	}
	if c.IsCA != ro.IsCA || bytes.Equal(c.RawSubject, c.RawIssuer) != ro.SelfIssued {
		return nil, fmt.Errorf("CA flag or names not as labelled")
	}
	if !madeBy(c, a, signer.Public()) {
		return nil, fmt.Errorf("not signed by the labelled key")
	}
	if !ro.OwnKey && madeBy(c, a, own.Public()) {
		return nil, fmt.Errorf("verifies under its own key although signed by another key")
	}
	// where crypto/x509 itself can tell, it must agree
	if a.Verifiable && a.Hash != crypto.MD5 {
		if ok := c.CheckSignature(c.SignatureAlgorithm, c.RawTBSCertificate, c.Signature) == nil; ok != ro.OwnKey {
			return nil, fmt.Errorf("crypto/x509 disagrees with the label: verifies under its own key = %v", ok)
		}
	}
	return c, nil
}

func buildAlgMaterial() error {
	for i, ak := range algKindOf {
		k := firstAlgKind + i
		for p := 0; p < maxPos; p++ {
			c, err := makeAlgCert(algs[ak.alg], ak.role, p)
			if err != nil {
				return fmt.Errorf("material %s/%d: %v", kinds[k].Name, p, err)
			}
			mats[k][p] = one(c)
		}
	}
	return nil
}
