// C13 — trust stores load only valid certificates from real files of the named store.
//
// E3 over directory contents: the REAL truststore.NewX509TrustStore is run on real
// scratch configuration roots (one per case, removed afterwards).
//
//	part "entries": every ordered sequence of <= N (quick 3, thorough 4) directory entries
//	                over a 14-kind alphabet (= every multiset x every file-name ordering,
//	                so a good entry sorts before, after and between bad ones) x the three
//	                valid store types, in an ordinary named store "s";
//	part "paths":   every store type x store name x kind of object found at the store
//	                path (missing / directory / symlink to a directory / regular file),
//	                with a fixed good content.
//
// Every case carries decoy certificates (valid roots) in the parent of the store path
// (the type directory), in truststore/x509, in a sibling store and in a sibling type.
//
// Oracle: a reference loader over the GENERATOR'S description of the case (the disk is
// never re-scanned and no certificate file is parsed by the oracle; validity of types,
// names and entry kinds is hand-labelled). Decisions taken from the statement:
//   - "..." is a plain file name: it matches the grammar, it is an ordinary directory entry
//     (only "." and ".." denote another directory), so the store named "..." loads.
//   - a self-signed certificate that is not a CA, in a tsa store, is not classified by the
//     statement ("self-signed roots": self-signed yes, root CA no): either outcome is
//     accepted, but a successful load must still return exactly the files' certificates.
//   - the statement says "exactly the certificates of those files", not their order: the
//     set (multiset of raw certificates) is judged, the order is only recorded.
//   - "It then returns exactly the certificates of those files": a store that meets every
//     condition must load; the refusal of a hand-labelled valid store is reported under its
//     own key family (load/refused-valid-store:...), these cases are the positive controls.
//   - a panic of the loader is reported as an infrastructure error, not as a violation.
package main

import (
	"bytes"
	"context"
	"crypto/x509"
	"encoding/pem"
	"errors"
	"fmt"
	"os"
	"path/filepath"
	"sort"
	"strings"
	"sync"

	"github.com/notaryproject/notation-go/dir"
	"github.com/notaryproject/notation-go/verifier/truststore"
	"github.com/notaryproject/notation-go/zzverif/lib/hx"
	"github.com/notaryproject/notation-go/zzverif/lib/pki"
)

// ---------------------------------------------------------------- alphabets (hand-labelled)

type verdict int

const (
	good verdict = iota // the statement allows a store holding it to load
	bad                 // the statement demands that the load fails as a whole
	open                // not classified by the statement (see header)
)

type kindDef struct {
	Name string
	CA   verdict // in ca and signingAuthority stores
	TSA  verdict // in tsa stores
	Why  string  // reason class when bad
}

var kinds = []kindDef{
	{"pem-ca", good, good, ""},
	{"der-ca", good, good, ""},
	{"pem-ca+self-signed-leaf", good, open, ""},
	{"self-signed-non-ca", good, open, ""},
	{"leaf-issued-by-ca", bad, bad, "not-ca-or-self-signed"},
	{"intermediate-ca", good, bad, "tsa-non-root"},
	{"garbage", bad, bad, "unparseable"},
	{"empty-file", bad, bad, "no-certificate"},
	{"pem-private-key", bad, bad, "unparseable"},
	{"subdir-with-cert", bad, bad, "not-regular-file"},
	{"symlink-to-cert", bad, bad, "not-regular-file"},
	{"dangling-symlink", bad, bad, "not-regular-file"},
	// two more multi-certificate files (not in DESIGN's list): the SECOND certificate decides
	{"pem-ca+leaf-issued-by-ca", bad, bad, "not-ca-or-self-signed"},
	{"pem-ca+intermediate-ca", good, bad, "tsa-non-root"},
}

const (
	kPEMCA = iota
	kDERCA
	kMulti
	kSelfSigned
	kLeaf
	kInter
	kGarbage
	kEmpty
	kPrivKey
	kSubdir
	kSymlink
	kDangling
	kMultiLeaf
	kMultiInter
)

func kindIndex(name string) int {
	for i, k := range kinds {
		if k.Name == name {
			return i
		}
	}
	return -1
}

type labelled struct {
	Value string
	Label string
	Valid bool
}

// store types; the first seven are the quick alphabet
var storeTypes = []labelled{
	{"ca", "ca", true},
	{"signingAuthority", "signingAuthority", true},
	{"tsa", "tsa", true},
	{"", "empty", false},
	{"CA", "upper-case", false},
	{"ca/x", "separator", false},
	{"../ca", "dotdot", false},
	// thorough only
	{"tsa/", "trailing-separator", false},
	{"signingauthority", "lower-case", false},
	{"ca ", "trailing-blank", false},
	{".", "dot", false},
	{"ca/../tsa", "dotdot-inside", false},
}

const quickTypes = 7

// store names; the first ten are the quick alphabet
var storeNames = []labelled{
	{"s", "plain", true},
	{"a.b", "dotted", true},
	{"a_b-c", "underscore-dash", true},
	{".", "dot", false},
	{"..", "dotdot", false},
	{"...", "three-dots", true}, // a legal, ordinary directory entry name
	{"", "empty", false},
	{"a/b", "separator", false},
	{"a b", "blank", false},
	{"s/../s", "dotdot-inside", false},
	// thorough only
	{".s", "leading-dot", true},
	{"a..b", "double-dot-inside", true},
	{"-", "dash", true},
	{"S9", "upper-case-digit", true},
	{"s/", "trailing-separator", false},
	{"/s", "leading-separator", false},
	{"./s", "dot-separator", false},
	{"a\\b", "backslash", false},
	{"s\n", "trailing-newline", false},
	{"s*", "star", false},
}

const quickNames = 10

var pathKinds = []string{"missing", "directory", "symlink-to-directory", "regular-file"}

func lookup(tab []labelled, v string) (labelled, bool) {
	for _, l := range tab {
		if l.Value == v {
			return l, true
		}
	}
	return labelled{}, false
}

// ---------------------------------------------------------------- material (generated once)

type material struct {
	file  []byte              // content of the regular file (nil: the entry is not a regular file)
	certs []*x509.Certificate // certificates the regular file holds, in file order
	inner []byte              // subdir: content of the file inside; symlink-to-cert: content of the target
}

const maxPos = 4

var (
	mats       [][]material // [kind][position]
	decoyNames = []string{"parent-of-store(type-directory)", "truststore/x509", "sibling-store", "sibling-type"}
	decoys     []*x509.Certificate
	fileAtPath *x509.Certificate // content of the regular file found at the store path (path kind regular-file)
	hidden     map[string]string // raw -> description, certificates that are on disk but in no regular entry
)

func ca(cn string, key int, issuer *pki.Cert) *pki.Cert {
	return pki.Make(pki.Tmpl{Subject: pki.Name(cn), CA: true, PathLen: -1}, pki.Key(pki.EC256, key), issuer)
}

func ee(cn string, key int, issuer *pki.Cert) *pki.Cert {
	return pki.Make(pki.Tmpl{Subject: pki.Name(cn)}, pki.Key(pki.EC256, key), issuer)
}

func buildMaterial() error {
	// key 0: roots, key 1: intermediates, key 2: end-entity certificates, key 3: the private-key file.
	// The keys differ on purpose: an issued certificate must not verify under its own key.
	issuer := ca("c13 issuing root (in no file)", 0, nil)
	keyDER, err := x509.MarshalPKCS8PrivateKey(pki.Key(pki.EC256, 3))
	if err != nil {
		return err
	}
	hidden = map[string]string{}
	mats = make([][]material, len(kinds))
	for k := range kinds {
		mats[k] = make([]material, maxPos)
	}
	for p := 0; p < maxPos; p++ {
		c := ca(fmt.Sprintf("c13 pem-ca %d", p), 0, nil)
		mats[kPEMCA][p] = material{file: pki.PEM(c.Cert), certs: []*x509.Certificate{c.Cert}}
		c = ca(fmt.Sprintf("c13 der-ca %d", p), 0, nil)
		mats[kDERCA][p] = material{file: c.Cert.Raw, certs: []*x509.Certificate{c.Cert}}
		c = ca(fmt.Sprintf("c13 multi-ca %d", p), 0, nil)
		l := ee(fmt.Sprintf("c13 multi-self-signed-leaf %d", p), 2, nil)
		mats[kMulti][p] = material{file: pki.PEM(c.Cert, l.Cert), certs: []*x509.Certificate{c.Cert, l.Cert}}
		l = ee(fmt.Sprintf("c13 self-signed-non-ca %d", p), 2, nil)
		mats[kSelfSigned][p] = material{file: pki.PEM(l.Cert), certs: []*x509.Certificate{l.Cert}}
		l = ee(fmt.Sprintf("c13 leaf-issued-by-ca %d", p), 2, issuer)
		mats[kLeaf][p] = material{file: pki.PEM(l.Cert), certs: []*x509.Certificate{l.Cert}}
		c = ca(fmt.Sprintf("c13 intermediate-ca %d", p), 1, issuer)
		mats[kInter][p] = material{file: pki.PEM(c.Cert), certs: []*x509.Certificate{c.Cert}}
		mats[kGarbage][p] = material{file: []byte(fmt.Sprintf("this is not a certificate (%d)\n\x00\x01\x02\xff\xfe", p))}
		mats[kEmpty][p] = material{file: []byte{}}
		mats[kPrivKey][p] = material{file: pem.EncodeToMemory(&pem.Block{Type: "PRIVATE KEY", Bytes: keyDER})}
		c = ca(fmt.Sprintf("c13 inside-subdir %d", p), 0, nil)
		mats[kSubdir][p] = material{inner: pki.PEM(c.Cert)}
		hidden[string(c.Cert.Raw)] = "certificate inside a sub-directory"
		c = ca(fmt.Sprintf("c13 symlink-target %d", p), 0, nil)
		mats[kSymlink][p] = material{inner: pki.PEM(c.Cert)}
		hidden[string(c.Cert.Raw)] = "certificate behind a symlink"
		mats[kDangling][p] = material{}
		c = ca(fmt.Sprintf("c13 multi2-ca %d", p), 0, nil)
		l = ee(fmt.Sprintf("c13 multi2-leaf-issued-by-ca %d", p), 2, issuer)
		mats[kMultiLeaf][p] = material{file: pki.PEM(c.Cert, l.Cert), certs: []*x509.Certificate{c.Cert, l.Cert}}
		c = ca(fmt.Sprintf("c13 multi3-ca %d", p), 0, nil)
		c2 := ca(fmt.Sprintf("c13 multi3-intermediate-ca %d", p), 1, issuer)
		mats[kMultiInter][p] = material{file: pki.PEM(c.Cert, c2.Cert), certs: []*x509.Certificate{c.Cert, c2.Cert}}
	}
	for _, n := range decoyNames {
		decoys = append(decoys, ca("c13 decoy "+n, 0, nil).Cert)
	}
	fileAtPath = ca("c13 regular file at the store path", 0, nil).Cert

	// the labels of the alphabet must be true of the material (checked with crypto/x509 only)
	selfSigned := func(c *x509.Certificate) bool {
		return c.CheckSignature(c.SignatureAlgorithm, c.RawTBSCertificate, c.Signature) == nil && bytes.Equal(c.RawSubject, c.RawIssuer)
	}
	for p := 0; p < maxPos; p++ {
		for _, k := range []int{kPEMCA, kDERCA} {
			if c := mats[k][p].certs[0]; !c.IsCA || !selfSigned(c) {
				return fmt.Errorf("material %s/%d is not a self-signed CA", kinds[k].Name, p)
			}
		}
		if m := mats[kMulti][p].certs; !m[0].IsCA || !selfSigned(m[0]) || m[1].IsCA || !selfSigned(m[1]) {
			return fmt.Errorf("material multi/%d mislabelled", p)
		}
		if c := mats[kSelfSigned][p].certs[0]; c.IsCA || !selfSigned(c) {
			return fmt.Errorf("material self-signed-non-ca/%d mislabelled", p)
		}
		if c := mats[kLeaf][p].certs[0]; c.IsCA || selfSigned(c) || c.CheckSignatureFrom(issuer.Cert) != nil {
			return fmt.Errorf("material leaf-issued-by-ca/%d mislabelled", p)
		}
		if c := mats[kInter][p].certs[0]; !c.IsCA || selfSigned(c) || c.CheckSignatureFrom(issuer.Cert) != nil {
			return fmt.Errorf("material intermediate-ca/%d mislabelled", p)
		}
		if m := mats[kMultiLeaf][p].certs; !m[0].IsCA || !selfSigned(m[0]) || m[1].IsCA || selfSigned(m[1]) {
			return fmt.Errorf("material pem-ca+leaf-issued-by-ca/%d mislabelled", p)
		}
		if m := mats[kMultiInter][p].certs; !m[0].IsCA || !selfSigned(m[0]) || !m[1].IsCA || selfSigned(m[1]) {
			return fmt.Errorf("material pem-ca+intermediate-ca/%d mislabelled", p)
		}
	}
	return nil
}

// ---------------------------------------------------------------- cases

type loadCase struct {
	Part    string   `json:"part"` // "entries" | "paths"
	Type    string   `json:"type"`
	Name    string   `json:"name"`
	Path    string   `json:"path_kind"`
	Entries []string `json:"entries"` // entry kinds in file-name order (position i is file "f<i>-<kind>")
	// Prior 1: the same trust-store instance first loaded the sibling store of the same type ("sibling") and the
	// store of the same name in the other type (both hold a valid decoy); the judged load must behave as on a fresh instance.
	Prior int `json:"prior,omitempty"`
}

func (c loadCase) String() string {
	return fmt.Sprintf("%s|type=%q|name=%q|path=%s|entries=%s|prior=%d", c.Part, c.Type, c.Name, c.Path, strings.Join(c.Entries, ","), c.Prior)
}

var goodContent = []string{"pem-ca", "der-ca"}

func sequences(n, maxLen int) [][]int {
	out := [][]int{{}}
	var rec func(cur []int)
	rec = func(cur []int) {
		if len(cur) == maxLen {
			return
		}
		for k := 0; k < n; k++ {
			next := append(append([]int(nil), cur...), k)
			out = append(out, next)
			rec(next)
		}
	}
	rec(nil)
	// shortest first: the first (= reported) case of a violation key is a minimal one
	sort.SliceStable(out, func(a, b int) bool { return len(out[a]) < len(out[b]) })
	return out
}

// ---------------------------------------------------------------- generator: description -> disk

func within(p, base string) bool {
	return p == base || strings.HasPrefix(p, base+string(filepath.Separator))
}

func entryFileName(pos, k int) string { return fmt.Sprintf("f%d-%s", pos, kinds[k].Name) }

// populate writes the entries into contentDir; things that must live outside the
// store (symlink targets) go to <root>/elsewhere.
func populate(root, contentDir string, entries []int) error {
	if err := os.MkdirAll(contentDir, 0o755); err != nil {
		return err
	}
	elsewhere := filepath.Join(root, "elsewhere")
	for pos, k := range entries {
		m := mats[k][pos]
		p := filepath.Join(contentDir, entryFileName(pos, k))
		switch k {
		case kSubdir:
			if err := os.Mkdir(p, 0o755); err != nil {
				return err
			}
			if err := os.WriteFile(filepath.Join(p, "inner.pem"), m.inner, 0o644); err != nil {
				return err
			}
		case kSymlink:
			if err := os.MkdirAll(elsewhere, 0o755); err != nil {
				return err
			}
			t := filepath.Join(elsewhere, fmt.Sprintf("target-%d.pem", pos))
			if err := os.WriteFile(t, m.inner, 0o644); err != nil {
				return err
			}
			if err := os.Symlink(t, p); err != nil {
				return err
			}
		case kDangling:
			if err := os.Symlink(filepath.Join(elsewhere, fmt.Sprintf("no-such-file-%d", pos)), p); err != nil {
				return err
			}
		default:
			if err := os.WriteFile(p, m.file, 0o644); err != nil {
				return err
			}
		}
	}
	return nil
}

// build materialises the case under root and returns which decoys were placed.
func build(root string, c loadCase, entries []int) (placed []bool, err error) {
	x509dir := filepath.Join(root, "truststore", "x509")
	storePath := filepath.Join(x509dir, c.Type, c.Name) // the layout truststore/x509/<type>/<name>
	if !within(storePath, root) || storePath == root {
		return nil, fmt.Errorf("store path %q leaves the scratch root", storePath)
	}
	if err := os.MkdirAll(filepath.Dir(storePath), 0o755); err != nil {
		return nil, err
	}
	switch c.Path {
	case "missing":
	case "directory":
		if err := populate(root, storePath, entries); err != nil {
			return nil, err
		}
	case "symlink-to-directory":
		realDir := filepath.Join(root, "elsewhere", "real-store")
		if err := populate(root, realDir, entries); err != nil {
			return nil, err
		}
		if err := os.Symlink(realDir, storePath); err != nil {
			return nil, err
		}
	case "regular-file":
		if err := os.WriteFile(storePath, pki.PEM(fileAtPath), 0o644); err != nil {
			return nil, err
		}
	default:
		return nil, fmt.Errorf("unknown path kind %q", c.Path)
	}
	otherType := "signingAuthority"
	if c.Type == otherType {
		otherType = "ca"
	}
	parent := filepath.Dir(storePath)
	locs := []string{
		filepath.Join(parent, "decoy-parent.pem"),
		filepath.Join(x509dir, "decoy-x509.pem"),
		filepath.Join(parent, "sibling", "decoy-sibling-store.pem"),
		filepath.Join(x509dir, otherType, c.Name, "decoy-sibling-type.pem"),
	}
	placed = make([]bool, len(locs))
	for i, l := range locs {
		// a decoy inside the object at the store path would be part of the store (or cannot be created)
		if within(l, storePath) || !within(l, root) {
			continue
		}
		if err := os.MkdirAll(filepath.Dir(l), 0o755); err != nil {
			return nil, fmt.Errorf("decoy %s: %v", decoyNames[i], err)
		}
		if err := os.WriteFile(l, pki.PEM(decoys[i]), 0o644); err != nil {
			return nil, fmt.Errorf("decoy %s: %v", decoyNames[i], err)
		}
		placed[i] = true
	}
	return placed, nil
}

// ---------------------------------------------------------------- reference loader (over the description)

type expectation struct {
	Outcome  string   // "load" | "refuse" | "open"
	Reason   string   // class of the reason
	FirstBad string   // first bad entry kind in file-name order ("" if none)
	Certs    [][]byte // raw certificates of all regular-file entries, in file-name order
	NonBad   [][]byte // raw certificates of the entries that are not bad
	Mixed    bool     // at least one entry that is not bad next to a bad one
}

func reference(c loadCase, entries []int) (expectation, error) {
	var e expectation
	t, ok := lookup(storeTypes, c.Type)
	if !ok {
		return e, fmt.Errorf("store type %q has no hand-written label", c.Type)
	}
	n, ok := lookup(storeNames, c.Name)
	if !ok {
		return e, fmt.Errorf("store name %q has no hand-written label", c.Name)
	}
	nBad, nNonBad, anyOpen := 0, 0, false
	for pos, k := range entries {
		v := kinds[k].CA
		if c.Type == "tsa" {
			v = kinds[k].TSA
		}
		for _, x := range mats[k][pos].certs {
			e.Certs = append(e.Certs, x.Raw)
			if v != bad {
				e.NonBad = append(e.NonBad, x.Raw)
			}
		}
		switch v {
		case bad:
			nBad++
			if e.FirstBad == "" {
				e.FirstBad = kinds[k].Name
				e.Reason = "bad-entry(" + kinds[k].Why + ")"
			}
		case open:
			anyOpen = true
			nNonBad++
		default:
			nNonBad++
		}
	}
	e.Mixed = nBad > 0 && nNonBad > 0
	switch {
	case !t.Valid:
		e.Outcome, e.Reason = "refuse", "invalid-type"
	case !n.Valid:
		e.Outcome, e.Reason = "refuse", "invalid-name"
	case c.Path != "directory":
		e.Outcome, e.Reason = "refuse", "store-path-"+c.Path
	case len(entries) == 0:
		e.Outcome, e.Reason = "refuse", "empty-store"
	case nBad > 0:
		e.Outcome = "refuse"
	case anyOpen:
		e.Outcome, e.Reason = "open", "tsa-self-signed-non-ca(unclassified)"
	default:
		e.Outcome, e.Reason = "load", "valid"
	}
	return e, nil
}

// ---------------------------------------------------------------- one case

type finding struct{ key, what string }

type result struct {
	class      string
	loaded     bool
	nontrivial bool
	orderDiff  bool
	findings   []finding
	infra      string
	detail     string
}

func errClass(err error) string {
	var te truststore.TrustStoreError
	var ce truststore.CertificateError
	switch {
	case errors.As(err, &te):
		return "TrustStoreError"
	case errors.As(err, &ce):
		return "CertificateError"
	}
	return "other-error"
}

func multisetDiff(got, want [][]byte) (extra, missing int) {
	m := map[string]int{}
	for _, w := range want {
		m[string(w)]++
	}
	for _, g := range got {
		if m[string(g)] > 0 {
			m[string(g)]--
		} else {
			extra++
		}
	}
	for _, v := range m {
		missing += v
	}
	return
}

func uniqueKinds(entries []string) string {
	seen := map[string]bool{}
	var u []string
	for _, e := range entries {
		if !seen[e] {
			seen[e] = true
			u = append(u, e)
		}
	}
	sort.Strings(u)
	if len(u) == 0 {
		return "none"
	}
	return strings.Join(u, "+")
}

func runCase(scratch string, idx int, c loadCase) (res result) {
	entries := make([]int, len(c.Entries))
	for i, n := range c.Entries {
		if entries[i] = kindIndex(n); entries[i] < 0 {
			res.infra = fmt.Sprintf("unknown entry kind %q", n)
			return
		}
	}
	if len(entries) > maxPos {
		res.infra = "too many entries"
		return
	}
	exp, err := reference(c, entries)
	if err != nil {
		res.infra = err.Error()
		return
	}
	// sharded so that parallel cases do not contend for one parent directory
	root := filepath.Join(scratch, fmt.Sprintf("shard-%02d", idx%64), fmt.Sprintf("case-%07d", idx))
	_ = os.RemoveAll(root)
	defer os.RemoveAll(root)
	placed, err := build(root, c, entries)
	if err != nil {
		res.infra = fmt.Sprintf("cannot build %s: %v", c, err)
		return
	}

	// ---- the real code
	ts := truststore.NewX509TrustStore(dir.NewSysFS(root))
	if c.Prior == 1 {
		other := truststore.TypeSigningAuthority
		if c.Type == string(other) {
			other = truststore.TypeCA
		}
		_, _ = ts.GetCertificates(context.Background(), truststore.Type(c.Type), "sibling")
		_, _ = ts.GetCertificates(context.Background(), other, c.Name)
	}
	certs, lerr := ts.GetCertificates(context.Background(), truststore.Type(c.Type), c.Name)

	tl, _ := lookup(storeTypes, c.Type)
	nl, _ := lookup(storeNames, c.Name)
	add := func(key, format string, a ...any) {
		if c.Prior == 1 {
			key += ":after-other-loads-on-same-trust-store"
		}
		res.findings = append(res.findings, finding{key, fmt.Sprintf(format, a...) + " [" + c.String() + "]"})
	}
	typeClass := tl.Label
	if !tl.Valid {
		typeClass = "invalid-type"
	}
	prefix := c.Part + ":" + typeClass + ":"

	if lerr != nil {
		res.detail = fmt.Sprintf("refused (%s): %v", errClass(lerr), lerr)
		if certs != nil {
			add("load/certificates-returned-with-error", "%d certificates returned together with error %v", len(certs), lerr)
		}
		switch exp.Outcome {
		case "load":
			label := nl.Label
			if c.Part == "entries" {
				label = uniqueKinds(c.Entries)
			}
			add("load/refused-valid-store:"+tl.Label+":"+label, "a valid store was refused: %v", lerr)
		case "open":
			res.class = prefix + "refused:" + exp.Reason
		default:
			res.class = prefix + "refused:" + exp.Reason + ":" + errClass(lerr)
			// non-trivial refusals: something loadable is on disk and must nevertheless be refused
			res.nontrivial = exp.Mixed || (c.Part == "paths" && c.Path != "missing")
		}
		return
	}

	// ---- success
	res.loaded = true
	res.detail = fmt.Sprintf("loaded %d certificates", len(certs))
	got := make([][]byte, 0, len(certs))
	for _, x := range certs {
		if x == nil {
			add("load/nil-certificate-returned", "a nil certificate was returned")
			continue
		}
		got = append(got, x.Raw)
		for i, d := range decoys {
			if placed[i] && bytes.Equal(x.Raw, d.Raw) {
				add("load/decoy-returned:"+decoyNames[i], "a certificate from outside the named store was returned (%s)", x.Subject)
			}
		}
		if what, ok := hidden[string(x.Raw)]; ok {
			add("load/certificate-from-non-regular-entry", "returned %s (%s)", what, x.Subject)
		}
		if bytes.Equal(x.Raw, fileAtPath.Raw) {
			add("load/certificate-of-file-at-store-path", "the regular file at the store path was loaded as a store")
		}
	}
	if exp.Outcome == "refuse" {
		switch exp.Reason {
		case "invalid-type":
			add("load/accepted-invalid-type:"+tl.Label, "store type %q was accepted, %d certificates returned", c.Type, len(certs))
		case "invalid-name":
			add("load/accepted-invalid-name:"+nl.Label, "store name %q was accepted, %d certificates returned", c.Name, len(certs))
		case "empty-store":
			add("load/accepted-empty-store", "an empty store loaded without error (%d certificates)", len(certs))
		default:
			if strings.HasPrefix(exp.Reason, "store-path-") {
				add("load/accepted-non-directory:"+c.Path, "the store path is %s but the load succeeded with %d certificates", c.Path, len(certs))
				break
			}
			extra, _ := multisetDiff(got, exp.NonBad)
			if len(got) > 0 && extra == 0 {
				add("load/partial-set:"+exp.FirstBad, "the store holds a bad entry (%s) but %d certificates of the other entries were returned", exp.FirstBad, len(got))
			} else {
				add("load/accepted-bad-entry:"+exp.FirstBad, "the store holds a bad entry (%s) but the load succeeded with %d certificates", exp.FirstBad, len(got))
			}
		}
		return
	}
	// load or open: exactly the certificates of the files
	extra, missing := multisetDiff(got, exp.Certs)
	if extra > 0 {
		add("load/wrong-set:extra-certificate", "%d returned certificates are not in the files of the store (returned %d, files hold %d)", extra, len(got), len(exp.Certs))
	}
	if missing > 0 {
		add("load/wrong-set:missing-certificate", "%d certificates of the files were not returned (returned %d, files hold %d)", missing, len(got), len(exp.Certs))
	}
	if extra == 0 && missing == 0 {
		for i := range got {
			if !bytes.Equal(got[i], exp.Certs[i]) {
				res.orderDiff = true
			}
		}
	}
	if exp.Outcome == "open" {
		res.class = prefix + "loaded:" + exp.Reason
	} else {
		res.class = prefix + "loaded"
		if res.orderDiff {
			res.class += "(not-in-file-name-order)"
		}
	}
	res.nontrivial = len(c.Entries) >= 2
	return
}

// ---------------------------------------------------------------- main

func replay(r *hx.Run, scratch string) {
	var c loadCase
	if err := r.LoadReplay(&c); err != nil {
		r.Infra("replay: %v", err)
		return
	}
	r.Eval(1)
	res := runCase(scratch, 0, c)
	if res.infra != "" {
		r.Infra("replay: %s", res.infra)
		return
	}
	fmt.Printf("replay: %s -> %s\n", c, res.detail)
	for _, f := range res.findings {
		r.Violation(f.key, f.what, c)
	}
	if len(res.findings) == 0 {
		fmt.Println("replay: holds (" + res.class + ")")
	}
}

func main() {
	r := hx.New("C13")
	r.Rule = "part entries: every ordered sequence (= multiset x file-name ordering) of <= N entry kinds x {ca, signingAuthority, tsa} in store \"s\"; " +
		"part paths: every type x name x object-at-store-path with a fixed good content; each case = one real GetCertificates call on its own scratch root with four decoys. " +
		"non-trivial = loads of >= 2 files, refusals of a store holding a loadable entry next to a bad one, refusals where an object with good content exists at the store path"
	r.Assumptions = []string{
		"validity of store types, store names and entry kinds is hand-labelled; the oracle reads the generator's description, never the disk",
		"the store path is <root>/truststore/x509/<type>/<name> (filepath.Join), as the property's layout anchor states",
		"'...' is a plain file name (ordinary directory entry); a self-signed non-CA certificate in a tsa store is not classified by the statement (either outcome accepted, exact set still demanded)",
		"the returned certificates are judged as a multiset of raw encodings; file-name order is recorded, not demanded",
		"a store meeting every stated condition must load (positive controls; refusal = load/refused-valid-store:...)",
		"entry alphabet = DESIGN's twelve kinds + two multi-certificate files whose second certificate is the bad one",
		"we run as root: permission faults (unreadable file/directory) are not produced",
		"a panic of the loader is an infrastructure error",
	}
	scratch := hx.Scratch()
	if err := buildMaterial(); err != nil {
		r.Infra("material: %v", err)
		r.Finish()
	}
	if r.Replay != "" {
		replay(r, scratch)
		r.Finish()
	}

	maxLen, nTypes, nNames := 3, quickTypes, quickNames
	if r.Thorough() {
		maxLen, nTypes, nNames = maxPos, len(storeTypes), len(storeNames)
	}
	var cases []loadCase
	seqs := sequences(len(kinds), maxLen)
	for _, t := range storeTypes[:3] {
		for _, s := range seqs {
			names := make([]string, len(s))
			for i, k := range s {
				names[i] = kinds[k].Name
			}
			cases = append(cases, loadCase{Part: "entries", Type: t.Value, Name: "s", Path: "directory", Entries: names})
		}
	}
	nEntries := len(cases)
	for _, t := range storeTypes[:nTypes] {
		for _, n := range storeNames[:nNames] {
			for _, p := range pathKinds {
				cases = append(cases, loadCase{Part: "paths", Type: t.Value, Name: n.Value, Path: p, Entries: goodContent})
			}
		}
	}
	// instance reuse: every case again on a trust-store instance that loaded two other stores before
	for _, c := range append([]loadCase(nil), cases...) {
		c.Prior = 1
		cases = append(cases, c)
	}
	r.Extra["entry_kinds"] = len(kinds)
	r.Extra["max_entries_per_store"] = maxLen
	r.Extra["entry_sequences"] = len(seqs)
	r.Extra["cases_entries_part"] = nEntries
	r.Extra["cases_paths_part"] = len(cases) - nEntries
	r.Extra["store_types"] = nTypes
	r.Extra["store_names"] = nNames
	r.Extra["path_kinds"] = len(pathKinds)
	r.Extra["decoys_per_case"] = len(decoyNames)

	type hit struct {
		idx int
		f   finding
	}
	var (
		mu       sync.Mutex
		hits     []hit
		loaded   int
		loadedP  int
		orderDif int
	)
	r.Parallel(len(cases), func(i int) {
		c := cases[i]
		res := runCase(scratch, i, c)
		if res.infra != "" {
			r.Infra("%s", res.infra)
			return
		}
		r.Eval(1)
		r.State(1)
		if res.class != "" {
			r.Outcome(res.class)
		}
		if res.nontrivial && len(res.findings) == 0 {
			r.Nontrivial(c.String())
		}
		if i%211 == 0 {
			r.Sample(map[string]any{"case": c, "result": res.detail})
		}
		mu.Lock()
		if res.loaded && len(res.findings) == 0 {
			loaded++
			if c.Part == "paths" {
				loadedP++
			}
		}
		if res.orderDiff {
			orderDif++
		}
		for _, f := range res.findings {
			hits = append(hits, hit{i, f})
		}
		mu.Unlock()
	}, nil)
	// report in case order: the replay file of a key is always its first case
	sort.SliceStable(hits, func(a, b int) bool { return hits[a].idx < hits[b].idx })
	for _, h := range hits {
		r.Violation(h.f.key, h.f.what, cases[h.idx])
	}
	r.Extra["positive_controls_loaded"] = loaded
	r.Extra["positive_controls_loaded_paths_part"] = loadedP
	r.Extra["loads_not_in_file_name_order"] = orderDif
	if len(hits) == 0 && (loaded == 0 || loadedP == 0) {
		r.Infra("no positive control loaded (entries+paths: %d, paths: %d): the harness cannot tell a loader from a refuser", loaded, loadedP)
	}
	r.Finish()
}
