// C13 — trust stores load only valid certificates from real files of the named store.
//
// E3 over directory contents: the REAL truststore.NewX509TrustStore is run on real
// scratch configuration roots (one per case, removed afterwards).
//
//	part "entries": every ordered sequence of <= N (quick 3, thorough 4) directory entries
//	                over the 18 core kinds and of <= N-1 entries over all 30 kinds (= every
//	                multiset x every file-name ordering, so a good entry sorts before, after
//	                and between bad ones; the same kind at two positions = two DISTINCT
//	                certificates that collide in name+serial / name+key) x the three valid
//	                store types, in an ordinary named store "s";
//	part "bulk":    large stores (1025 / 10001, thorough also 65537 valid files), all good and
//	                with one bad entry sorting first / last: the size of a store exempts nothing;
//	part "names":   every file-name style of an entry (hidden, backup, editor, desktop
//	                bookkeeping, extensions, case, blank, non-ASCII, long) x every kind, alone
//	                and before / after an ordinary good entry: "every entry" knows no exempt name;
//	part "algorithms": every role of a certificate towards the statement (leaf issued by a CA, self-issued leaf signed
//	                by another key, self-signed non-CA, intermediate CA, self-issued CA signed by another key, root
//	                CA) x every signature algorithm of algs.go (RSA PKCS#1 / PSS, ECDSA, Ed25519, issuer and subject
//	                keys of different types, the retired digests SHA-1 and MD5 - properly signed by hand -, and
//	                identifiers nobody can evaluate), alone and before / after an ordinary good entry x 3 types;
//	part "paths":   every store type x store name x kind of object found at the store
//	                path (missing / directory / symlink to a directory / regular file),
//	                with a fixed good content, x two contents of the alias stores;
//	both again on a trust-store object that loaded other stores before (Prior);
//	part "history": ONE trust-store object loads the same store, the store is changed IN PLACE
//	                (an entry overwritten by every other kind, removed, added; the modification
//	                times of the directory and of overwritten files are put back, so that only
//	                the content differs) and is loaded again (thorough: and changed back and
//	                loaded a third time); every load is judged by the reference for the content
//	                that is on disk at that moment (E2, histories on one instance). Contents
//	                before the edit: <= 2 entries (quick) / <= 3 (thorough); histories in which
//	                every state must be refused are run by thorough up to 2 entries only;
//	part "path-history": the same with the object at the store path changing its kind;
//	part "context": the context handed to GetCertificates (ctx.go): cancelled / past its deadline before the call
//	                (real contexts), becoming done at the loader's second / third consultation of Err() or Done()
//	                (scripted contexts: a cancellation that arrives in the middle of a store, no wall clock), and a
//	                live cancellable one x every content of <= N entries of the first seven kinds x 3 types; for
//	                the done contexts the same store is loaded once more under a live context by the same object.
//
// Every case carries decoy certificates (valid roots) in the parent of the store path
// (the type directory), in truststore/x509, in a sibling store and in a sibling type, and
// loadable ALIAS stores at the places a normalising loader might look instead: the store
// type and/or store name in the other letter case / trimmed (hand-written aliases).
// Entry kinds collide by construction: issuer name == subject name with a foreign
// signature, own-key signature with a foreign issuer name, a self-signed certificate and
// its twin with one signature byte changed (same size, same names, same key).
//
// Oracle: a reference loader over the GENERATOR'S description of the case (the disk is
// never re-scanned and no certificate file is parsed by the oracle; validity of types,
// names and entry kinds is hand-labelled). Decisions taken from the statement:
//   - "..." is a plain file name: it matches the grammar, it is an ordinary directory entry
//     (only "." and ".." denote another directory), so the store named "..." loads.
//   - a self-signed certificate that is not a CA, in a tsa store, is not classified by the
//     statement ("self-signed roots": self-signed yes, root CA no): either outcome is
//     accepted, but a successful load must still return exactly the files' certificates.
//   - "self-signed" = the signature verifies under the certificate's own key; "root" =
//     self-signed and issuer name == subject name.
//   - the statement says "exactly the certificates of those files", not their order: the
//     set (multiset of raw certificates) is judged, the order is only recorded.
//   - the statement is an implication ("succeeds only ... only if"): a loader that refuses a
//     store meeting every condition (stricter grammar, further certificate checks) does not
//     break it. Such refusals are RECORDED (outcome class recorded:load/refused-valid-store:...),
//     never reported; the valid stores are the positive controls (at least one must load).
//   - store names with a blank, a backslash, a newline or a star are outside the statement's
//     quantifier (plain, dotted, with separators, dot-only, empty) and are legal single file
//     names on this platform: whether they are "plain" is not decided by the statement. Either
//     outcome is accepted; a successful load must return exactly the files of the directory of
//     exactly that name (not those of a store with a similar name).
//   - "fails as a whole rather than returning a partial set": an error together with a
//     non-empty certificate list is reported; nil versus empty list is only recorded.
//   - "those files" are the files at the time of the call: a later call on the same object
//     is judged like a first call. Every in-place change is run twice: with the modification
//     times moved forward (visible to stat) and with them put back (only the content differs);
//     the two have different key suffixes.
//   - a panic of the loader is reported as an infrastructure error, not as a violation.
//   - whether a certificate is "self-signed" is a fact about who made its signature, not about which digest or
//     padding was used: a non-CA certificate signed by ANOTHER key is bad under every signature algorithm, also under
//     one the loader's library refuses or is unable to evaluate. A certificate that IS signed by its own key with a
//     retired digest is good (its refusal is recorded, like every refusal of a valid store).
//   - the statement knows two results, whatever the caller's context: under a done context a load may fail as a
//     whole (recorded) or return exactly the certificates of the files; a bad store must still be refused.
package main

import (
	"bytes"
	"context"
	"crypto/rand"
	"crypto/x509"
	"crypto/x509/pkix"
	"encoding/asn1"
	"encoding/pem"
	"errors"
	"fmt"
	"math/big"
	"os"
	"path/filepath"
	"runtime"
	"sort"
	"strings"
	"sync"
	"sync/atomic"
	"time"

	"github.com/notaryproject/notation-go/dir"
	"github.com/notaryproject/notation-go/verifier/truststore"
	"github.com/notaryproject/notation-go/zzverif/lib/hx"
	"github.com/notaryproject/notation-go/zzverif/lib/pki"
)

// ---------------------------------------------------------------- alphabets (hand-labelled)

type verdict int

const (
	good verdict = iota // the statement allows a store holding it to load
	bad                 // the statement demands that the load fails as a whole
	open                // not classified by the statement (see header)
)

type kindDef struct {
	Name string
	CA   verdict // in ca and signingAuthority stores
	TSA  verdict // in tsa stores
	Why  string  // reason class when bad
}

var kinds = []kindDef{
	{"pem-ca", good, good, ""},
	{"der-ca", good, good, ""},
	{"pem-ca+self-signed-leaf", good, open, ""},
	{"self-signed-non-ca", good, open, ""},
	{"leaf-issued-by-ca", bad, bad, "not-ca-or-self-signed"},
	{"intermediate-ca", good, bad, "tsa-non-root"},
	{"garbage", bad, bad, "unparseable"},
	{"empty-file", bad, bad, "no-certificate"},
	{"pem-private-key", bad, bad, "unparseable"},
	{"subdir-with-cert", bad, bad, "not-regular-file"},
	{"symlink-to-cert", bad, bad, "not-regular-file"},
	{"dangling-symlink", bad, bad, "not-regular-file"},
	// two more multi-certificate files (not in DESIGN's list): the SECOND certificate decides
	{"pem-ca+leaf-issued-by-ca", bad, bad, "not-ca-or-self-signed"},
	{"pem-ca+intermediate-ca", good, bad, "tsa-non-root"},
	// collisions by construction: only the judged attribute (who signed) tells them from a good entry
	{"self-issued-leaf-signed-by-other-key", bad, bad, "not-ca-or-self-signed"}, // issuer name == subject name, not a CA, signature of another key
	{"self-signed-leaf-corrupted-signature", bad, bad, "not-ca-or-self-signed"}, // the self-signed-non-ca of the same position with one signature byte changed
	{"self-issued-ca-signed-by-other-key", good, bad, "tsa-non-root"},           // CA, issuer name == subject name, signature of another key
	{"ca-signed-by-own-key-other-issuer-name", good, bad, "tsa-non-root"},
	// ---- the kinds above are the CORE alphabet (longest sequences, histories); those below go into sequences one shorter
	// distinct valid roots that agree in what a de-duplicating loader might key on
	{"root-same-name-and-serial", good, good, ""},          // every position: same subject = issuer, same serial number, another key
	{"root-same-name-and-key", good, good, ""},             // every position: same subject and key (same key identifier), another serial number / validity
	{"pem-two-roots-same-name-and-serial", good, good, ""}, // the collision inside one file
	// the bad certificate is NOT the last one of its file (first of two, middle of three), PEM and concatenated DER
	{"pem-leaf-issued-by-ca+ca", bad, bad, "not-ca-or-self-signed"},
	{"pem-intermediate-ca+ca", good, bad, "tsa-non-root"},
	{"pem-ca+leaf-issued-by-ca+ca", bad, bad, "not-ca-or-self-signed"},
	{"pem-ca+intermediate-ca+ca", good, bad, "tsa-non-root"},
	{"der-intermediate-ca+ca", good, bad, "tsa-non-root"},
	// CA certificates signed by their OWN key whose issuer name differs from the subject name only in a way that a lossy
	// comparison (printed form, parsed fields, common name only) does not see: not self-issued, hence no root
	{"own-key-ca-issuer-has-extra-common-name", good, bad, "tsa-non-root"}, // issuer = subject with one more CN in front of the shared one
	{"own-key-ca-issuer-rdns-reordered", good, bad, "tsa-non-root"},        // issuer = the subject's attributes in another order
	{"own-key-ca-issuer-has-extra-dc", good, bad, "tsa-non-root"},          // issuer = subject plus a domainComponent attribute
	{"own-key-ca-issuer-other-organization", good, bad, "tsa-non-root"},    // issuer = subject with another O, same CN // CA, signature of its own key, issuer name of somebody else
}

const (
	kPEMCA = iota
	kDERCA
	kMulti
	kSelfSigned
	kLeaf
	kInter
	kGarbage
	kEmpty
	kPrivKey
	kSubdir
	kSymlink
	kDangling
	kMultiLeaf
	kMultiInter
	kSelfIssuedLeaf
	kCorruptLeaf
	kSelfIssuedCA
	kOwnKeyOtherName
	kRootSameNameSerial
	kRootSameNameKey
	kBundleSameNameSerial
	kLeafThenCA
	kInterThenCA
	kCALeafCA
	kCAInterCA
	kDERInterThenCA
	kIssuerExtraCN
	kIssuerReordered
	kIssuerExtraDC
	kIssuerOtherO
)

const coreKinds = kOwnKeyOtherName + 1

// the kinds that go into sequences (parts entries, names); the kinds of algs.go follow them (part algorithms)
const seqKinds = kIssuerOtherO + 1

const hole = -1 // no entry at this position (removed, or not yet added)

func kindIndex(name string) int {
	for i, k := range kinds {
		if k.Name == name {
			return i
		}
	}
	return -2
}

type labelled struct {
	Value string
	Label string
	Valid bool
	Alias string // what a normalising loader (case folding, trimming) might turn the value into; "" none
}

// store types; the first nine are the quick alphabet
var storeTypes = []labelled{
	{"ca", "ca", true, "CA"},
	{"signingAuthority", "signingAuthority", true, "signingauthority"},
	{"tsa", "tsa", true, "TSA"},
	{"", "empty", false, ""},
	{"CA", "upper-case", false, "ca"},
	{"ca/x", "separator", false, ""},
	{"../ca", "dotdot", false, ""},
	{"TSA", "upper-case-tsa", false, "tsa"},
	{"signingauthority", "lower-case", false, "signingAuthority"},
	// thorough only
	{"tsa/", "trailing-separator", false, ""},
	{"ca ", "trailing-blank", false, "ca"},
	{".", "dot", false, ""},
	{"ca/../tsa", "dotdot-inside", false, ""},
	{"Tsa", "capitalised-tsa", false, "tsa"},
	{"SIGNINGAUTHORITY", "upper-case-signingAuthority", false, "signingAuthority"},
	{"SigningAuthority", "capitalised-signingAuthority", false, "signingAuthority"},
	{"cA", "mixed-case-ca", false, "ca"},
	{" tsa", "leading-blank", false, "tsa"},
}

const quickTypes = 9

// store names; the first ten are the quick alphabet
var storeNames = []labelled{
	{"s", "plain", true, "S"},
	{"a.b", "dotted", true, "A.B"},
	{"a_b-c", "underscore-dash", true, "A_B-C"},
	{".", "dot", false, ""},
	{"..", "dotdot", false, ""},
	{"...", "three-dots", true, ""}, // a legal, ordinary directory entry name
	{"", "empty", false, ""},
	{"a/b", "separator", false, ""},
	{"a b", "blank", false, "ab"},
	{"s/../s", "dotdot-inside", false, ""},
	// thorough only
	{".s", "leading-dot", true, ".S"},
	{"a..b", "double-dot-inside", true, ""},
	{"-", "dash", true, ""},
	{"S9", "upper-case-digit", true, "s9"},
	{"s/", "trailing-separator", false, ""},
	{"/s", "leading-separator", false, ""},
	{"./s", "dot-separator", false, ""},
	{"a\\b", "backslash", false, ""},
	{"s\n", "trailing-newline", false, "s"},
	{"s*", "star", false, "s"},
	{"s ", "trailing-blank", false, "s"},
}

const quickNames = 10

// names the statement does not classify (see header); never iterated, only looked up
var openNames = map[string]bool{"a b": true, "a\\b": true, "s\n": true, "s*": true, "s ": true}

var pathKinds = []string{"missing", "directory", "symlink-to-directory", "regular-file"}

var validTypes = []string{"signingAuthority", "ca", "tsa"}

func lookup(tab []labelled, v string) (labelled, bool) {
	for _, l := range tab {
		if l.Value == v {
			return l, true
		}
	}
	return labelled{}, false
}

// ---------------------------------------------------------------- material (generated once)

type material struct {
	file  []byte              // content of the regular file (nil: the entry is not a regular file)
	certs []*x509.Certificate // certificates the regular file holds, in file order
	inner []byte              // subdir: content of the file inside; symlink-to-cert: content of the target
}

const maxPos = 4

var (
	mats       [][]material // [kind][position]
	decoyNames = []string{"parent-of-store(type-directory)", "truststore/x509", "sibling-store", "sibling-type"}
	decoys     []*x509.Certificate
	aliasRoots []*x509.Certificate // one per alias store
	aliasInter *x509.Certificate   // a non-root CA (alias content "root+intermediate")
	fileAtPath *x509.Certificate   // content of the regular file found at the store path (path kind regular-file)
	hidden     map[string]string   // raw -> description, certificates that are on disk but in no regular entry
)

func ca(cn string, key int, issuer *pki.Cert) *pki.Cert {
	return pki.Make(pki.Tmpl{Subject: pki.Name(cn), CA: true, PathLen: -1}, pki.Key(pki.EC256, key), issuer)
}

func ee(cn string, key int, issuer *pki.Cert) *pki.Cert {
	return pki.Make(pki.Tmpl{Subject: pki.Name(cn)}, pki.Key(pki.EC256, key), issuer)
}

func one(c *x509.Certificate) material {
	return material{file: pki.PEM(c), certs: []*x509.Certificate{c}}
}

// rawRoot makes a self-signed root CA with a chosen subject, serial number and key (pki.Make picks the serial number itself).
func rawRoot(cn string, serial int64, key int, longer time.Duration) (*x509.Certificate, error) {
	nb, na := pki.DefaultWindow()
	t := &x509.Certificate{
		SerialNumber: big.NewInt(serial), Subject: pki.Name(cn), NotBefore: nb, NotAfter: na.Add(longer),
		BasicConstraintsValid: true, IsCA: true, MaxPathLen: -1, KeyUsage: x509.KeyUsageCertSign | x509.KeyUsageCRLSign,
	}
	k := pki.Key(pki.EC256, key)
	der, err := x509.CreateCertificate(rand.Reader, t, t, k.Public(), k)
	if err != nil {
		return nil, err
	}
	return x509.ParseCertificate(der)
}

// ownKeyCA makes a CA certificate with the given subject and issuer names that is signed by its own key.
func ownKeyCA(subject, issuer pkix.RDNSequence, key int) (*x509.Certificate, error) {
	sub, err := asn1.Marshal(subject)
	if err != nil {
		return nil, err
	}
	iss, err := asn1.Marshal(issuer)
	if err != nil {
		return nil, err
	}
	nb, na := pki.DefaultWindow()
	serialCounter++
	t := &x509.Certificate{
		SerialNumber: big.NewInt(900000 + serialCounter), RawSubject: sub, NotBefore: nb, NotAfter: na,
		BasicConstraintsValid: true, IsCA: true, MaxPathLen: -1, KeyUsage: x509.KeyUsageCertSign | x509.KeyUsageCRLSign,
	}
	k := pki.Key(pki.EC256, key)
	der, err := x509.CreateCertificate(rand.Reader, t, &x509.Certificate{RawSubject: iss}, k.Public(), k)
	if err != nil {
		return nil, err
	}
	return x509.ParseCertificate(der)
}

var serialCounter int64

func buildMaterial() error {
	// key 0: roots, key 1: intermediates, key 2: end-entity certificates, key 3: the private-key file.
	// The keys differ on purpose: an issued certificate must not verify under its own key.
	issuer := ca("c13 issuing root (in no file)", 0, nil)
	keyDER, err := x509.MarshalPKCS8PrivateKey(pki.Key(pki.EC256, 3))
	if err != nil {
		return err
	}
	hidden = map[string]string{}
	if firstAlgKind == 0 {
		registerAlgKinds()
	}
	mats = make([][]material, len(kinds))
	for k := range kinds {
		mats[k] = make([]material, maxPos)
	}
	for p := 0; p < maxPos; p++ {
		c := ca(fmt.Sprintf("c13 pem-ca %d", p), 0, nil)
		mats[kPEMCA][p] = one(c.Cert)
		c = ca(fmt.Sprintf("c13 der-ca %d", p), 0, nil)
		mats[kDERCA][p] = material{file: c.Cert.Raw, certs: []*x509.Certificate{c.Cert}}
		c = ca(fmt.Sprintf("c13 multi-ca %d", p), 0, nil)
		l := ee(fmt.Sprintf("c13 multi-self-signed-leaf %d", p), 2, nil)
		mats[kMulti][p] = material{file: pki.PEM(c.Cert, l.Cert), certs: []*x509.Certificate{c.Cert, l.Cert}}
		l = ee(fmt.Sprintf("c13 self-signed-non-ca %d", p), 2, nil)
		mats[kSelfSigned][p] = one(l.Cert)
		// the same certificate with the last signature byte changed: same size, names, key, serial number
		raw := append([]byte(nil), l.Cert.Raw...)
		raw[len(raw)-1] ^= 0x01
		corrupted, err := x509.ParseCertificate(raw)
		if err != nil {
			return fmt.Errorf("corrupted-signature twin does not parse: %v", err)
		}
		mats[kCorruptLeaf][p] = one(corrupted)
		l = ee(fmt.Sprintf("c13 leaf-issued-by-ca %d", p), 2, issuer)
		mats[kLeaf][p] = one(l.Cert)
		c = ca(fmt.Sprintf("c13 intermediate-ca %d", p), 1, issuer)
		mats[kInter][p] = one(c.Cert)
		mats[kGarbage][p] = material{file: []byte(fmt.Sprintf("this is not a certificate (%d)\n\x00\x01\x02\xff\xfe", p))}
		mats[kEmpty][p] = material{file: []byte{}}
		mats[kPrivKey][p] = material{file: pem.EncodeToMemory(&pem.Block{Type: "PRIVATE KEY", Bytes: keyDER})}
		c = ca(fmt.Sprintf("c13 inside-subdir %d", p), 0, nil)
		mats[kSubdir][p] = material{inner: pki.PEM(c.Cert)}
		hidden[string(c.Cert.Raw)] = "certificate inside a sub-directory"
		c = ca(fmt.Sprintf("c13 symlink-target %d", p), 0, nil)
		mats[kSymlink][p] = material{inner: pki.PEM(c.Cert)}
		hidden[string(c.Cert.Raw)] = "certificate behind a symlink"
		mats[kDangling][p] = material{}
		c = ca(fmt.Sprintf("c13 multi2-ca %d", p), 0, nil)
		l = ee(fmt.Sprintf("c13 multi2-leaf-issued-by-ca %d", p), 2, issuer)
		mats[kMultiLeaf][p] = material{file: pki.PEM(c.Cert, l.Cert), certs: []*x509.Certificate{c.Cert, l.Cert}}
		c = ca(fmt.Sprintf("c13 multi3-ca %d", p), 0, nil)
		c2 := ca(fmt.Sprintf("c13 multi3-intermediate-ca %d", p), 1, issuer)
		mats[kMultiInter][p] = material{file: pki.PEM(c.Cert, c2.Cert), certs: []*x509.Certificate{c.Cert, c2.Cert}}
		// issuer name == subject name, signed by the key of a namesake (key 0), own key 2 / 1
		cn := fmt.Sprintf("c13 self-issued-leaf %d", p)
		l = ee(cn, 2, ca(cn, 0, nil))
		mats[kSelfIssuedLeaf][p] = one(l.Cert)
		cn = fmt.Sprintf("c13 self-issued-ca %d", p)
		c = ca(cn, 1, ca(cn, 0, nil))
		mats[kSelfIssuedCA][p] = one(c.Cert)
		// signed by its own key (key 1) but naming another issuer (a namesake-less CA that has the same key)
		c = ca(fmt.Sprintf("c13 own-key-ca %d", p), 1, ca(fmt.Sprintf("c13 somebody else %d", p), 1, nil))
		mats[kOwnKeyOtherName][p] = one(c.Cert)
		// collisions: the same name and serial number under another key; the same name and key under another serial number
		r1, err := rawRoot("c13 collision root", 4242, 10+p, 0)
		if err != nil {
			return err
		}
		mats[kRootSameNameSerial][p] = one(r1)
		r1, err = rawRoot("c13 re-issued root", int64(5000+p), 20, time.Duration(p+1)*24*time.Hour)
		if err != nil {
			return err
		}
		mats[kRootSameNameKey][p] = one(r1)
		r1, err = rawRoot(fmt.Sprintf("c13 bundle collision root %d", p), 77, 30+2*p, 0)
		if err != nil {
			return err
		}
		r2, err := rawRoot(fmt.Sprintf("c13 bundle collision root %d", p), 77, 31+2*p, 0)
		if err != nil {
			return err
		}
		mats[kBundleSameNameSerial][p] = material{file: pki.PEM(r1, r2), certs: []*x509.Certificate{r1, r2}}
		// the bad certificate first / in the middle
		bundle := func(der bool, cs ...*x509.Certificate) material {
			if !der {
				return material{file: pki.PEM(cs...), certs: cs}
			}
			var b []byte
			for _, x := range cs {
				b = append(b, x.Raw...)
			}
			return material{file: b, certs: cs}
		}
		lf := ee(fmt.Sprintf("c13 bundle leaf-issued-by-ca %d", p), 2, issuer).Cert
		in := ca(fmt.Sprintf("c13 bundle intermediate-ca %d", p), 1, issuer).Cert
		mats[kLeafThenCA][p] = bundle(false, lf, ca(fmt.Sprintf("c13 bundle-a root %d", p), 0, nil).Cert)
		mats[kInterThenCA][p] = bundle(false, in, ca(fmt.Sprintf("c13 bundle-b root %d", p), 0, nil).Cert)
		lf = ee(fmt.Sprintf("c13 bundle3 leaf-issued-by-ca %d", p), 2, issuer).Cert
		in = ca(fmt.Sprintf("c13 bundle3 intermediate-ca %d", p), 1, issuer).Cert
		mats[kCALeafCA][p] = bundle(false, ca(fmt.Sprintf("c13 bundle-c root %d", p), 0, nil).Cert, lf, ca(fmt.Sprintf("c13 bundle-d root %d", p), 0, nil).Cert)
		mats[kCAInterCA][p] = bundle(false, ca(fmt.Sprintf("c13 bundle-e root %d", p), 0, nil).Cert, in, ca(fmt.Sprintf("c13 bundle-f root %d", p), 0, nil).Cert)
		in = ca(fmt.Sprintf("c13 der-bundle intermediate-ca %d", p), 1, issuer).Cert
		mats[kDERInterThenCA][p] = bundle(true, in, ca(fmt.Sprintf("c13 bundle-g root %d", p), 0, nil).Cert)
		// own-key CAs with a near-miss issuer name
		atv := func(oid []int, v string) pkix.RelativeDistinguishedNameSET {
			return pkix.RelativeDistinguishedNameSET{{Type: oid, Value: v}}
		}
		oidC, oidO, oidCN, oidDC := []int{2, 5, 4, 6}, []int{2, 5, 4, 10}, []int{2, 5, 4, 3}, []int{0, 9, 2342, 19200300, 100, 1, 25}
		nearMiss := []struct {
			kind   int
			issuer func(cn string) pkix.RDNSequence
		}{
			{kIssuerExtraCN, func(cn string) pkix.RDNSequence {
				return pkix.RDNSequence{atv(oidC, "US"), atv(oidO, "Verif"), atv(oidCN, "somebody else"), atv(oidCN, cn)}
			}},
			{kIssuerReordered, func(cn string) pkix.RDNSequence {
				return pkix.RDNSequence{atv(oidO, "Verif"), atv(oidC, "US"), atv(oidCN, cn)}
			}},
			{kIssuerExtraDC, func(cn string) pkix.RDNSequence {
				return pkix.RDNSequence{atv(oidC, "US"), atv(oidO, "Verif"), atv(oidDC, "example"), atv(oidCN, cn)}
			}},
			{kIssuerOtherO, func(cn string) pkix.RDNSequence {
				return pkix.RDNSequence{atv(oidC, "US"), atv(oidO, "Somebody Else"), atv(oidCN, cn)}
			}},
		}
		for _, nm := range nearMiss {
			cn := fmt.Sprintf("c13 %s %d", kinds[nm.kind].Name, p)
			subj := pkix.RDNSequence{atv(oidC, "US"), atv(oidO, "Verif"), atv(oidCN, cn)}
			x, err := ownKeyCA(subj, nm.issuer(cn), 1)
			if err != nil {
				return fmt.Errorf("%s: %v", kinds[nm.kind].Name, err)
			}
			mats[nm.kind][p] = one(x)
		}
	}
	for _, n := range decoyNames {
		decoys = append(decoys, ca("c13 decoy "+n, 0, nil).Cert)
	}
	for i := 0; i < 3; i++ {
		aliasRoots = append(aliasRoots, ca(fmt.Sprintf("c13 alias store %d", i), 0, nil).Cert)
	}
	aliasInter = ca("c13 alias store intermediate", 1, issuer).Cert
	fileAtPath = ca("c13 regular file at the store path", 0, nil).Cert
	if err := buildAlgMaterial(); err != nil {
		return err
	}

	// the labels of the alphabet must be true of the material (checked with crypto/x509 only)
	ownKey := func(c *x509.Certificate) bool {
		return c.CheckSignature(c.SignatureAlgorithm, c.RawTBSCertificate, c.Signature) == nil
	}
	selfIssued := func(c *x509.Certificate) bool { return bytes.Equal(c.RawSubject, c.RawIssuer) }
	selfSigned := func(c *x509.Certificate) bool { return ownKey(c) && selfIssued(c) }
	for p := 0; p < maxPos; p++ {
		for _, k := range []int{kPEMCA, kDERCA} {
			if c := mats[k][p].certs[0]; !c.IsCA || !selfSigned(c) {
				return fmt.Errorf("material %s/%d is not a self-signed CA", kinds[k].Name, p)
			}
		}
		if m := mats[kMulti][p].certs; !m[0].IsCA || !selfSigned(m[0]) || m[1].IsCA || !selfSigned(m[1]) {
			return fmt.Errorf("material multi/%d mislabelled", p)
		}
		if c := mats[kSelfSigned][p].certs[0]; c.IsCA || !selfSigned(c) {
			return fmt.Errorf("material self-signed-non-ca/%d mislabelled", p)
		}
		if c := mats[kLeaf][p].certs[0]; c.IsCA || ownKey(c) || selfIssued(c) || c.CheckSignatureFrom(issuer.Cert) != nil {
			return fmt.Errorf("material leaf-issued-by-ca/%d mislabelled", p)
		}
		if c := mats[kInter][p].certs[0]; !c.IsCA || ownKey(c) || selfIssued(c) || c.CheckSignatureFrom(issuer.Cert) != nil {
			return fmt.Errorf("material intermediate-ca/%d mislabelled", p)
		}
		if m := mats[kMultiLeaf][p].certs; !m[0].IsCA || !selfSigned(m[0]) || m[1].IsCA || ownKey(m[1]) {
			return fmt.Errorf("material pem-ca+leaf-issued-by-ca/%d mislabelled", p)
		}
		if m := mats[kMultiInter][p].certs; !m[0].IsCA || !selfSigned(m[0]) || !m[1].IsCA || ownKey(m[1]) {
			return fmt.Errorf("material pem-ca+intermediate-ca/%d mislabelled", p)
		}
		if c := mats[kSelfIssuedLeaf][p].certs[0]; c.IsCA || ownKey(c) || !selfIssued(c) {
			return fmt.Errorf("material self-issued-leaf-signed-by-other-key/%d mislabelled", p)
		}
		if c, o := mats[kCorruptLeaf][p].certs[0], mats[kSelfSigned][p].certs[0]; c.IsCA || ownKey(c) || !selfIssued(c) ||
			len(c.Raw) != len(o.Raw) || !bytes.Equal(c.RawTBSCertificate, o.RawTBSCertificate) || len(mats[kCorruptLeaf][p].file) != len(mats[kSelfSigned][p].file) {
			return fmt.Errorf("material self-signed-leaf-corrupted-signature/%d mislabelled", p)
		}
		if c := mats[kSelfIssuedCA][p].certs[0]; !c.IsCA || ownKey(c) || !selfIssued(c) {
			return fmt.Errorf("material self-issued-ca-signed-by-other-key/%d mislabelled", p)
		}
		if c := mats[kOwnKeyOtherName][p].certs[0]; !c.IsCA || !ownKey(c) || selfIssued(c) {
			return fmt.Errorf("material ca-signed-by-own-key-other-issuer-name/%d mislabelled", p)
		}
		for _, k := range []int{kRootSameNameSerial, kRootSameNameKey, kBundleSameNameSerial} {
			for _, c := range mats[k][p].certs {
				if !c.IsCA || !selfSigned(c) {
					return fmt.Errorf("material %s/%d is not a self-signed CA", kinds[k].Name, p)
				}
			}
		}
		if q := (p + 1) % maxPos; true {
			a, b := mats[kRootSameNameSerial][p].certs[0], mats[kRootSameNameSerial][q].certs[0]
			if bytes.Equal(a.Raw, b.Raw) || !bytes.Equal(a.RawIssuer, b.RawIssuer) || a.SerialNumber.Cmp(b.SerialNumber) != 0 || bytes.Equal(a.RawSubjectPublicKeyInfo, b.RawSubjectPublicKeyInfo) {
				return fmt.Errorf("material root-same-name-and-serial/%d,%d does not collide as labelled", p, q)
			}
			a, b = mats[kRootSameNameKey][p].certs[0], mats[kRootSameNameKey][q].certs[0]
			if bytes.Equal(a.Raw, b.Raw) || !bytes.Equal(a.RawSubject, b.RawSubject) || !bytes.Equal(a.RawSubjectPublicKeyInfo, b.RawSubjectPublicKeyInfo) || a.SerialNumber.Cmp(b.SerialNumber) == 0 {
				return fmt.Errorf("material root-same-name-and-key/%d,%d does not collide as labelled", p, q)
			}
		}
		if m := mats[kBundleSameNameSerial][p].certs; bytes.Equal(m[0].Raw, m[1].Raw) || !bytes.Equal(m[0].RawIssuer, m[1].RawIssuer) || m[0].SerialNumber.Cmp(m[1].SerialNumber) != 0 {
			return fmt.Errorf("material pem-two-roots-same-name-and-serial/%d does not collide as labelled", p)
		}
		root := func(c *x509.Certificate) bool { return c.IsCA && selfSigned(c) }
		leaf := func(c *x509.Certificate) bool { return !c.IsCA && !ownKey(c) && !selfIssued(c) }
		inter := func(c *x509.Certificate) bool { return c.IsCA && !ownKey(c) && !selfIssued(c) }
		if m := mats[kLeafThenCA][p].certs; !leaf(m[0]) || !root(m[1]) {
			return fmt.Errorf("material pem-leaf-issued-by-ca+ca/%d mislabelled", p)
		}
		if m := mats[kCALeafCA][p].certs; !root(m[0]) || !leaf(m[1]) || !root(m[2]) {
			return fmt.Errorf("material pem-ca+leaf-issued-by-ca+ca/%d mislabelled", p)
		}
		if m := mats[kCAInterCA][p].certs; !root(m[0]) || !inter(m[1]) || !root(m[2]) {
			return fmt.Errorf("material pem-ca+intermediate-ca+ca/%d mislabelled", p)
		}
		for _, k := range []int{kIssuerExtraCN, kIssuerReordered, kIssuerExtraDC, kIssuerOtherO} {
			if c := mats[k][p].certs[0]; !c.IsCA || !ownKey(c) || selfIssued(c) || c.CheckSignatureFrom(c) != nil {
				return fmt.Errorf("material %s/%d mislabelled", kinds[k].Name, p)
			}
		}
		if c := mats[kIssuerExtraCN][p].certs[0]; c.Subject.CommonName != c.Issuer.CommonName {
			return fmt.Errorf("material own-key-ca-issuer-has-extra-common-name/%d: the parsed common names differ", p)
		}
		for _, k := range []int{kInterThenCA, kDERInterThenCA} {
			if m := mats[k][p].certs; !inter(m[0]) || !root(m[1]) {
				return fmt.Errorf("material %s/%d mislabelled", kinds[k].Name, p)
			}
		}
	}
	return nil
}

// ---------------------------------------------------------------- cases

// step is a later state of the same store path, followed by another load on the same trust-store object.
type step struct {
	Path    string   `json:"path_kind"`
	Entries []string `json:"entries"` // "" = no entry at this position
	Ctx     string   `json:"ctx,omitempty"`
}

type loadCase struct {
	Part    string   `json:"part"` // "entries" | "paths" | "history" | "path-history"
	Type    string   `json:"type"`
	Name    string   `json:"name"`
	Path    string   `json:"path_kind"`
	Entries []string `json:"entries"` // entry kinds in file-name order (position i is file "f<i>-entry"; "" = none)
	// Prior 1: the same trust-store instance first loaded the sibling store of the same type ("sibling"), the
	// store of the same name in another type (both hold a valid decoy) and the alias stores; the judged load
	// must behave as on a fresh instance.
	Prior int `json:"prior,omitempty"`
	// AliasContent: "" = every alias store holds one root; "root+intermediate" = a root and a non-root CA.
	AliasContent string `json:"alias_content,omitempty"`
	// Then: the store is changed in place and loaded again by the same object.
	Then []step `json:"then,omitempty"`
	// Bulk: the store additionally holds this many ordinary files "b<i>.pem", each with its own valid root (they sort
	// before "f<i>-entry" and after the entry-name style "leading-dash").
	Bulk int `json:"bulk,omitempty"`
	// Names: the file-name style of the entry at each position ("" or missing = "f<i>-entry"), see entryStyles.
	Names []string `json:"names,omitempty"`
	// Mtimes: "" = the modification times of the directory and of overwritten files are put back after the
	// change (only the content differs); "moved" = they are set two seconds later (the change is visible to stat).
	Mtimes string `json:"mtimes,omitempty"`
	// Ctx: the context handed to the (first) load, see ctxKinds; "" = context.Background().
	Ctx string `json:"ctx,omitempty"`
}

func (c loadCase) String() string {
	s := fmt.Sprintf("%s|type=%q|name=%q|path=%s|entries=%s|prior=%d", c.Part, c.Type, c.Name, c.Path, strings.Join(c.Entries, ","), c.Prior)
	if c.AliasContent != "" {
		s += "|alias=" + c.AliasContent
	}
	if c.Ctx != "" {
		s += "|ctx=" + c.Ctx
	}
	for _, t := range c.Then {
		s += fmt.Sprintf("|then path=%s entries=%s", t.Path, strings.Join(t.Entries, ","))
		if c.Part == "context" {
			s += "|ctx=" + t.Ctx
		}
	}
	if c.Mtimes != "" {
		s += "|mtimes=" + c.Mtimes
	}
	if len(c.Names) > 0 {
		s += "|names=" + strings.Join(c.Names, ",")
	}
	if c.Bulk > 0 {
		s += fmt.Sprintf("|bulk=%d", c.Bulk)
	}
	return s
}

// the most ordinary content (two PEM root CAs): the positive controls of the paths part must not depend
// on anything a stricter but still correct loader might refuse
var goodContent = []string{"pem-ca", "pem-ca"}

func sequences(n, maxLen int) [][]int {
	out := [][]int{{}}
	var rec func(cur []int)
	rec = func(cur []int) {
		if len(cur) == maxLen {
			return
		}
		for k := 0; k < n; k++ {
			next := append(append([]int(nil), cur...), k)
			out = append(out, next)
			rec(next)
		}
	}
	rec(nil)
	// shortest first: the first (= reported) case of a violation key is a minimal one
	sort.SliceStable(out, func(a, b int) bool { return len(out[a]) < len(out[b]) })
	return out
}

func kindNames(s []int) []string {
	names := make([]string, len(s))
	for i, k := range s {
		if k >= 0 {
			names[i] = kinds[k].Name
		}
	}
	return names
}

// singleEdits returns every content that differs from a in one position: an entry replaced by
// another kind, an entry removed, an entry added behind the last one.
func singleEdits(a []int) [][]int {
	var out [][]int
	for i := range a {
		for k := 0; k < coreKinds; k++ {
			if k != a[i] {
				b := append([]int(nil), a...)
				b[i] = k
				out = append(out, b)
			}
		}
		b := append([]int(nil), a...)
		b[i] = hole
		out = append(out, b)
	}
	if len(a) < maxPos {
		for k := 0; k < coreKinds; k++ {
			out = append(out, append(append([]int(nil), a...), k))
		}
	}
	return out
}

// ---------------------------------------------------------------- generator: description -> disk

func within(p, base string) bool {
	return p == base || strings.HasPrefix(p, base+string(filepath.Separator))
}

// entryStyles: how the file of an entry is called. The statement speaks of EVERY entry of the directory: no name
// makes an entry exempt (hidden files, backup copies, other extensions, bookkeeping files of a desktop).
var entryStyles = []struct{ Style, Format string }{
	{"", "f%d-entry"},
	{"dot", ".f%d-entry"},
	{"dot-pem", ".f%d-entry.pem"},
	{"double-dot", "..f%d-entry"},
	{"ds-store", ".DS_Store%.0d"},
	{"nfs", ".nfs0000%d"},
	{"only-extension", ".pem%.0d"},
	{"pem", "f%d-entry.pem"},
	{"crt", "f%d-entry.crt"},
	{"cer", "f%d-entry.cer"},
	{"der", "f%d-entry.der"},
	{"upper-pem", "F%d-ENTRY.PEM"},
	{"txt", "f%d-entry.txt"},
	{"key", "f%d-entry.key"},
	{"bak", "f%d-entry.pem.bak"},
	{"tilde", "f%d-entry.pem~"},
	{"hash", "#f%d-entry.pem#"},
	{"blank", "f%d entry.pem"},
	{"readme", "README%.0d"},
	{"thumbs", "Thumbs.db%.0d"},
	{"trailing-dot", "f%d-entry."},
	{"underscore", "_f%d-entry"},
	{"leading-dash", "-f%d-entry"},
	{"non-ascii", "f%d-entr\u00e9.pem"},
	{"long", "f%d-" + "0123456789012345678901234567890123456789012345678901234567890123456789012345678901234567890123456789" + ".pem"},
}

// file names do not depend on the kind, so that an entry can be replaced in place
func entryFileName(pos int, names []string) string {
	style := ""
	if pos < len(names) {
		style = names[pos]
	}
	for _, s := range entryStyles {
		if s.Style == style {
			n := fmt.Sprintf(s.Format, pos)
			if strings.Contains(s.Format, "%.0d") { // position-independent name (used for one entry of a store only)
				n = strings.Replace(s.Format, "%.0d", "", 1)
			}
			return n
		}
	}
	return "unknown-style-" + style
}

// placeEntry creates the entry of kind k at position pos in contentDir; things that must
// live outside the store (symlink targets) go to <root>/elsewhere.
func placeEntry(root, contentDir string, pos, k int, names []string) error {
	elsewhere := filepath.Join(root, "elsewhere")
	m := mats[k][pos]
	p := filepath.Join(contentDir, entryFileName(pos, names))
	switch k {
	case kSubdir:
		if err := os.Mkdir(p, 0o755); err != nil {
			return err
		}
		return os.WriteFile(filepath.Join(p, "inner.pem"), m.inner, 0o644)
	case kSymlink:
		if err := os.MkdirAll(elsewhere, 0o755); err != nil {
			return err
		}
		t := filepath.Join(elsewhere, fmt.Sprintf("target-%d.pem", pos))
		if err := os.WriteFile(t, m.inner, 0o644); err != nil {
			return err
		}
		return os.Symlink(t, p)
	case kDangling:
		return os.Symlink(filepath.Join(elsewhere, fmt.Sprintf("no-such-file-%d", pos)), p)
	}
	return os.WriteFile(p, m.file, 0o644)
}

var (
	bulkMu    sync.Mutex
	bulkCerts []*x509.Certificate
)

// ensureBulk makes sure that n distinct valid roots for bulk files exist (generated in parallel, once).
func ensureBulk(n int) {
	bulkMu.Lock()
	defer bulkMu.Unlock()
	have := len(bulkCerts)
	if n <= have {
		return
	}
	pki.Key(pki.EC256, 0)
	bulkCerts = append(bulkCerts, make([]*x509.Certificate, n-have)...)
	var wg sync.WaitGroup
	workers := runtime.GOMAXPROCS(0)
	for w := 0; w < workers; w++ {
		wg.Add(1)
		go func(w int) {
			defer wg.Done()
			for i := have + w; i < n; i += workers {
				bulkCerts[i] = ca(fmt.Sprintf("c13 bulk %d", i), 0, nil).Cert
			}
		}(w)
	}
	wg.Wait()
}

func populate(root, contentDir string, entries []int, names []string, bulk int) error {
	if err := os.MkdirAll(contentDir, 0o755); err != nil {
		return err
	}
	for i := 0; i < bulk; i++ {
		if err := os.WriteFile(filepath.Join(contentDir, fmt.Sprintf("b%06d.pem", i)), pki.PEM(bulkCerts[i]), 0o644); err != nil {
			return err
		}
	}
	for pos, k := range entries {
		if k == hole {
			continue
		}
		if err := placeEntry(root, contentDir, pos, k, names); err != nil {
			return err
		}
	}
	return nil
}

func storePathOf(root string, c loadCase) string {
	return filepath.Join(root, "truststore", "x509", c.Type, c.Name) // the layout truststore/x509/<type>/<name>
}

// placeStore creates the object of the given kind at the store path.
func placeStore(root, storePath, pathKind string, entries []int, names []string, bulk int) error {
	switch pathKind {
	case "missing":
		return nil
	case "directory":
		return populate(root, storePath, entries, names, bulk)
	case "symlink-to-directory":
		realDir := filepath.Join(root, "elsewhere", "real-store")
		if err := populate(root, realDir, entries, names, bulk); err != nil {
			return err
		}
		return os.Symlink(realDir, storePath)
	case "regular-file":
		return os.WriteFile(storePath, pki.PEM(fileAtPath), 0o644)
	}
	return fmt.Errorf("unknown path kind %q", pathKind)
}

// otherTypeOf is a valid store type that is neither the case's type nor its alias.
func otherTypeOf(c loadCase) string {
	tl, _ := lookup(storeTypes, c.Type)
	for _, t := range validTypes {
		if t != c.Type && t != tl.Alias {
			return t
		}
	}
	return validTypes[0]
}

// aliasStores: the (type, name) pairs a normalising loader might look at instead of the named store.
func aliasStores(c loadCase) [][2]string {
	tl, _ := lookup(storeTypes, c.Type)
	nl, _ := lookup(storeNames, c.Name)
	var out [][2]string
	if tl.Alias != "" {
		out = append(out, [2]string{tl.Alias, c.Name})
	}
	if nl.Alias != "" {
		out = append(out, [2]string{c.Type, nl.Alias})
	}
	if tl.Alias != "" && nl.Alias != "" {
		out = append(out, [2]string{tl.Alias, nl.Alias})
	}
	return out
}

// build materialises the first state of the case under root and returns which decoys were placed.
func build(root string, c loadCase, entries []int) (placed []bool, err error) {
	x509dir := filepath.Join(root, "truststore", "x509")
	storePath := storePathOf(root, c)
	if !within(storePath, root) || storePath == root {
		return nil, fmt.Errorf("store path %q leaves the scratch root", storePath)
	}
	if err := os.MkdirAll(filepath.Dir(storePath), 0o755); err != nil {
		return nil, err
	}
	if err := placeStore(root, storePath, c.Path, entries, c.Names, c.Bulk); err != nil {
		return nil, err
	}
	parent := filepath.Dir(storePath)
	locs := []string{
		filepath.Join(parent, "decoy-parent.pem"),
		filepath.Join(x509dir, "decoy-x509.pem"),
		filepath.Join(parent, "sibling", "decoy-sibling-store.pem"),
		filepath.Join(x509dir, otherTypeOf(c), c.Name, "decoy-sibling-type.pem"),
	}
	placed = make([]bool, len(locs))
	for i, l := range locs {
		// a decoy inside the object at the store path would be part of the store (or cannot be created)
		if within(l, storePath) || !within(l, root) {
			continue
		}
		if err := os.MkdirAll(filepath.Dir(l), 0o755); err != nil {
			return nil, fmt.Errorf("decoy %s: %v", decoyNames[i], err)
		}
		if err := os.WriteFile(l, pki.PEM(decoys[i]), 0o644); err != nil {
			return nil, fmt.Errorf("decoy %s: %v", decoyNames[i], err)
		}
		placed[i] = true
	}
	// alias stores: real, loadable stores where a normalised type / name would point to
	for i, a := range aliasStores(c) {
		d := filepath.Join(x509dir, a[0], a[1])
		if within(d, storePath) || within(storePath, d) || !within(d, x509dir) || d == x509dir {
			continue
		}
		if err := os.MkdirAll(d, 0o755); err != nil {
			return nil, fmt.Errorf("alias store %q/%q: %v", a[0], a[1], err)
		}
		if err := os.WriteFile(filepath.Join(d, "alias-0-root.pem"), pki.PEM(aliasRoots[i]), 0o644); err != nil {
			return nil, err
		}
		if c.AliasContent == "root+intermediate" {
			if err := os.WriteFile(filepath.Join(d, "alias-1-intermediate.pem"), pki.PEM(aliasInter), 0o644); err != nil {
				return nil, err
			}
		}
	}
	return placed, nil
}

func isRegularKind(k int) bool { return k >= 0 && mats[k][0].file != nil }

// applyStep turns the object at the store path from state (prevPath, prev) into (nextPath, next).
// Directory -> directory is done IN PLACE: only the positions that differ are touched, a regular file
// that becomes another regular file is overwritten (same inode), and the modification times of the
// directory and of overwritten files are put back, so that nothing but the content differs.
func applyStep(root, storePath, prevPath string, prev []int, nextPath string, next []int, moved bool, names []string) error {
	if prevPath != "directory" || nextPath != "directory" {
		if err := os.RemoveAll(storePath); err != nil { // a symlink is removed, not followed
			return err
		}
		if err := os.RemoveAll(filepath.Join(root, "elsewhere", "real-store")); err != nil {
			return err
		}
		return placeStore(root, storePath, nextPath, next, names, 0)
	}
	di, err := os.Lstat(storePath)
	if err != nil {
		return err
	}
	n := len(prev)
	if len(next) > n {
		n = len(next)
	}
	at := func(s []int, i int) int {
		if i < len(s) {
			return s[i]
		}
		return hole
	}
	shift := time.Duration(0)
	if moved {
		shift = 2 * time.Second
	}
	dirTouched := false
	for pos := 0; pos < n; pos++ {
		pk, nk := at(prev, pos), at(next, pos)
		if pk == nk {
			continue
		}
		p := filepath.Join(storePath, entryFileName(pos, names))
		if isRegularKind(pk) && isRegularKind(nk) {
			fi, err := os.Lstat(p)
			if err != nil {
				return err
			}
			if err := os.WriteFile(p, mats[nk][pos].file, 0o644); err != nil {
				return err
			}
			if err := os.Chtimes(p, fi.ModTime().Add(shift), fi.ModTime().Add(shift)); err != nil {
				return err
			}
			continue
		}
		dirTouched = true
		if pk != hole {
			if err := os.RemoveAll(p); err != nil {
				return err
			}
		}
		if nk != hole {
			if err := placeEntry(root, storePath, pos, nk, names); err != nil {
				return err
			}
		}
	}
	// overwriting a file does not touch the directory; creating / removing an entry does
	dm := di.ModTime()
	if dirTouched {
		dm = dm.Add(shift)
	}
	return os.Chtimes(storePath, dm, dm)
}

// ---------------------------------------------------------------- reference loader (over the description)

type expectation struct {
	Outcome  string   // "load" | "refuse" | "open"
	Reason   string   // class of the reason
	FirstBad string   // first bad entry kind in file-name order ("" if none)
	Certs    [][]byte // raw certificates of all regular-file entries, in file-name order
	NonBad   [][]byte // raw certificates of the entries that are not bad
	Mixed    bool     // at least one entry that is not bad next to a bad one
}

func reference(c loadCase, pathKind string, entries []int) (expectation, error) {
	var e expectation
	t, ok := lookup(storeTypes, c.Type)
	if !ok {
		return e, fmt.Errorf("store type %q has no hand-written label", c.Type)
	}
	n, ok := lookup(storeNames, c.Name)
	if !ok {
		return e, fmt.Errorf("store name %q has no hand-written label", c.Name)
	}
	nBad, nNonBad, anyOpen := 0, c.Bulk, false
	for i := 0; i < c.Bulk; i++ {
		e.Certs = append(e.Certs, bulkCerts[i].Raw)
		e.NonBad = append(e.NonBad, bulkCerts[i].Raw)
	}
	for pos, k := range entries {
		if k == hole {
			continue
		}
		v := kinds[k].CA
		if c.Type == "tsa" {
			v = kinds[k].TSA
		}
		for _, x := range mats[k][pos].certs {
			e.Certs = append(e.Certs, x.Raw)
			if v != bad {
				e.NonBad = append(e.NonBad, x.Raw)
			}
		}
		switch v {
		case bad:
			nBad++
			if e.FirstBad == "" {
				e.FirstBad = kinds[k].Name
				e.Reason = "bad-entry(" + kinds[k].Why + ")"
			}
		case open:
			anyOpen = true
			nNonBad++
		default:
			nNonBad++
		}
	}
	e.Mixed = nBad > 0 && nNonBad > 0
	switch {
	case !t.Valid:
		e.Outcome, e.Reason = "refuse", "invalid-type"
	case !n.Valid && !openNames[c.Name]:
		e.Outcome, e.Reason = "refuse", "invalid-name"
	case pathKind != "directory":
		e.Outcome, e.Reason = "refuse", "store-path-"+pathKind
	case nBad+nNonBad == 0:
		e.Outcome, e.Reason = "refuse", "empty-store"
	case nBad > 0:
		e.Outcome = "refuse"
	case anyOpen:
		e.Outcome, e.Reason = "open", "tsa-self-signed-non-ca(unclassified)"
	default:
		e.Outcome, e.Reason = "load", "valid"
	}
	if openNames[c.Name] && e.Outcome == "load" {
		e.Outcome, e.Reason = "open", "name-not-classified-by-statement"
	}
	return e, nil
}

// ---------------------------------------------------------------- one case

type finding struct{ key, what string }

type result struct {
	class      string
	loaded     bool
	nontrivial bool
	orderDiff  bool
	findings   []finding
	recorded   []string // observations the statement does not demand (evidence only)
	infra      string
	detail     string
}

func errClass(err error) string {
	var te truststore.TrustStoreError
	var ce truststore.CertificateError
	switch {
	case errors.As(err, &te):
		return "TrustStoreError"
	case errors.As(err, &ce):
		return "CertificateError"
	}
	return "other-error"
}

func multisetDiff(got, want [][]byte) (extra, missing int) {
	m := map[string]int{}
	for _, w := range want {
		m[string(w)]++
	}
	for _, g := range got {
		if m[string(g)] > 0 {
			m[string(g)]--
		} else {
			extra++
		}
	}
	for _, v := range m {
		missing += v
	}
	return
}

func uniqueKinds(entries []string) string {
	seen := map[string]bool{}
	var u []string
	for _, e := range entries {
		if e != "" && !seen[e] {
			seen[e] = true
			u = append(u, e)
		}
	}
	sort.Strings(u)
	if len(u) == 0 {
		return "none"
	}
	return strings.Join(u, "+")
}

// judged is the verdict on one load.
type judged struct {
	class      string // outcome class without the part/type prefix
	loaded     bool
	nontrivial bool
	orderDiff  bool
	detail     string
}

// judge compares one real load with the reference for the state (pathKind, entryNames) of case c.
func judge(c loadCase, pathKind string, ctxKind string, entryNames []string, exp expectation, certs []*x509.Certificate, lerr error, placed []bool, add func(key, format string, a ...any), record func(class string)) (j judged) {
	tl, _ := lookup(storeTypes, c.Type)
	nl, _ := lookup(storeNames, c.Name)
	if lerr != nil {
		j.detail = fmt.Sprintf("refused (%s): %v", errClass(lerr), lerr)
		if len(certs) > 0 {
			add("load/certificates-returned-with-error", "%d certificates returned together with error %v", len(certs), lerr)
		} else if certs != nil {
			record("recorded:load/empty-non-nil-list-returned-with-error")
		}
		switch exp.Outcome {
		case "load":
			if !ctxLive(ctxKind) {
				// a load given up as a whole because the caller's context is done is one of the two results the statement knows
				record("recorded:load/refused-valid-store-under-done-context:" + ctxKind)
				j.class = "refused-under-done-context(allowed)"
				break
			}
			// not demanded by the statement (implication): evidence only
			record("recorded:load/refused-valid-store:" + tl.Label)
			j.class = "refused-although-valid(recorded)"
		case "open":
			j.class = "refused:" + exp.Reason
		default:
			j.class = "refused:" + exp.Reason + ":" + errClass(lerr)
			// non-trivial refusals: something loadable is on disk and must nevertheless be refused
			j.nontrivial = exp.Mixed || (c.Part == "paths" && pathKind != "missing")
		}
		return
	}

	// ---- success
	j.loaded = true
	j.detail = fmt.Sprintf("loaded %d certificates", len(certs))
	got := make([][]byte, 0, len(certs))
	for _, x := range certs {
		if x == nil {
			add("load/nil-certificate-returned", "a nil certificate was returned")
			continue
		}
		got = append(got, x.Raw)
		for i, d := range decoys {
			if placed[i] && bytes.Equal(x.Raw, d.Raw) {
				add("load/decoy-returned:"+decoyNames[i], "a certificate from outside the named store was returned (%s)", x.Subject)
			}
		}
		for _, d := range append([]*x509.Certificate{aliasInter}, aliasRoots...) {
			if bytes.Equal(x.Raw, d.Raw) {
				add("load/decoy-returned:alias-store(normalised-type-or-name)", "a certificate of another store (the type/name in another spelling) was returned (%s)", x.Subject)
			}
		}
		if what, ok := hidden[string(x.Raw)]; ok {
			add("load/certificate-from-non-regular-entry", "returned %s (%s)", what, x.Subject)
		}
		if bytes.Equal(x.Raw, fileAtPath.Raw) {
			add("load/certificate-of-file-at-store-path", "the regular file at the store path was loaded as a store")
		}
	}
	if exp.Outcome == "refuse" {
		switch exp.Reason {
		case "invalid-type":
			add("load/accepted-invalid-type:"+tl.Label, "store type %q was accepted, %d certificates returned", c.Type, len(certs))
		case "invalid-name":
			add("load/accepted-invalid-name:"+nl.Label, "store name %q was accepted, %d certificates returned", c.Name, len(certs))
		case "empty-store":
			add("load/accepted-empty-store", "an empty store loaded without error (%d certificates)", len(certs))
		default:
			if strings.HasPrefix(exp.Reason, "store-path-") {
				add("load/accepted-non-directory:"+pathKind, "the store path is %s but the load succeeded with %d certificates", pathKind, len(certs))
				break
			}
			extra, _ := multisetDiff(got, exp.NonBad)
			if len(got) > 0 && extra == 0 {
				add("load/partial-set:"+exp.FirstBad, "the store holds a bad entry (%s) but %d certificates of the other entries were returned", exp.FirstBad, len(got))
			} else {
				add("load/accepted-bad-entry:"+exp.FirstBad, "the store holds a bad entry (%s) but the load succeeded with %d certificates", exp.FirstBad, len(got))
			}
		}
		return
	}
	// load or open: exactly the certificates of the files
	extra, missing := multisetDiff(got, exp.Certs)
	if extra > 0 {
		add("load/wrong-set:extra-certificate", "%d returned certificates are not in the files of the store (returned %d, files hold %d)", extra, len(got), len(exp.Certs))
	}
	if missing > 0 {
		add("load/wrong-set:missing-certificate", "%d certificates of the files were not returned (returned %d, files hold %d)", missing, len(got), len(exp.Certs))
	}
	if extra == 0 && missing == 0 {
		for i := range got {
			if !bytes.Equal(got[i], exp.Certs[i]) {
				j.orderDiff = true
			}
		}
	}
	if exp.Outcome == "open" {
		j.class = "loaded:" + exp.Reason
	} else {
		j.class = "loaded"
		if j.orderDiff {
			j.class += "(not-in-file-name-order)"
		}
	}
	j.nontrivial = len(exp.Certs) >= 2
	return
}

func runCase(scratch string, idx int, c loadCase) (res result) {
	ensureBulk(c.Bulk)
	steps := append([]step{{Path: c.Path, Entries: c.Entries, Ctx: c.Ctx}}, c.Then...)
	ents := make([][]int, len(steps))
	exps := make([]expectation, len(steps))
	for si, st := range steps {
		if len(st.Entries) > maxPos {
			res.infra = "too many entries"
			return
		}
		for pos := range st.Entries {
			if strings.HasPrefix(entryFileName(pos, c.Names), "unknown-style-") {
				res.infra = "unknown entry name style in " + strings.Join(c.Names, ",")
				return
			}
		}
		ents[si] = make([]int, len(st.Entries))
		for i, n := range st.Entries {
			if n == "" {
				ents[si][i] = hole
			} else if ents[si][i] = kindIndex(n); ents[si][i] < 0 {
				res.infra = fmt.Sprintf("unknown entry kind %q", n)
				return
			}
		}
		var err error
		if exps[si], err = reference(c, st.Path, ents[si]); err != nil {
			res.infra = err.Error()
			return
		}
	}
	// sharded so that parallel cases do not contend for one parent directory
	root := filepath.Join(scratch, fmt.Sprintf("shard-%02d", idx%64), fmt.Sprintf("case-%07d", idx))
	_ = os.RemoveAll(root)
	defer os.RemoveAll(root)
	placed, err := build(root, c, ents[0])
	if err != nil {
		res.infra = fmt.Sprintf("cannot build %s: %v", c, err)
		return
	}
	storePath := storePathOf(root, c)

	// ---- the real code: ONE trust-store object per case
	ts := truststore.NewX509TrustStore(dir.NewSysFS(root))
	if c.Prior == 1 {
		_, _ = ts.GetCertificates(context.Background(), truststore.Type(c.Type), "sibling")
		_, _ = ts.GetCertificates(context.Background(), truststore.Type(otherTypeOf(c)), c.Name)
		for _, a := range aliasStores(c) {
			_, _ = ts.GetCertificates(context.Background(), truststore.Type(a[0]), a[1])
		}
	}
	tl, _ := lookup(storeTypes, c.Type)
	typeClass := tl.Label
	if !tl.Valid {
		typeClass = "invalid-type"
	}
	var outcomes, details []string
	for si, st := range steps {
		if si > 0 {
			if err := applyStep(root, storePath, steps[si-1].Path, ents[si-1], st.Path, ents[si], c.Mtimes == "moved", c.Names); err != nil {
				res.infra = fmt.Sprintf("cannot change %s (step %d): %v", c, si, err)
				return
			}
		}
		ctxKind := c.Ctx
		if si > 0 {
			ctxKind = st.Ctx
		}
		ctx, cancel, err := makeCtx(ctxKind)
		if err != nil {
			res.infra = err.Error()
			return
		}
		certs, lerr := ts.GetCertificates(ctx, truststore.Type(c.Type), c.Name)
		cancel()
		add := func(key, format string, a ...any) {
			if c.Prior == 1 {
				key += ":after-other-loads-on-same-trust-store"
			}
			if c.Part == "names" {
				for _, n := range c.Names {
					if n != "" {
						key += ":entry-named-" + n
					}
				}
			}
			if ctxKind != "" {
				key += ":context-" + ctxKind
			}
			if si > 0 && c.Part == "context" {
				key += ":reload-after-load-under-" + steps[si-1].Ctx + "-context-on-same-trust-store"
			} else if si > 0 && c.Part == "history" && c.Mtimes != "moved" {
				key += ":reload-after-stat-invisible-change-on-same-trust-store"
			} else if si > 0 {
				key += ":reload-after-change-on-same-trust-store"
			}
			what := fmt.Sprintf(format, a...)
			if si > 0 && c.Part == "context" {
				what = fmt.Sprintf("load %d, same store, after a load under a done context: ", si+1) + what
			} else if si > 0 {
				what = fmt.Sprintf("load %d, after the store was changed: ", si+1) + what
			}
			res.findings = append(res.findings, finding{key, what + " [" + c.String() + "]"})
		}
		j := judge(c, st.Path, ctxKind, st.Entries, exps[si], certs, lerr, placed, add, func(class string) { res.recorded = append(res.recorded, class) })
		details = append(details, j.detail)
		if j.loaded {
			outcomes = append(outcomes, "loaded")
			res.loaded = true
		} else {
			outcomes = append(outcomes, "refused")
		}
		res.orderDiff = res.orderDiff || j.orderDiff
		if len(steps) == 1 {
			if j.class != "" {
				res.class = c.Part + ":" + typeClass + ":" + j.class
				if c.Part == "context" {
					res.class = c.Part + ":" + ctxKind + ":" + j.class // all store types in one class
				}
			}
			res.nontrivial = j.nontrivial
		}
	}
	res.detail = strings.Join(details, " / then: ")
	if len(steps) > 1 {
		// non-trivial histories: the first load succeeds (there is something to remember) and the change matters
		res.class = c.Part + ":" + typeClass + ":" + strings.Join(outcomes, "->")
		if c.Part == "context" {
			res.class = c.Part + ":" + c.Ctx + "->live:" + strings.Join(outcomes, "->")
		}
		res.nontrivial = exps[0].Outcome == "load"
	}
	return
}

// ---------------------------------------------------------------- main

func replay(r *hx.Run, scratch string) {
	var c loadCase
	if err := r.LoadReplay(&c); err != nil {
		r.Infra("replay: %v", err)
		return
	}
	r.Eval(1 + len(c.Then))
	res := runCase(scratch, 0, c)
	if res.infra != "" {
		r.Infra("replay: %s", res.infra)
		return
	}
	fmt.Printf("replay: %s -> %s\n", c, res.detail)
	for _, f := range res.findings {
		r.Violation(f.key, f.what, c)
	}
	if len(res.findings) == 0 {
		fmt.Println("replay: holds (" + res.class + ")")
	}
}

func main() {
	r := hx.New("C13")
	r.Rule = "part entries: every ordered sequence (= multiset x file-name ordering) of <= N core entry kinds and <= N-1 of all kinds x {ca, signingAuthority, tsa} in store \"s\"; " +
		"part names: every entry-name style x every kind x {alone, before, after a good entry} x 3 types; " +
		"part algorithms: every certificate role (6) x every signature algorithm (everyday, mixed key types, retired digests, unevaluable identifiers) x {alone, before, after a good entry} x 3 types; " +
		"part context: every context kind (done before the call, becoming done at the loader's 2nd / 3rd consultation, live cancellable) x every content of <= N entries of the first seven kinds x 3 types, for done contexts followed by a live load of the same store on the same object; " +
		"part bulk: stores of 1025 / 10001 (thorough also 65537) valid files, all good and with one bad entry sorting first / last, x 3 types; " +
		"part paths: every type x name x object-at-store-path x alias-store content with a fixed good content; both on a fresh trust-store object and on one that loaded other stores before; " +
		"part history: every content of <= M entries x every single in-place edit (replace by every other kind / remove / add) x {modification times moved, put back} x 3 types, all loads on ONE object; " +
		"part path-history: every ordered pair of objects at the store path. Each case has its own scratch root with four decoys and the alias stores. " +
		"non-trivial = loads of >= 2 certificates, refusals of a store holding a loadable entry next to a bad one, refusals where an object with good content exists at the store path, histories whose first load succeeds"
	r.Assumptions = []string{
		"validity of store types, store names and entry kinds is hand-labelled; the oracle reads the generator's description, never the disk",
		"the store path is <root>/truststore/x509/<type>/<name> (filepath.Join), as the property's layout anchor states",
		"'...' is a plain file name (ordinary directory entry); a self-signed non-CA certificate in a tsa store is not classified by the statement (either outcome accepted, exact set still demanded)",
		"self-signed = signature verifies under the certificate's own key; root = self-signed and issuer name == subject name",
		"the returned certificates are judged as a multiset of raw encodings; file-name order is recorded, not demanded",
		"the statement is an implication: the refusal of a store meeting every stated condition is recorded (recorded:load/refused-valid-store:<type>), not reported; at least one positive control per part must load",
		"store names with blank / backslash / newline / star are not classified by the statement: either outcome accepted, on success exactly the files of the directory of that very name",
		"an error together with a NON-EMPTY certificate list is a partial set; nil versus empty list with an error is only recorded",
		"a later load on the same trust-store object is judged like a first load against the files on disk at that moment (every in-place change once with modification times moved forward and once with them put back, as cp -p / rsync -t / tar or a change within the timestamp granularity do; distinct key suffixes)",
		"entry alphabet = DESIGN's twelve kinds + two multi-certificate files whose second certificate is the bad one + four collision kinds (self-issued but foreign signature, own-key signature but foreign issuer name, corrupted signature) + three kinds of distinct roots colliding in name+serial / name+key + five bundles whose bad certificate is first or in the middle (PEM and concatenated DER) + four own-key CAs whose issuer name is a near miss of the subject name (extra CN, RDN order, extra DC, other O)",
		"issuer and subject are the same name only if their DER encodings are equal; names that differ in an attribute, its value or the attribute order are different names (differences of ASN.1 string type or letter case only are not in the alphabet)",
		"no entry name is exempt from 'every entry' (hidden, backup, bookkeeping files included); certificates that differ in any byte are different certificates (the alphabet never stores the same certificate twice in one store, so de-duplication of identical certificates is not judged)",
		"we run as root: permission faults (unreadable file/directory) are not produced",
		"a panic of the loader is an infrastructure error",
		"signature-algorithm dimension: the verdict of a certificate role does not depend on the signature algorithm; a non-CA certificate signed by another key is bad also when the algorithm is retired (SHA-1, MD5) or cannot be evaluated (MD2, DSA identifier over an RSA key, private OID); certificates with retired digests are properly signed by hand by the labelled key and the labels are checked with crypto/rsa, crypto/ecdsa, crypto/ed25519; roles that need 'signed by its own key' are not generated for unevaluable identifiers",
		"context dimension: the statement's two results hold under every context; a done context may make a load of a valid store fail as a whole (recorded:load/refused-valid-store-under-done-context:<kind>), never return a subset, never make a bad store load; scripted contexts count the loader's consultations of Err()/Done() (deterministic), a loader that never consults the context behaves as under context.Background()",
	}
	scratch := hx.Scratch()
	if err := buildMaterial(); err != nil {
		r.Infra("material: %v", err)
		r.Finish()
	}
	if r.Replay != "" {
		replay(r, scratch)
		r.Finish()
	}

	maxLen, histLen, nTypes, nNames := 3, 2, quickTypes, quickNames
	r.SetDeadline(38 * time.Second)
	if r.Thorough() {
		maxLen, histLen, nTypes, nNames = maxPos, 3, len(storeTypes), len(storeNames)
		r.SetDeadline(9 * time.Minute)
	}
	var cases []loadCase
	// all kinds up to maxLen-1 entries, the core kinds up to maxLen entries
	seqs := sequences(seqKinds, maxLen-1)
	for _, q := range sequences(coreKinds, maxLen) {
		if len(q) == maxLen {
			seqs = append(seqs, q)
		}
	}
	for _, t := range storeTypes[:3] {
		for _, s := range seqs {
			cases = append(cases, loadCase{Part: "entries", Type: t.Value, Name: "s", Path: "directory", Entries: kindNames(s)})
		}
	}
	nEntries := len(cases)
	for _, t := range storeTypes[:nTypes] {
		for _, n := range storeNames[:nNames] {
			for _, p := range pathKinds {
				c := loadCase{Part: "paths", Type: t.Value, Name: n.Value, Path: p, Entries: goodContent}
				cases = append(cases, c)
				if len(aliasStores(c)) > 0 {
					c.AliasContent = "root+intermediate"
					cases = append(cases, c)
				}
			}
		}
	}
	nPaths := len(cases) - nEntries
	// entry names: every name style x every kind, alone and before / after an ordinary good entry
	for _, t := range storeTypes[:3] {
		for _, st := range entryStyles[1:] {
			for k := 0; k < seqKinds; k++ {
				kn := kinds[k].Name
				cases = append(cases,
					loadCase{Part: "names", Type: t.Value, Name: "s", Path: "directory", Entries: []string{kn}, Names: []string{st.Style}},
					loadCase{Part: "names", Type: t.Value, Name: "s", Path: "directory", Entries: []string{kn, "pem-ca"}, Names: []string{st.Style, ""}},
					loadCase{Part: "names", Type: t.Value, Name: "s", Path: "directory", Entries: []string{"pem-ca", kn}, Names: []string{"", st.Style}})
			}
		}
	}
	nStyled := len(cases) - nEntries - nPaths
	// signature algorithms: every role x every algorithm (algs.go), alone and before / after an ordinary good entry
	for _, t := range storeTypes[:3] {
		for k := firstAlgKind; k < len(kinds); k++ {
			kn := kinds[k].Name
			cases = append(cases,
				loadCase{Part: "algorithms", Type: t.Value, Name: "s", Path: "directory", Entries: []string{kn}},
				loadCase{Part: "algorithms", Type: t.Value, Name: "s", Path: "directory", Entries: []string{kn, "pem-ca"}},
				loadCase{Part: "algorithms", Type: t.Value, Name: "s", Path: "directory", Entries: []string{"pem-ca", kn}})
		}
	}
	nAlg := len(cases) - nEntries - nPaths - nStyled
	// bulk: large stores (a listing in chunks, a cap on the number of entries, a limit of open files must not cut the
	// store short): all good, and with one bad entry that sorts first / last
	bulkSizes := []int{1025, 10001}
	if r.Thorough() {
		bulkSizes = append(bulkSizes, 65537)
	}
	ensureBulk(bulkSizes[len(bulkSizes)-1])
	var bulkCases []loadCase
	for _, n := range bulkSizes {
		for ti, t := range storeTypes[:3] {
			bulkCases = append(bulkCases, loadCase{Part: "bulk", Type: t.Value, Name: "s", Path: "directory", Bulk: n})
			if n > 1025 && ti > 0 && !r.Thorough() {
				continue // quick: the bad-entry variants of the big store for one type, all of them for the small one
			}
			bulkCases = append(bulkCases, loadCase{Part: "bulk", Type: t.Value, Name: "s", Path: "directory", Bulk: n, Entries: []string{"garbage"}})
			if n <= 10001 {
				bulkCases = append(bulkCases,
					loadCase{Part: "bulk", Type: t.Value, Name: "s", Path: "directory", Bulk: n, Entries: []string{"garbage"}, Names: []string{"leading-dash"}},
					loadCase{Part: "bulk", Type: t.Value, Name: "s", Path: "directory", Bulk: n, Entries: []string{"leaf-issued-by-ca"}},
					loadCase{Part: "bulk", Type: t.Value, Name: "s", Path: "directory", Bulk: n, Entries: []string{"symlink-to-cert"}, Names: []string{"leading-dash"}})
			}
		}
	}
	nBulk := len(bulkCases)
	// instance reuse: every case again on a trust-store instance that loaded other stores before
	for _, c := range append([]loadCase(nil), cases...) {
		c.Prior = 1
		cases = append(cases, c)
	}
	cases = append(cases, bulkCases...) // on a fresh trust-store object only
	// the caller's context: every context kind x every content of <= 3 entries of the first seven kinds (PEM / DER /
	// multi-certificate / self-signed / leaf / intermediate / garbage); for the done contexts the contents of <= 2
	// entries again, followed by a load of the SAME store under a live context on the same object
	ctxSeqs := sequences(kGarbage+1, maxLen)
	nBeforeCtx := len(cases)
	for _, t := range storeTypes[:3] {
		for _, ck := range ctxKinds {
			for _, q := range ctxSeqs {
				c := loadCase{Part: "context", Type: t.Value, Name: "s", Path: "directory", Entries: kindNames(q), Ctx: ck}
				cases = append(cases, c)
				if !ctxLive(ck) && len(q) <= 2 {
					c.Then = []step{{Path: "directory", Entries: kindNames(q)}}
					cases = append(cases, c)
				}
			}
		}
	}
	nCtx := len(cases) - nBeforeCtx
	nBase := len(cases) - nCtx
	// path histories: the object at the store path changes its kind between two loads on one object
	for _, t := range storeTypes[:3] {
		for _, p1 := range pathKinds {
			for _, p2 := range pathKinds {
				if p1 == p2 {
					continue
				}
				c := loadCase{Part: "path-history", Type: t.Value, Name: "s", Path: p1, Entries: goodContent, Then: []step{{Path: p2, Entries: goodContent}}}
				if r.Thorough() {
					c.Then = append(c.Then, step{Path: p1, Entries: goodContent})
				}
				cases = append(cases, c)
			}
		}
	}
	nPathHist := len(cases) - nBase - nCtx
	nHistSkipped := 0
	// content histories: one in-place edit between two loads on one object (thorough: and back again)
	for _, a := range sequences(coreKinds, histLen) {
		for _, b := range singleEdits(a) {
			for _, t := range storeTypes[:3] {
				c := loadCase{Part: "history", Type: t.Value, Name: "s", Path: "directory", Entries: kindNames(a), Then: []step{{Path: "directory", Entries: kindNames(b)}}}
				if !r.Thorough() || len(a) > 2 {
					// a history in which every state must be refused cannot turn a remembered answer into an accepted
					// bad store or a refused good one; thorough keeps them up to two entries (remembered partial reads)
					ea, _ := reference(c, "directory", a)
					eb, _ := reference(c, "directory", b)
					if ea.Outcome == "refuse" && eb.Outcome == "refuse" {
						nHistSkipped++
						continue
					}
				}
				if r.Thorough() {
					c.Then = append(c.Then, step{Path: "directory", Entries: kindNames(a)})
				}
				// whatever is fooled by a change that stat can see is also fooled by one it cannot see: the "moved"
				// variant only tells the two apart (key suffix); quick runs it for contents of <= 1 entry
				if r.Thorough() || len(a) <= 1 {
					c.Mtimes = "moved"
					cases = append(cases, c)
				}
				c.Mtimes = ""
				cases = append(cases, c)
			}
		}
	}
	nHist := len(cases) - nBase - nPathHist - nCtx
	// smallest stores first, across all parts: should the internal deadline strike on a busy machine,
	// only the largest cases of every part are left out, never a whole part
	weight := func(c loadCase) int {
		w := len(c.Entries)
		for _, t := range c.Then {
			if len(t.Entries) > w {
				w = len(t.Entries)
			}
		}
		if c.Bulk > 0 {
			return 3 // the (expensive) big stores after everything with <= 1 entry, before the rest
		}
		return 2 * w
	}
	sort.SliceStable(cases, func(a, b int) bool { return weight(cases[a]) < weight(cases[b]) })
	r.Extra["entry_kinds"] = len(kinds)
	r.Extra["max_entries_per_store"] = maxLen
	r.Extra["entry_sequences"] = len(seqs)
	r.Extra["cases_entries_part"] = nEntries
	r.Extra["cases_paths_part"] = nPaths
	r.Extra["cases_names_part"] = nStyled
	r.Extra["cases_bulk_part"] = nBulk
	r.Extra["cases_algorithms_part(before_reuse_doubling)"] = nAlg
	r.Extra["signature_algorithms"] = len(algs) + 1
	r.Extra["certificate_roles_per_algorithm"] = len(algRoles)
	r.Extra["entry_kinds_role_x_algorithm"] = len(kinds) - firstAlgKind
	r.Extra["cases_context_part"] = nCtx
	r.Extra["context_kinds"] = len(ctxKinds) + 1
	r.Extra["bulk_store_sizes"] = bulkSizes
	r.Extra["entry_name_styles"] = len(entryStyles)
	r.Extra["core_entry_kinds(longest_sequences,histories)"] = coreKinds
	r.Extra["cases_fresh_and_reused_object"] = nBase
	r.Extra["cases_path_history_part"] = nPathHist
	r.Extra["cases_history_part"] = nHist
	r.Extra["histories_not_run(all_states_refused)"] = nHistSkipped
	r.Extra["history_max_entries_before_edit"] = histLen
	r.Extra["store_types"] = nTypes
	r.Extra["store_names"] = nNames
	r.Extra["path_kinds"] = len(pathKinds)
	r.Extra["decoys_per_case"] = len(decoyNames)

	type hit struct {
		idx int
		f   finding
	}
	var (
		mu       sync.Mutex
		hits     []hit
		loaded   int
		loadedP  int
		loadedH  int
		orderDif int
		skipped  atomic.Int64
	)
	r.Parallel(len(cases), func(i int) {
		if r.Expired() {
			skipped.Add(1)
			return
		}
		c := cases[i]
		res := runCase(scratch, i, c)
		if res.infra != "" {
			r.Infra("%s", res.infra)
			return
		}
		r.Eval(1 + len(c.Then))
		r.State(1)
		r.Transition(len(c.Then))
		if res.class != "" {
			r.Outcome(res.class)
		}
		for _, rc := range res.recorded {
			r.Outcome(rc)
		}
		if res.nontrivial && len(res.findings) == 0 {
			r.Nontrivial(c.String())
		}
		if i%997 == 0 {
			r.Sample(map[string]any{"case": c, "result": res.detail})
		}
		mu.Lock()
		if res.loaded && len(res.findings) == 0 {
			loaded++
			switch c.Part {
			case "paths":
				loadedP++
			case "history":
				loadedH++
			}
		}
		if res.orderDiff {
			orderDif++
		}
		for _, f := range res.findings {
			hits = append(hits, hit{i, f})
		}
		mu.Unlock()
	}, nil)
	// report in case order: the replay file of a key is always its first case
	sort.SliceStable(hits, func(a, b int) bool { return hits[a].idx < hits[b].idx })
	for _, h := range hits {
		r.Violation(h.f.key, h.f.what, cases[h.idx])
	}
	if n := skipped.Load(); n > 0 {
		r.Capped(fmt.Sprintf("internal deadline: %d of %d cases evaluated (cases are ordered by the number of entries in the store, smallest first, across all parts)", int64(len(cases))-n, len(cases)))
	}
	r.Extra["positive_controls_loaded"] = loaded
	r.Extra["positive_controls_loaded_paths_part"] = loadedP
	r.Extra["positive_controls_loaded_history_part"] = loadedH
	r.Extra["loads_not_in_file_name_order"] = orderDif
	// a run cut by the internal deadline may not have reached a part at all: that is a capped run, not a vacuous one
	if len(hits) == 0 && skipped.Load() == 0 && (loaded == 0 || loadedP == 0 || loadedH == 0) {
		r.Infra("no positive control loaded (all: %d, paths: %d, history: %d): the harness cannot tell a loader from a refuser", loaded, loadedP, loadedH)
	}
	r.Finish()
}
