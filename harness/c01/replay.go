package main

import (
	"crypto"
	"crypto/x509"
	"encoding/base64"
	"fmt"

	"github.com/fxamacker/cbor/v2"
	"github.com/notaryproject/notation-go/zzverif/lib/forge"
)

// replaying: a single stored case is re-run; the reason of a rejection is printed for the reader (never judged).
var replaying bool

func explain(err error) {
	if replaying {
		fmt.Println("replay: the call was rejected with:", err)
	}
}

// chainOf extracts the certificates an envelope carries (best effort, nil when it cannot be read).
func chainOf(format string, b []byte) (out []*x509.Certificate) {
	defer func() { _ = recover() }()
	var ders [][]byte
	if format == forge.JWS {
		list, _ := forge.SplitJWS(b).Header["x5c"].([]any)
		for _, x := range list {
			if s, ok := x.(string); ok {
				if der, err := base64.StdEncoding.DecodeString(s); err == nil {
					ders = append(ders, der)
				}
			}
		}
	} else {
		var hdr map[any]any
		if err := cbor.Unmarshal(forge.SplitCOSE(b).Unprotected, &hdr); err != nil {
			return nil
		}
		switch v := hdr[int64(33)].(type) {
		case []any:
			for _, x := range v {
				if der, ok := x.([]byte); ok {
					ders = append(ders, der)
				}
			}
		case []byte:
			ders = append(ders, v)
		}
		if ders == nil {
			if v, ok := hdr[uint64(33)].([]any); ok {
				for _, x := range v {
					if der, ok := x.([]byte); ok {
						ders = append(ders, der)
					}
				}
			}
		}
	}
	for _, der := range ders {
		if c, err := x509.ParseCertificate(der); err == nil {
			out = append(out, c)
		}
	}
	return out
}

// adoptRoots: a replay runs in a new process whose certificates are regenerated (same cached keys, new bytes), so
// the stored envelope's chain would never be anchored in the regenerated trust store. The trust relation is kept
// instead of the bytes: every certificate of a replayed envelope that carries the key of a trusted root of this
// world is added to the trusted store.
func (w *world) adoptRoots(envs ...*env) {
	for _, e := range envs {
		for _, c := range chainOf(e.Format, e.Bytes) {
			for _, name := range []string{"T", "T2"} {
				if k, ok := w.chains[name].Root().Cert.PublicKey.(interface{ Equal(x crypto.PublicKey) bool }); ok && k.Equal(c.PublicKey) {
					fmt.Printf("replay: trusting the envelope's own copy of root %s\n", name)
					w.trusted.Put("ca", "s", c)
				}
			}
		}
	}
}
