// Family (v): hand-made payloads. Every other family signs payloads produced by json.Marshal of a complete
// descriptor, so the signed content is always one canonical JSON document with every compared member present.
// Here the payload BYTES are the alphabet: members absent / empty / null / zero / in another order, further
// data after (or before) the document, wrappers, truncation, and the places where JSON itself is ambiguous
// (a member name twice, a member name in another letter case). Each shape carries a hand label (truth): the
// target descriptors a conforming reader may take from it - none when the content is no Notary payload at all.
// The oracle never parses these payloads; it is still only the implication "success => some admissible reading
// is bound to what was presented and required".
package main

import (
	"encoding/json"
	"fmt"
	"strings"
	"sync"

	"github.com/notaryproject/notation-go/zzverif/lib/forge"
	"github.com/notaryproject/notation-go/zzverif/lib/hx"
	"github.com/notaryproject/notation-go/zzverif/lib/vt"
	ocispec "github.com/opencontainers/image-spec/specs-go/v1"
)

// ctl counts positive controls of the added families.
type ctl struct {
	mu    sync.Mutex
	n, ok int64
}

func (c *ctl) add(accepted bool) {
	c.mu.Lock()
	c.n++
	if accepted {
		c.ok++
	}
	c.mu.Unlock()
}

type shape struct {
	Name     string
	Content  []byte
	Readings []ocispec.Descriptor
}

func jq(s string) string {
	b, _ := json.Marshal(s)
	return string(b)
}

func annJSON(m map[string]string) string {
	var parts []string
	for _, k := range sortedKeys(m) {
		parts = append(parts, jq(k)+":"+jq(m[k]))
	}
	return "{" + strings.Join(parts, ",") + "}"
}

func docOf(members ...string) string {
	return `{"targetArtifact":{` + strings.Join(members, ",") + `}}`
}

// shapesFor lists the payload shapes around the descriptor d (which carries the annotations {"k":"v"}); o is
// another artifact's descriptor that agrees with d in everything but the digest.
func shapesFor(d, o ocispec.Descriptor) []shape {
	mMT := `"mediaType":` + jq(d.MediaType)
	mDG := `"digest":` + jq(string(d.Digest))
	mSZ := fmt.Sprintf(`"size":%d`, d.Size)
	mAN := `"annotations":` + annJSON(d.Annotations)
	oDG := `"digest":` + jq(string(o.Digest))
	full := docOf(mMT, mDG, mSZ, mAN)
	other := docOf(mMT, oDG, mSZ, mAN)
	inner := "{" + strings.Join([]string{mMT, mDG, mSZ, mAN}, ",") + "}"
	oinner := "{" + strings.Join([]string{mMT, oDG, mSZ, mAN}, ",") + "}"
	with := func(f func(x *ocispec.Descriptor)) ocispec.Descriptor {
		x := d
		x.Annotations = cloneMap(d.Annotations)
		f(&x)
		return x
	}
	one := func(x ocispec.Descriptor) []ocispec.Descriptor { return []ocispec.Descriptor{x} }
	noMT := with(func(x *ocispec.Descriptor) { x.MediaType = "" })
	noSZ := with(func(x *ocispec.Descriptor) { x.Size = 0 })
	noDG := with(func(x *ocispec.Descriptor) { x.Digest = "" })
	noAN := with(func(x *ocispec.Descriptor) { x.Annotations = nil })
	od := with(func(x *ocispec.Descriptor) { x.Digest = o.Digest })
	zero := ocispec.Descriptor{}
	var none []ocispec.Descriptor
	return []shape{
		// --- one document, the reading is unambiguous ---
		{"full", []byte(full), one(d)},
		{"reordered", []byte(docOf(mAN, mSZ, mDG, mMT)), one(d)},
		{"indented", []byte("{\n  \"targetArtifact\" :\t{ " + strings.Join([]string{mMT, mDG, mSZ, mAN}, " ,\n    ") + " }\n}\n"), one(d)},
		{"unknown-members", []byte(`{"extra":{"targetArtifact":` + oinner + `},"targetArtifact":{` + strings.Join([]string{mMT, mDG, `"future":[1,{"digest":"x"}]`, mSZ, mAN}, ",") + `},"z":null}`), one(d)},
		{"then-whitespace", []byte(full + " \n\t\r\n"), one(d)},
		{"no-mediatype", []byte(docOf(mDG, mSZ, mAN)), one(noMT)},
		{"empty-mediatype", []byte(docOf(`"mediaType":""`, mDG, mSZ, mAN)), one(noMT)},
		{"null-mediatype", []byte(docOf(`"mediaType":null`, mDG, mSZ, mAN)), one(noMT)},
		{"no-size", []byte(docOf(mMT, mDG, mAN)), one(noSZ)},
		{"zero-size", []byte(docOf(mMT, mDG, `"size":0`, mAN)), one(noSZ)},
		{"no-digest", []byte(docOf(mMT, mSZ, mAN)), one(noDG)},
		{"empty-digest", []byte(docOf(mMT, `"digest":""`, mSZ, mAN)), one(noDG)},
		{"no-annotations", []byte(docOf(mMT, mDG, mSZ)), one(noAN)},
		{"null-annotations", []byte(docOf(mMT, mDG, mSZ, `"annotations":null`)), one(noAN)},
		{"empty-annotations", []byte(docOf(mMT, mDG, mSZ, `"annotations":{}`)), one(noAN)},
		{"empty-annotation-value", []byte(docOf(mMT, mDG, mSZ, `"annotations":{"k":""}`)), one(with(func(x *ocispec.Descriptor) { x.Annotations = map[string]string{"k": ""} }))},
		{"annotation-key-other-case", []byte(docOf(mMT, mDG, mSZ, `"annotations":{"K":"v"}`)), one(with(func(x *ocispec.Descriptor) { x.Annotations = map[string]string{"K": "v"} }))},
		{"annotation-key-with-blank", []byte(docOf(mMT, mDG, mSZ, `"annotations":{"k ":"v"}`)), one(with(func(x *ocispec.Descriptor) { x.Annotations = map[string]string{"k ": "v"} }))},
		{"empty-object", []byte(`{}`), one(zero)},
		{"target-null", []byte(`{"targetArtifact":null}`), one(zero)},
		{"target-empty-object", []byte(`{"targetArtifact":{}}`), one(zero)},
		{"bom", []byte("\xef\xbb\xbf" + full), one(d)}, // a reader may strip it or refuse it
		// --- not one JSON document with a target descriptor: no admissible reading ---
		{"then-other-document", []byte(full + other), none},
		{"after-other-document", []byte(other + full), none},
		{"twice", []byte(full + full), none},
		{"then-newline-other-document", []byte(full + "\n" + other + "\n"), none},
		{"then-comma-other-document", []byte(full + "," + other), none},
		{"then-letter", []byte(full + "x"), none},
		{"then-brace", []byte(full + "}"), none},
		{"then-nul", []byte(full + "\x00"), none},
		{"then-blank-and-digit", []byte(full + " 0"), none},
		{"truncated", []byte(full[:len(full)-1]), none},
		{"array-wrapped", []byte("[" + full + "]"), none},
		{"string-wrapped", []byte(jq(full)), none},
		{"target-in-array", []byte(`{"targetArtifact":[` + inner + `]}`), none},
		{"target-as-string", []byte(`{"targetArtifact":` + jq(inner) + `}`), none},
		{"null", []byte("null"), none},
		{"empty", []byte{}, none},
		// --- JSON leaves it open: either reading is admissible, nothing else ---
		{"target-twice-other-first", []byte(`{"targetArtifact":` + oinner + `,"targetArtifact":` + inner + `}`), []ocispec.Descriptor{d, od}},
		{"target-twice-other-last", []byte(`{"targetArtifact":` + inner + `,"targetArtifact":` + oinner + `}`), []ocispec.Descriptor{d, od}},
		{"digest-twice-other-first", []byte(docOf(mMT, oDG, mDG, mSZ, mAN)), []ocispec.Descriptor{d, od}},
		{"digest-twice-other-last", []byte(docOf(mMT, mDG, oDG, mSZ, mAN)), []ocispec.Descriptor{d, od}},
		{"annotation-twice", []byte(docOf(mMT, mDG, mSZ, `"annotations":{"k":"v2","k":"v"}`)), []ocispec.Descriptor{d, with(func(x *ocispec.Descriptor) { x.Annotations = map[string]string{"k": "v2"} })}},
		{"target-key-other-case", []byte(`{"TargetArtifact":` + inner + `}`), []ocispec.Descriptor{d, zero}},
		{"member-keys-other-case", []byte(docOf(`"MediaType":`+jq(d.MediaType), `"Digest":`+jq(string(d.Digest)), fmt.Sprintf(`"Size":%d`, d.Size), `"Annotations":`+annJSON(d.Annotations))), []ocispec.Descriptor{d, zero}},
	}
}

// tryBuild signs a hand-made payload; nil when the envelope encoder refuses the content (e.g. an absent payload).
func tryBuild(w *world, format, signer string, payload []byte) (out []byte) {
	defer func() {
		if recover() != nil {
			out = nil
		}
	}()
	return w.sign(format, signer, payload, nil, "")
}

func shapedFamily(r *hx.Run, w *world, levels []vt.Level, c *ctl) {
	type item struct {
		e    *env
		blob bool
		name string
	}
	var items []item
	skipped := 0
	nshapes := 0
	meta := map[string]string{"k": "v"}
	for _, f := range forge.Formats {
		// OCI: around A, the other artifact is B
		sh := shapesFor(descWithMeta(ociDesc("A"), meta), descWithMeta(ociDesc("B"), meta))
		nshapes = len(sh)
		for _, s := range sh {
			b := tryBuild(w, f, "T", s.Content)
			if b == nil {
				skipped++
				continue
			}
			items = append(items, item{&env{Label: fmt.Sprintf("shaped/%s/oci/%s", short(f), s.Name), Format: f, Family: "shaped", Bytes: b, Truth: &truth{Readings: s.Readings}, Sub: ":" + s.Name}, false, s.Name})
		}
		// blobs: around the content blobA under the hash of the signer's key (T: SHA-256, T2: SHA-384)
		for _, signer := range []string{"T", "T2"} {
			h := forge.HashOf(w.chains[signer].Leaf().Key.Public())
			if signer == "T2" && !r.Thorough() {
				continue
			}
			for _, s := range shapesFor(descWithMeta(blobDesc(blobA, "application/octet-stream", h), meta), descWithMeta(blobDesc(blobB, "application/octet-stream", h), meta)) {
				b := tryBuild(w, f, signer, s.Content)
				if b == nil {
					skipped++
					continue
				}
				items = append(items, item{&env{Label: fmt.Sprintf("shaped/%s/blob-%s/%s", short(f), signer, s.Name), Format: f, Family: "shaped", Blob: true, Bytes: b, Truth: &truth{Readings: s.Readings}, Sub: ":" + s.Name}, true, s.Name})
			}
		}
	}
	r.Extra["payload_shapes"] = nshapes
	r.Extra["payload_shapes_refused_by_encoder"] = skipped

	// presented: A, the other artifact, and A with the members a shape may lack left out on the caller's side too
	a := ociDesc("A")
	aNoMT, aNoSZ := a, a
	aNoMT.MediaType = ""
	aNoSZ.Size = 0
	type pres struct {
		name string
		d    ocispec.Descriptor
	}
	presented := []pres{{"A", a}, {"B", ociDesc("B")}, {"A-without-mediatype", aNoMT}, {"A-size0", aNoSZ}}
	required := []map[string]string{nil, {"k": "v"}, {"k": ""}}
	contents := [][]byte{blobA, blobB, {}}
	stated := []string{"", "application/octet-stream", "text/plain"}

	r.Parallel(len(items), func(i int) {
		it := items[i]
		for _, lv := range levels {
			for _, sa := range []storeAnswer{storeTrusted, storeEmpty} {
				if !it.blob {
					for _, p := range presented {
						for ri, req := range required {
							res := runOCI(r, w, it.e, p.name, p.d, req, lv, sa, false)
							r.Outcome("oci/shaped:" + res)
							if res == "accepted" {
								r.Nontrivial(fmt.Sprintf("%s|%s|%d|%v|%d", it.e.Label, p.name, ri, lv, sa))
							}
							if it.name == "full" && p.name == "A" && ri < 2 && sa == storeTrusted {
								c.add(res == "accepted")
							}
						}
					}
					continue
				}
				for ci, content := range contents {
					for _, smt := range stated {
						for ri, req := range required[:2] {
							for _, direct := range []bool{false, true} {
								if direct && sa != storeTrusted {
									continue
								}
								res := runBlobVia(r, w, it.e, content, smt, req, lv, sa, false, (ci+ri)%2 == 0, (ci+ri)%len(readerShapes), direct)
								r.Outcome("blob/shaped:" + res)
								if res == "accepted" {
									r.Nontrivial(fmt.Sprintf("%s|c%d|%s|%d|%v|%d|%v", it.e.Label, ci, smt, ri, lv, sa, direct))
								}
								if it.name == "full" && ci == 0 && smt != "text/plain" && sa == storeTrusted {
									c.add(res == "accepted")
								}
							}
						}
					}
				}
			}
		}
		if i%17 == 0 {
			r.Sample(map[string]any{"family": "shaped", "envelope": it.e.Label, "admissible_readings": len(it.e.Truth.Readings)})
		}
	}, nil)
}
