// Family (xi): required-metadata pairs that differ from the signed pairs AS PAIRS but agree under some flattening
// of pairs or maps into strings. Everywhere else keys and values are plain words (family (ix) varies the KEYS'
// prefix, case and blanks), so a comparison by "key<sep>value" strings, by a joined rendering of the whole map, or
// by a normalised value gives the answers of the exact map lookup. Collisions by construction, three groups - inside
// a group every signed map meets every required map (the equal ones are the positive controls):
//
//	separator c   ("build.args", "MODE"+c+"release") against ("build.args"+c+"MODE", "release") for c in = : nothing
//	              blank , / . NUL newline tab ; & | " \  - the two pairs agree in key+c+value and differ in key and value
//	join p,j      {"k":"v","k2":"w"} against {"k": "v"+j+"k2"+p+"w"} for p in = : and j in , ", " blank newline ; & -
//	              the two maps agree when rendered k1 p v1 j k2 p v2 (fmt's %v is p=":" j=" ")
//	value         {"k":x} for x in v V "v " " v" v\n v\x00 vv e-acute composed / decomposed, and the empty value -
//	              values that agree after case folding, trimming, C-string cutting, prefixing, Unicode normalisation
//
// through all five entry points (verifier.Verify, notation.Verify with one and two listed signatures,
// notation.VerifyBlob, verifier.VerifyBlob). Oracle unchanged: success => every required pair is signed (exact key,
// exact value).
package main

import (
	"fmt"

	"github.com/notaryproject/notation-go/zzverif/lib/forge"
	"github.com/notaryproject/notation-go/zzverif/lib/hx"
	"github.com/notaryproject/notation-go/zzverif/lib/vt"
)

type pairGroup struct {
	Name string              // part of the violation key
	Maps []map[string]string // signed alphabet == required alphabet
}

var pairSeparators = []struct{ Name, Sep string }{
	{"equals", "="}, {"colon", ":"}, {"nothing", ""}, {"blank", " "}, {"comma", ","}, {"slash", "/"}, {"dot", "."}, {"nul", "\x00"},
	{"newline", "\n"}, {"tab", "\t"}, {"semicolon", ";"}, {"ampersand", "&"}, {"bar", "|"}, {"quote", "\""}, {"backslash", "\\"},
}

var mapJoins = []struct{ Name, Join string }{
	{"comma", ","}, {"comma-blank", ", "}, {"blank", " "}, {"newline", "\n"}, {"semicolon", ";"}, {"ampersand", "&"},
}

func pairGroups() []pairGroup {
	var gs []pairGroup
	for _, s := range pairSeparators {
		gs = append(gs, pairGroup{"pair-separator-" + s.Name, []map[string]string{
			{"build.args": "MODE" + s.Sep + "release"},
			{"build.args" + s.Sep + "MODE": "release"},
		}})
	}
	for _, p := range pairSeparators[:2] {
		for _, j := range mapJoins {
			gs = append(gs, pairGroup{"map-join-" + p.Name + "-" + j.Name, []map[string]string{
				{"k": "v", "k2": "w"},
				{"k": "v" + j.Join + "k2" + p.Sep + "w"},
			}})
		}
	}
	var values []map[string]string
	for _, x := range []string{"v", "V", "v ", " v", "v\n", "v\x00", "vv", "\u00e9", "e\u0301", ""} {
		values = append(values, map[string]string{"k": x})
	}
	gs = append(gs, pairGroup{"value-variant", values})
	return gs
}

func pairEncodingFamily(r *hx.Run, w *world, levels []vt.Level, c *ctl) {
	a := ociDesc("A")
	hash := forge.HashOf(w.chains["T"].Leaf().Key.Public())
	type item struct {
		g                *pairGroup
		si               int
		oci, blob, plain *env
	}
	groups := pairGroups()
	var items []item
	nmaps := 0
	for _, f := range forge.Formats {
		// the first listed signature of the two-signature lists: same signer and artifact, no metadata at all
		plain := &env{Label: fmt.Sprintf("pairs/%s/T/A/no-metadata", short(f)), Format: f, Family: "metadata-pair-encoding", Bytes: w.sign(f, "T", forge.PayloadFor(a), nil, "")}
		for gi := range groups {
			g := &groups[gi]
			for si, m := range g.Maps {
				nmaps++
				items = append(items, item{g: g, si: si, plain: plain,
					oci:  &env{Label: fmt.Sprintf("pairs/%s/T/A/%s/signed%d", short(f), g.Name, si), Format: f, Family: "metadata-pair-encoding", Sub: ":" + g.Name, Bytes: w.sign(f, "T", forge.PayloadFor(descWithMeta(a, m)), nil, "")},
					blob: &env{Label: fmt.Sprintf("pairs/%s/T/blobA/%s/signed%d", short(f), g.Name, si), Format: f, Family: "metadata-pair-encoding", Sub: ":" + g.Name, Blob: true, Bytes: w.sign(f, "T", forge.PayloadFor(descWithMeta(blobDesc(blobA, "application/octet-stream", hash), m)), nil, "")}})
			}
		}
	}
	r.Extra["metadata_pair_encoding_groups"] = len(groups)
	r.Extra["metadata_pair_encoding_signed_maps"] = nmaps / len(forge.Formats)
	r.Parallel(len(items), func(i int) {
		it := items[i]
		for _, lv := range levels {
			for ri, req := range it.g.Maps {
				var results []string
				results = append(results, runOCI(r, w, it.oci, "A", a, req, lv, storeTrusted, false))
				results = append(results, runList(r, w, []*env{it.oci}, "A", a, req, lv, storeTrusted, 0))
				results = append(results, runList(r, w, []*env{it.plain, it.oci}, "A", a, req, lv, storeTrusted, ri%2))
				results = append(results, runBlobVia(r, w, it.blob, blobA, "", req, lv, storeTrusted, false, ri%2 == 0, (ri+it.si)%len(readerShapes), false))
				results = append(results, runBlobVia(r, w, it.blob, blobA, "", req, lv, storeTrusted, false, ri%2 == 1, 0, true))
				for ei, res := range results {
					r.Outcome("metadata-pair-encoding:" + res)
					if res == "accepted" {
						r.Nontrivial(fmt.Sprintf("%s|%d|%v|%d", it.oci.Label, ri, lv, ei))
					}
					// control: the required map is the signed map, plain characters only
					if ri == it.si && (it.g.Name == "pair-separator-dot" || it.g.Name == "map-join-equals-comma" && it.si == 0 || it.g.Name == "value-variant" && it.si < 2) {
						c.add(res == "accepted")
					}
				}
			}
		}
		if i%9 == 0 {
			r.Sample(map[string]any{"family": "metadata-pair-encoding", "group": it.g.Name, "envelope": it.oci.Label, "signed": fmt.Sprintf("%q", vt.MapString(it.g.Maps[it.si])), "required_maps": len(it.g.Maps), "entry_points": 5})
		}
	}, nil)
}
