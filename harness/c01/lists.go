// Family (vi): two-call histories on ONE fresh verifier, with caller-owned values carried from the first call to
// the second. Every other family hands each call a private copy of the required-metadata map and shares long-lived
// verifiers between unrelated cases, so anything the code remembers between calls - in the verifier, in a package
// variable, or by writing into the caller's map - stays invisible (or shows up at random). Here: call 1 (envelope p,
// required r1, artifact A), then call 2 (envelope j, required r2 or THE SAME MAP OBJECT as left by call 1, artifact A
// or B) on the same instance. Call 2 is judged exactly like a single call, against the harness's pristine copy of
// what the caller required.
//
// Family (vii): signature lists. notation.Verify walks the signatures of an artifact and accepts the first that
// verifies; every list of 1..3 signatures from an alphabet whose members agree in signer and artifact and differ in
// one judged attribute (metadata carried, artifact, trust, integrity, content type, format) x required map x paging
// of the listing. Oracle: success => SOME listed envelope satisfies the whole statement for the resolved artifact and
// the required map (and is the one the returned outcome reports).
package main

import (
	"bytes"
	"context"
	"encoding/base64"
	"errors"
	"fmt"
	"reflect"

	"github.com/notaryproject/notation-go"
	"github.com/notaryproject/notation-go/zzverif/lib/forge"
	"github.com/notaryproject/notation-go/zzverif/lib/hx"
	"github.com/notaryproject/notation-go/zzverif/lib/vt"
	"github.com/opencontainers/go-digest"
	ocispec "github.com/opencontainers/image-spec/specs-go/v1"
)

// ---------------- histories ----------------

type histCall struct {
	e        *env
	desc     ocispec.Descriptor // OCI: presented descriptor
	content  []byte             // blob: presented content
	statedMT string
	required map[string]string // pristine; nil map = nothing required
}

func (h histCall) replay() *replayCall {
	return &replayCall{Env: h.e.replay(), Desc: h.desc, Content: b64(h.content), StatedMT: h.statedMT, Required: h.required}
}

func doCall(v notation.Verifier, bv notation.BlobVerifier, blob bool, c histCall, pass map[string]string) (*notation.VerificationOutcome, error) {
	if blob {
		return blobCall(bv, c.e, c.content, c.statedMT, pass, true, false, 0)
	}
	return v.Verify(ctx, c.desc, c.e.Bytes, notation.VerifierVerifyOptions{ArtifactReference: "reg.io/r@" + c.desc.Digest.String(), SignatureMediaType: c.e.Format, UserMetadata: pass})
}

// runHistory executes prior, then judged, on one fresh verifier. sameMap: the judged call passes the map object of
// the prior call as the code left it (a caller re-using one options value); what the caller required is then still
// prior.required - the caller never changed it.
func runHistory(r *hx.Run, w *world, blob bool, lv vt.Level, prior, judged histCall, sameMap bool) string {
	v, bv, err := newVerifierUncached(w, lv, storeTrusted, false)
	if err != nil {
		r.Infra("verifier construction failed for level %v: %v", lv, err)
		return "infra"
	}
	m1 := cloneMap(prior.required)
	r.Eval(1)
	_, _ = doCall(v, bv, blob, prior, m1)
	if !reflect.DeepEqual(m1, prior.required) && !(len(m1) == 0 && len(prior.required) == 0) {
		r.Outcome("recorded:required-metadata-map-changed-by-the-call") // a mechanism, not the property
	}
	pass := cloneMap(judged.required)
	want := judged.required
	if sameMap {
		pass, want = m1, prior.required
	}
	r.Eval(1)
	outcome, verr := doCall(v, bv, blob, judged, pass)
	if verr != nil {
		explain(verr)
		return "rejected"
	}
	kind := "oci"
	if blob {
		kind = "blob"
	}
	if why := judge(judged.e, outcome, judged.desc, judged.content, blob, judged.statedMT, want); why != "" {
		how := "after-another-call"
		if sameMap {
			how = "options-value-reused"
		}
		r.Violation(kind+"/history/"+why+":"+how, fmt.Sprintf("second call on one verifier succeeded: envelope %s required=%s (same map object as the first call: %v) level=%v, after a first call with envelope %s required=%s", judged.e.Label, vt.MapString(want), sameMap, lv, prior.e.Label, vt.MapString(prior.required)),
			replayCase{Family: "history", Label: judged.e.Label, Format: judged.e.Format, Envelope: b64(judged.e.Bytes), Truth: judged.e.Truth, Blob: blob, Entry: "history", Desc: judged.desc, Content: b64(judged.content), StatedMT: judged.statedMT, Required: want, Level: lv, Prior: prior.replay(), SameMap: sameMap})
		return "violation"
	}
	return "accepted"
}

func historyFamily(r *hx.Run, w *world, quickLevels, thoroughLevels []vt.Level, c *ctl) {
	levels := quickLevels
	if r.Thorough() {
		levels = thoroughLevels
	}
	carried := []map[string]string{nil, {"k": "v"}, {"k2": "w"}, {"k": "v", "k2": "w"}}
	type hist struct {
		blob          bool
		lv            vt.Level
		prior, judged histCall
		same          bool
		control       bool
	}
	var hs []hist
	a, b := ociDesc("A"), ociDesc("B")
	for _, f := range forge.Formats {
		// collisions by construction: same signer, same artifact, same format - only the carried metadata differs
		var es []*env
		for mi, m := range carried {
			es = append(es, &env{Label: fmt.Sprintf("hist/%s/T/A/carried%d", short(f), mi), Format: f, Family: "history",
				Bytes: w.sign(f, "T", forge.PayloadFor(descWithMeta(a, m)), nil, "")})
		}
		for _, lv := range levels {
			for _, p := range es {
				for _, r1 := range requiredMetas {
					for ji, j := range es {
						for r2i := -1; r2i < len(requiredMetas); r2i++ {
							for _, pd := range []ocispec.Descriptor{a, b} {
								h := hist{lv: lv, prior: histCall{e: p, desc: a, required: r1}, judged: histCall{e: j, desc: pd}}
								if r2i < 0 {
									h.same = true
								} else {
									h.judged.required = requiredMetas[r2i]
								}
								// control: the signature carrying both pairs, presented as A, with {k:v} freshly required
								h.control = ji == 3 && r2i == 1 && pd.Digest == a.Digest
								hs = append(hs, h)
							}
						}
					}
				}
			}
		}
		// blobs
		hash := forge.HashOf(w.chains["T"].Leaf().Key.Public())
		var bs []*env
		for mi, m := range carried[:2] {
			bs = append(bs, &env{Label: fmt.Sprintf("hist/%s/T/blobA/carried%d", short(f), mi), Format: f, Family: "history", Blob: true,
				Bytes: w.sign(f, "T", forge.PayloadFor(descWithMeta(blobDesc(blobA, "application/octet-stream", hash), m)), nil, "")})
		}
		for _, lv := range levels {
			for _, p := range bs {
				for _, r1 := range requiredMetas[:4] {
					for ji, j := range bs {
						for r2i := -1; r2i < 4; r2i++ {
							for ci, content := range [][]byte{blobA, blobB} {
								for _, smt := range []string{"", "text/plain"} {
									h := hist{blob: true, lv: lv, prior: histCall{e: p, content: blobA, required: r1}, judged: histCall{e: j, content: content, statedMT: smt}}
									if r2i < 0 {
										h.same = true
									} else {
										h.judged.required = requiredMetas[r2i]
									}
									h.control = ji == 1 && r2i == 1 && ci == 0 && smt == ""
									hs = append(hs, h)
								}
							}
						}
					}
				}
			}
		}
	}
	r.Extra["two_call_histories"] = len(hs)
	r.Parallel(len(hs), func(i int) {
		h := hs[i]
		res := runHistory(r, w, h.blob, h.lv, h.prior, h.judged, h.same)
		kind := "oci"
		if h.blob {
			kind = "blob"
		}
		r.Outcome(kind + "/history:" + res)
		if res == "accepted" {
			r.Nontrivial(fmt.Sprintf("history|%d", i))
		}
		if h.control {
			c.add(res == "accepted")
		}
		if i%997 == 0 {
			r.Sample(map[string]any{"family": "history", "first": h.prior.e.Label, "first_required": vt.MapString(h.prior.required), "second": h.judged.e.Label, "second_required": vt.MapString(h.judged.required), "same_map_object": h.same, "level": h.lv.String()})
		}
	}, nil)
}

// ---------------- signature lists ----------------

// memRepo is a read-only registry.Repository: one artifact, its signatures in listing order.
type memRepo struct {
	artifact ocispec.Descriptor
	sigs     []*env
	page     int // signatures per listing callback; 0 = all at once
}

func (m *memRepo) manifest(i int) ocispec.Descriptor {
	return ocispec.Descriptor{MediaType: mtManifest, Digest: digest.FromString(fmt.Sprintf("signature manifest %d", i)), Size: int64(200 + i)}
}

func (m *memRepo) Resolve(ctx context.Context, reference string) (ocispec.Descriptor, error) {
	return m.artifact, nil
}

func (m *memRepo) ListSignatures(ctx context.Context, desc ocispec.Descriptor, fn func([]ocispec.Descriptor) error) error {
	var all []ocispec.Descriptor
	for i := range m.sigs {
		all = append(all, m.manifest(i))
	}
	if m.page <= 0 {
		return fn(all)
	}
	for len(all) > 0 {
		n := m.page
		if n > len(all) {
			n = len(all)
		}
		if err := fn(all[:n:n]); err != nil {
			return err
		}
		all = all[n:]
	}
	return nil
}

func (m *memRepo) FetchSignatureBlob(ctx context.Context, desc ocispec.Descriptor) ([]byte, ocispec.Descriptor, error) {
	for i, e := range m.sigs {
		if m.manifest(i).Digest == desc.Digest {
			b := append([]byte(nil), e.Bytes...)
			return b, ocispec.Descriptor{MediaType: e.Format, Digest: digest.FromBytes(b), Size: int64(len(b))}, nil
		}
	}
	return nil, ocispec.Descriptor{}, errors.New("memRepo: no such signature")
}

func (m *memRepo) PushSignature(ctx context.Context, mediaType string, blob []byte, subject ocispec.Descriptor, annotations map[string]string) (ocispec.Descriptor, ocispec.Descriptor, error) {
	return ocispec.Descriptor{}, ocispec.Descriptor{}, errors.New("memRepo: read only")
}

func b64(b []byte) string { return base64.StdEncoding.EncodeToString(b) }

// judgeList: notation.Verify succeeded for the artifact `presented`. Some listed envelope must satisfy the whole
// statement, and it must be one a returned error-free outcome reports. Outcomes that carry an error are diagnostics
// (a tree may hand out the failed ones too) and are never judged.
func judgeList(list []*env, outcomes []*notation.VerificationOutcome, presented ocispec.Descriptor, required map[string]string) string {
	var good []*notation.VerificationOutcome
	for _, o := range outcomes {
		if o != nil && o.Error == nil {
			good = append(good, o)
		}
	}
	if len(good) == 0 {
		return "nil-outcome-on-success"
	}
	first, reported := "", ""
	for i, e := range list {
		for _, o := range good {
			why := judge(e, o, presented, nil, false, "", required)
			if why == "" {
				return ""
			}
			if i == 0 && first == "" {
				first = why
			}
			if reported == "" && bytes.Equal(o.RawSignature, e.Bytes) {
				reported = why
			}
		}
	}
	if reported != "" {
		return reported // the reason for the envelope the outcome names
	}
	return first
}

func runList(r *hx.Run, w *world, list []*env, presentedName string, presented ocispec.Descriptor, required map[string]string, lv vt.Level, sa storeAnswer, page int) string {
	v, _, err := newVerifier(w, lv, sa, false)
	if err != nil {
		r.Infra("verifier construction failed for level %v: %v", lv, err)
		return "infra"
	}
	r.Eval(1)
	repo := &memRepo{artifact: presented, sigs: list, page: page}
	_, outcomes, verr := notation.Verify(ctx, v, repo, notation.VerifyOptions{ArtifactReference: "reg.io/r@" + presented.Digest.String(), MaxSignatureAttempts: 50, UserMetadata: cloneMap(required)})
	if verr != nil {
		explain(verr)
		return "rejected"
	}
	if why := judgeList(list, outcomes, presented, required); why != "" {
		var labels []string
		var rl []replayEnv
		for _, e := range list {
			labels = append(labels, e.Label)
			rl = append(rl, e.replay())
		}
		r.Violation("list/"+why, fmt.Sprintf("notation.Verify succeeded for artifact %s with signatures %v (page %d) required=%s level=%v store=%d: no listed signature satisfies the statement", presentedName, labels, page, vt.MapString(required), lv, sa),
			replayCase{Family: "list", Label: labels[0], Format: list[0].Format, Entry: "notation.Verify", Desc: presented, Required: required, Level: lv, Store: int(sa), List: rl, Page: page})
		return "violation"
	}
	return "accepted"
}

func listFamily(r *hx.Run, w *world, levels, fewer []vt.Level, c *ctl) {
	both := map[string]string{"k": "v", "k2": "w"}
	a, b := ociDesc("A"), ociDesc("B")
	type job struct {
		list    []*env
		pname   string
		pd      ocispec.Descriptor
		lv      vt.Level
		page    int
		control bool
	}
	var jobs []job
	for fi, f := range forge.Formats {
		of := forge.Formats[1-fi]
		mk := func(label, format, signer string, d ocispec.Descriptor, m map[string]string, cty string, corrupt bool) *env {
			ch := w.chains[signer]
			return &env{Label: "list/" + short(format) + "/" + label, Format: format, Family: "list",
				Bytes: forge.Build(forge.Spec{Format: format, Chain: ch.X509(), Key: ch.Leaf().Key, Payload: forge.PayloadFor(descWithMeta(d, m)), ContentType: cty, CorruptSig: corrupt})}
		}
		// members agree in signer, artifact and format unless the label says otherwise
		al := []*env{
			mk("T/A/none", f, "T", a, nil, "", false),                                       // 0
			mk("T/A/k", f, "T", a, map[string]string{"k": "v"}, "", false),                  // 1
			mk("T/A/k2", f, "T", a, map[string]string{"k2": "w"}, "", false),                // 2
			mk("T/A/both", f, "T", a, both, "", false),                                      // 3
			mk("T/B/both", f, "T", b, both, "", false),                                      // 4 other artifact
			mk("T/A/k-other-value", f, "T", a, map[string]string{"k": "v2"}, "", false),     // 5
			mk("U/A/both", f, "U", a, both, "", false),                                      // 6 untrusted signer
			mk("T/A1/both", f, "T", ociDesc("A1"), both, "", false),                         // 7 other size
			mk("T/A/both/corrupt-signature", f, "T", a, both, "", true),                     // 8
			mk("T/A/both/wrong-content-type", f, "T", a, both, wrongContentTypes[0], false), // 9
			mk("T/A/k/other-format", of, "T", a, map[string]string{"k": "v"}, "", false),    // 10
		}
		small := al[:5]
		var lists [][]*env
		for _, x := range al {
			lists = append(lists, []*env{x})
			for _, y := range al {
				lists = append(lists, []*env{x, y})
			}
		}
		short12 := len(lists)
		for _, x := range small {
			for _, y := range small {
				for _, z := range small {
					lists = append(lists, []*env{x, y, z})
				}
			}
		}
		for li, l := range lists {
			lvs := levels
			if li >= short12 && !r.Thorough() {
				lvs = fewer
			}
			for _, lv := range lvs {
				// paging of the listing: all at once, one per callback (both for the lists of three), rotating elsewhere
				pages := []int{li % 2}
				if len(l) == 3 {
					pages = []int{0, 1, 2}
				}
				for _, pg := range pages {
					jobs = append(jobs, job{list: l, pname: "A", pd: a, lv: lv, page: pg,
						control: l[len(l)-1] == al[3] && (len(l) == 1 || l[0] == al[4])})
				}
			}
			if li < short12 {
				for _, lv := range fewer {
					jobs = append(jobs, job{list: l, pname: "B", pd: b, lv: lv, page: (li + 1) % 2})
				}
			}
		}
	}
	r.Extra["signature_list_cases"] = len(jobs)
	r.Parallel(len(jobs), func(i int) {
		j := jobs[i]
		for ri, req := range requiredMetas {
			res := runList(r, w, j.list, j.pname, j.pd, req, j.lv, storeTrusted, j.page)
			r.Outcome("list:" + res)
			if res == "accepted" {
				r.Nontrivial(fmt.Sprintf("list|%d|%d", i, ri))
			}
			// control: the signature carrying both pairs, alone or last after one for another artifact
			if j.control && (ri == 0 || ri == 1 || ri == 3 || ri == 4) {
				c.add(res == "accepted")
			}
		}
		if i%499 == 0 {
			var labels []string
			for _, e := range j.list {
				labels = append(labels, e.Label)
			}
			r.Sample(map[string]any{"family": "list", "signatures": labels, "artifact": j.pname, "page": j.page, "level": j.lv.String(), "required_maps": len(requiredMetas)})
		}
	}, nil)
}
