// Family (x): the blob READER as an environment that fails part-way. Everywhere else the reader handed to
// notation.VerifyBlob delivers its bytes without ever returning an error other than io.EOF (readerShapes: whole, one
// byte, half, data together with io.EOF). Here the reader is a faulty view of the presented content P:
//
//	fault value   the error returned: none (control), a permanent error, errors that flag themselves Temporary(),
//	              Timeout(), both, neither (method present, answer false), real errno values (EINTR bare, EAGAIN in a
//	              *fs.PathError), os.ErrDeadlineExceeded, context.Canceled, io.ErrUnexpectedEOF, io.ErrNoProgress and an
//	              error that WRAPS io.EOF (not end of input: io.Reader demands io.EOF itself)
//	position      after 0 bytes, at an inner boundary, after the last byte (before io.EOF)
//	delivery      the error alone, or together with the last bytes before the position (n > 0, err != nil)
//	repetition    returned once, twice (the reader then RESUMES where it stopped), or by every further call
//	capability    io.Reader only; also io.Seeker (rewinds faithfully; a one- or two-shot fault does not come back, a
//	              permanent one sits at its position); io.Seeker whose Seek fails (a pipe behind *os.File); also
//	              io.WriterTo (io.Copy then never calls Read)
//
// Collisions by construction: for every (P, position) the signed alphabet holds genuine signatures for P, for the
// bytes of P BEFORE the position (what a reading that takes the error for the end digests), for the bytes AFTER it
// (what a reading that starts its digest afresh and lets the stream go on digests) and for the empty blob (either of
// them with the position at an end). P itself is blob A, and blob B followed by blob A (an arbitrary prefix in
// front of a signed content).
//
// Oracle unchanged (implication): the artifact under verification is P - the content the reader is a view of, all
// of which it delivers if it is read until io.EOF - so success => the signed descriptor has digest and size of P.
// Whether a fault leads to rejection, to a retry or to a rewind is not judged.
package main

import (
	"context"
	"errors"
	"fmt"
	"io"
	"io/fs"
	"os"
	"syscall"

	"github.com/notaryproject/notation-go"
	"github.com/notaryproject/notation-go/zzverif/lib/forge"
	"github.com/notaryproject/notation-go/zzverif/lib/hx"
	"github.com/notaryproject/notation-go/zzverif/lib/vt"
	ocispec "github.com/opencontainers/image-spec/specs-go/v1"
)

// flagErr is an error that answers the Temporary()/Timeout() questions of net.Error.
type flagErr struct {
	msg                string
	temporary, timeout bool
}

func (e *flagErr) Error() string   { return e.msg }
func (e *flagErr) Temporary() bool { return e.temporary }
func (e *flagErr) Timeout() bool   { return e.timeout }

// faultKinds: name -> error value ("none": the reader never fails).
var faultKinds = []struct {
	Name string
	Err  error
}{
	{"none", nil},
	{"permanent-error", errors.New("mock reader: input/output error")},
	{"temporary-error", &flagErr{"mock reader: resource temporarily unavailable", true, false}},
	{"timeout-error", &flagErr{"mock reader: i/o timeout", false, true}},
	{"temporary-timeout-error", &flagErr{"mock reader: i/o timeout (temporary)", true, true}},
	{"error-flagged-not-temporary", &flagErr{"mock reader: broken", false, false}},
	{"eagain-in-path-error", &fs.PathError{Op: "read", Path: "/dev/stdin", Err: syscall.EAGAIN}},
	{"eintr", syscall.EINTR},
	{"deadline-exceeded", os.ErrDeadlineExceeded},
	{"context-canceled", context.Canceled},
	{"unexpected-eof", io.ErrUnexpectedEOF},
	{"no-progress", io.ErrNoProgress},
	{"error-wrapping-eof", fmt.Errorf("mock reader: read blob: %w", io.EOF)},
}

func faultErr(kind string) error {
	for _, k := range faultKinds {
		if k.Name == kind {
			return k.Err
		}
	}
	panic("unknown fault kind " + kind)
}

var readerCaps = []string{"reader", "seeker", "seeker-seek-fails", "writer-to"}

// faultSpec is one faulty view of a content (stored in replay files).
type faultSpec struct {
	Kind     string `json:"kind"`
	Offset   int    `json:"bytes_before_fault"`
	WithData bool   `json:"error_with_data"` // the call delivering the last bytes before Offset also returns the error
	Repeats  int    `json:"repeats"`         // the error is returned this many times, then the reader resumes; 0 = by every further call
	Cap      string `json:"capability"`
}

func (f faultSpec) String() string {
	rep := fmt.Sprintf("%dx", f.Repeats)
	if f.Repeats == 0 {
		rep = "forever"
	}
	how := "alone"
	if f.WithData {
		how = "with-data"
	}
	return fmt.Sprintf("%s after %d bytes (%s, %s, %s)", f.Kind, f.Offset, how, rep, f.Cap)
}

// faultCore delivers b; at position spec.Offset it returns the error of spec.Kind as scripted.
type faultCore struct {
	b     []byte
	pos   int
	spec  faultSpec
	err   error
	fired int
}

func (c *faultCore) armed() bool {
	return c.err != nil && (c.spec.Repeats == 0 || c.fired < c.spec.Repeats)
}

func (c *faultCore) read(p []byte) (int, error) {
	if len(p) == 0 {
		return 0, nil
	}
	if c.armed() && c.pos <= c.spec.Offset {
		if c.pos == c.spec.Offset {
			c.fired++
			return 0, c.err
		}
		n := copy(p, c.b[c.pos:c.spec.Offset])
		c.pos += n
		if c.pos == c.spec.Offset && c.spec.WithData {
			c.fired++
			return n, c.err
		}
		return n, nil
	}
	if c.pos >= len(c.b) {
		return 0, io.EOF
	}
	n := copy(p, c.b[c.pos:])
	c.pos += n
	return n, nil
}

// one type per capability, so that a type assertion sees exactly the stated method set
type capReader struct{ c *faultCore }

func (r capReader) Read(p []byte) (int, error) { return r.c.read(p) }

type capSeeker struct {
	c     *faultCore
	fails bool
}

func (r capSeeker) Read(p []byte) (int, error) { return r.c.read(p) }
func (r capSeeker) Seek(offset int64, whence int) (int64, error) {
	if r.fails {
		return 0, &fs.PathError{Op: "seek", Path: "/dev/stdin", Err: syscall.ESPIPE}
	}
	var base int64
	switch whence {
	case io.SeekStart:
	case io.SeekCurrent:
		base = int64(r.c.pos)
	case io.SeekEnd:
		base = int64(len(r.c.b))
	default:
		return 0, errors.New("mock reader: invalid whence")
	}
	if base+offset < 0 {
		return 0, errors.New("mock reader: negative position")
	}
	r.c.pos = int(base + offset)
	if r.c.pos > len(r.c.b) {
		r.c.pos = len(r.c.b)
	}
	return int64(r.c.pos), nil
}

type capWriterTo struct{ c *faultCore }

func (r capWriterTo) Read(p []byte) (int, error) { return r.c.read(p) }
func (r capWriterTo) WriteTo(w io.Writer) (int64, error) {
	var total int64
	buf := make([]byte, 16)
	for {
		n, rerr := r.c.read(buf)
		if n > 0 {
			m, werr := w.Write(buf[:n])
			total += int64(m)
			if werr != nil {
				return total, werr
			}
		}
		if rerr == io.EOF {
			return total, nil
		}
		if rerr != nil {
			return total, rerr
		}
	}
}

func (f faultSpec) reader(content []byte) io.Reader {
	c := &faultCore{b: content, spec: f, err: faultErr(f.Kind)}
	switch f.Cap {
	case "reader":
		return capReader{c}
	case "seeker":
		return capSeeker{c, false}
	case "seeker-seek-fails":
		return capSeeker{c, true}
	case "writer-to":
		return capWriterTo{c}
	}
	panic("unknown reader capability " + f.Cap)
}

// runBlobFault: notation.VerifyBlob over a faulty view of content; judged like every blob verification, against
// content.
func runBlobFault(r *hx.Run, w *world, e *env, content []byte, statedMT string, lv vt.Level, named bool, fsp faultSpec) string {
	_, bv, err := newVerifier(w, lv, storeTrusted, false)
	if err != nil {
		r.Infra("verifier construction failed for level %v: %v", lv, err)
		return "infra"
	}
	bo := notation.BlobVerifierVerifyOptions{SignatureMediaType: e.Format}
	if named {
		bo.TrustPolicyName = "p"
	}
	r.Eval(1)
	_, outcome, verr := notation.VerifyBlob(ctx, bv, fsp.reader(content), e.Bytes, notation.VerifyBlobOptions{ContentMediaType: statedMT, BlobVerifierVerifyOptions: bo})
	if verr != nil {
		explain(verr)
		return "rejected"
	}
	if why := judge(e, outcome, ocispec.Descriptor{}, content, true, statedMT, nil); why != "" {
		r.Violation("blob/reader-fault/"+why+":"+fsp.Kind, fmt.Sprintf("notation.VerifyBlob succeeded for envelope %s presented with %d bytes through a reader returning %s, mt=%q level=%v", e.Label, len(content), fsp, statedMT, lv),
			replayCase{Fault: &fsp, Unnamed: !named, Family: e.Family, Label: e.Label, Format: e.Format, Envelope: b64(e.Bytes), Blob: true, Entry: "notation.VerifyBlob", Content: b64(content), StatedMT: statedMT, Level: lv, Store: int(storeTrusted)})
		return "violation"
	}
	return "accepted"
}

func readerFaultFamily(r *hx.Run, w *world, quickLevels, thoroughLevels []vt.Level, c *ctl) {
	levels := quickLevels
	signers := []string{"T"}
	if r.Thorough() {
		levels = thoroughLevels
		signers = []string{"T", "T2"}
	}
	const smt = "application/octet-stream"
	ba := append(append([]byte{}, blobB...), blobA...)
	type pres struct {
		name    string
		content []byte
		offsets []int
	}
	presented := []pres{
		{"A", blobA, []int{0, len(blobA) / 2, len(blobA)}},
		{"B+A", ba, []int{0, len(blobB), len(ba)}},
	}
	if r.Thorough() {
		presented[0].offsets = []int{0, 1, len(blobA) / 2, len(blobA) - 1, len(blobA)}
		presented[1].offsets = []int{0, 1, len(blobB), len(ba) - 1, len(ba)}
	}
	// signed contents: P, every part of P before and after a fault position, the empty blob - each once
	var signed [][]byte
	add := func(b []byte) {
		for _, x := range signed {
			if string(x) == string(b) {
				return
			}
		}
		signed = append(signed, append([]byte{}, b...))
	}
	add(nil)
	for _, p := range presented {
		add(p.content)
		for _, o := range p.offsets {
			add(p.content[:o])
			add(p.content[o:])
		}
	}
	type item struct {
		e       *env
		content []byte
	}
	var items []item
	for _, f := range forge.Formats {
		for _, s := range signers {
			h := forge.HashOf(w.chains[s].Leaf().Key.Public())
			for ci, content := range signed {
				items = append(items, item{&env{Label: fmt.Sprintf("readerfault/%s/%s/signed-content-%d-%dbytes", short(f), s, ci, len(content)), Format: f, Family: "reader-fault", Blob: true,
					Bytes: w.sign(f, s, forge.PayloadFor(blobDesc(content, smt, h)), nil, "")}, content})
			}
		}
	}
	var specs []faultSpec
	for _, k := range faultKinds {
		for _, cp := range readerCaps {
			if k.Err == nil {
				specs = append(specs, faultSpec{Kind: k.Name, Repeats: 1, Cap: cp})
				continue
			}
			for _, withData := range []bool{false, true} {
				for _, rep := range []int{1, 2, 0} {
					specs = append(specs, faultSpec{Kind: k.Name, WithData: withData, Repeats: rep, Cap: cp})
				}
			}
		}
	}
	r.Extra["reader_fault_kinds"] = len(faultKinds)
	r.Extra["reader_capabilities"] = readerCaps
	r.Extra["reader_fault_scripts_per_position"] = len(specs)
	r.Extra["reader_fault_signed_contents"] = len(signed)
	r.Parallel(len(items), func(i int) {
		it := items[i]
		for li, lv := range levels {
			for pi, p := range presented {
				for oi, off := range p.offsets {
					for si, sp := range specs {
						if sp.Kind == "none" && oi > 0 {
							continue // no fault: the position means nothing
						}
						sp.Offset = off
						stated := []string{"", smt}[(pi+oi+si)%2]
						res := runBlobFault(r, w, it.e, p.content, stated, lv, (li+si)%2 == 0, sp)
						r.Outcome("blob/reader-fault:" + res)
						if res == "accepted" {
							r.Nontrivial(fmt.Sprintf("%s|%s|%d|%d|%v", it.e.Label, p.name, off, si, lv))
						}
						// control: the genuine signature of P, read without a fault through every kind of reader
						if sp.Kind == "none" && string(it.content) == string(p.content) {
							c.add(res == "accepted")
						}
					}
				}
			}
		}
		if i%3 == 0 {
			r.Sample(map[string]any{"family": "reader-fault", "envelope": it.e.Label, "presented": []string{"A", "B+A"}, "fault_positions": presented[0].offsets, "scripts_per_position": len(specs)})
		}
	}, nil)
}
