// C01 — accepted signatures are intact and bound to the artifact being verified.
//
// E3: product enumeration of envelopes (fresh, re-assembled from parts of valid
// envelopes, every single-byte mutation and truncation) x presented artifacts x
// required metadata x enforcement maps x trust-store answers x plugin presence.
// Oracle (implication only): success => independent signature check passes,
// Notary payload type, target == presented artifact, required metadata signed.
//
// Added after the third round of seeded defects (all three were alphabet gaps, the oracle is unchanged):
//   - shapes.go  (v)   hand-made payload BYTES with hand labels: members absent / empty / null / zero, other
//     member order, data after or before the document, wrappers, truncation, repeated and case-variant member
//     names; presented descriptors that lack a member themselves; blob verification also directly through the
//     BlobVerifier with the caller's own descriptor generator;
//   - lists.go   (vi)  two-call histories on one fresh verifier, the second call optionally handing in the very
//     map object of the first; (vii) notation.Verify over every list of 1..3 signatures x paging of the listing;
//   - keysalgs.go (round 4) (viii) signed blob digests under every supported algorithm other than the key's x
//     signed content (also empty) x presented content (also empty and an equal-length twin) x reader shapes;
//     (ix) required-metadata KEYS that are not plain words (reserved prefix, near miss, empty, case/blank
//     variants) through all five entry points;
//   - faults.go (round 5) (x) the blob reader as an environment that FAILS part-way: error value (permanent, flagged
//     temporary / timeout, real errnos, wrapped io.EOF ...) x position x error alone or with data x returned once,
//     twice or for ever x reader capability (io.Reader only, io.Seeker, io.Seeker whose Seek fails, io.WriterTo),
//     against genuine signatures for the content, for its part before and after the fault position and for the empty blob;
//   - pairs.go (round 5) (xi) required pairs that differ from the signed pairs as pairs and agree under a flattening
//     into strings (key<sep>value for 15 separators, whole maps joined, values equal after normalisation), through
//     all five entry points;
//   - every call now receives a private copy of the required-metadata map, the oracle keeps the pristine one
//     (the code writing into the caller's map used to change the oracle's expectation as well);
//   - replay.go: a replay trusts the stored envelope's own copy of a trusted root (certificates are regenerated
//     per process, so replays of accepted cases used to fail authenticity at enforcing levels).
package main

import (
	"bytes"
	"context"
	"crypto"
	"encoding/base64"
	"encoding/json"
	"errors"
	"fmt"
	"io"
	"sort"
	"strings"
	"sync"
	"testing/iotest"

	"github.com/notaryproject/notation-go"
	"github.com/notaryproject/notation-go/verifier"
	"github.com/notaryproject/notation-go/verifier/trustpolicy"
	"github.com/notaryproject/notation-go/zzverif/lib/forge"
	"github.com/notaryproject/notation-go/zzverif/lib/hx"
	"github.com/notaryproject/notation-go/zzverif/lib/mocks"
	"github.com/notaryproject/notation-go/zzverif/lib/pki"
	"github.com/notaryproject/notation-go/zzverif/lib/refsig"
	"github.com/notaryproject/notation-go/zzverif/lib/vt"
	fw "github.com/notaryproject/notation-plugin-framework-go/plugin"
	"github.com/opencontainers/go-digest"
	ocispec "github.com/opencontainers/image-spec/specs-go/v1"
)

const mtManifest = "application/vnd.oci.image.manifest.v1+json"

var (
	blobA = []byte("blob content A: the quick brown fox")
	blobB = []byte("blob content B: jumps over the lazy dog")
)

func ociDesc(name string) ocispec.Descriptor {
	dA := digest.FromString("artifact A")
	dB := digest.FromString("artifact B")
	switch name {
	case "A":
		return ocispec.Descriptor{MediaType: mtManifest, Digest: dA, Size: 100}
	case "B":
		return ocispec.Descriptor{MediaType: mtManifest, Digest: dB, Size: 100}
	case "A1":
		return ocispec.Descriptor{MediaType: mtManifest, Digest: dA, Size: 101}
	case "A2":
		return ocispec.Descriptor{MediaType: "application/vnd.oci.image.index.v1+json", Digest: dA, Size: 100}
	case "A+extras":
		return ocispec.Descriptor{MediaType: mtManifest, Digest: dA, Size: 100, URLs: []string{"http://x"}, Data: []byte("zz"), Annotations: map[string]string{"unrelated": "1"}, ArtifactType: "x/y"}
	}
	panic(name)
}

// content types that are NOT the Notary payload type (the signed content type must be exactly that string)
var wrongContentTypes = []string{"application/json", forge.PayloadType + "-seq", forge.PayloadType + "; charset=utf-8", forge.PayloadType + " ", " " + forge.PayloadType,
	"APPLICATION/VND.CNCF.NOTARY.PAYLOAD.V1+JSON", "application/vnd.cncf.notary.payload.v2+json", "application/vnd.cncf.notary.payload.v1", "application/vnd.cncf.notary.payload.v1+jso"}

var signedMetas = []map[string]string{nil, {"k": "v"}, {"k": "v2"}, {"k": "v", "k2": "w"}}
var requiredMetas = []map[string]string{nil, {"k": "v"}, {"k": "v2"}, {"k2": "w"}, {"k": "v", "k2": "w"}, {"k": "v", "missing": "x"}, {"k": ""}}

type env struct {
	Label  string
	Format string
	Bytes  []byte
	Blob   bool // payload describes a blob
	Family string
	// Truth, when set, is what the payload says BY CONSTRUCTION (hand label of a hand-made payload, shapes.go);
	// the oracle then never parses the payload bytes itself. Sub is appended to the violation key (":<shape>").
	Truth *truth
	Sub   string

	once sync.Once
	ref  *refsig.Result
	rerr error
}

func (e *env) refcheck() (*refsig.Result, error) {
	e.once.Do(func() { e.ref, e.rerr = refsig.Verify(e.Format, e.Bytes) })
	return e.ref, e.rerr
}

type world struct {
	chains  map[string]*pki.Chain
	trusted *mocks.TrustStore
}

func descWithMeta(d ocispec.Descriptor, m map[string]string) ocispec.Descriptor {
	if len(m) > 0 {
		d.Annotations = map[string]string{}
		for k, v := range m {
			d.Annotations[k] = v
		}
	}
	return d
}

func blobDesc(content []byte, mt string, h crypto.Hash) ocispec.Descriptor {
	alg := map[crypto.Hash]digest.Algorithm{crypto.SHA256: digest.SHA256, crypto.SHA384: digest.SHA384, crypto.SHA512: digest.SHA512}[h]
	return ocispec.Descriptor{MediaType: mt, Digest: alg.FromBytes(content), Size: int64(len(content))}
}

func buildWorld() *world {
	w := &world{chains: map[string]*pki.Chain{}}
	w.chains["T"] = pki.NewChain(pki.ChainOpts{Len: 3, LeafSpec: pki.EC256, LeafIdx: 0, CAIdx: 0, Prefix: "T"})
	w.chains["T2"] = pki.NewChain(pki.ChainOpts{Len: 2, LeafSpec: pki.EC384, LeafIdx: 0, CAIdx: 1, Prefix: "T2"})
	w.chains["U"] = pki.NewChain(pki.ChainOpts{Len: 3, LeafSpec: pki.EC256, LeafIdx: 1, CAIdx: 2, Prefix: "U"})
	w.trusted = mocks.NewTrustStore().Put("ca", "s", w.chains["T"].Root().Cert, w.chains["T2"].Root().Cert)
	return w
}

func (w *world) sign(format, signer string, payload []byte, ext []forge.Attr, cty string) []byte {
	c := w.chains[signer]
	return forge.Build(forge.Spec{Format: format, Chain: c.X509(), Key: c.Leaf().Key, Payload: payload, Ext: ext, ContentType: cty})
}

// ---- environment dimensions ----

type storeAnswer int

const (
	storeTrusted storeAnswer = iota
	storeEmpty
	storeError
)

func (w *world) store(a storeAnswer) *mocks.TrustStore {
	switch a {
	case storeTrusted:
		t := mocks.NewTrustStore()
		t.Stores = w.trusted.Stores
		t.NoLog = true
		return t
	case storeEmpty:
		t := mocks.NewTrustStore()
		t.NoLog = true
		return t
	default:
		t := mocks.NewTrustStore()
		t.NoLog = true
		t.Errs["ca:s"] = errors.New("mock: store cannot be loaded")
		return t
	}
}

func acceptAllManager() *mocks.Manager {
	m := mocks.NewManager()
	m.NoLog = true
	m.Plugins["acceptall"] = &mocks.VerifyPlugin{Name: "acceptall", Version: "1.0.0", ProcessAll: true, NoLog: true,
		Capabilities: []fw.Capability{fw.CapabilityTrustedIdentityVerifier, fw.CapabilityRevocationCheckVerifier}}
	return m
}

type vkey struct {
	lv string
	sa storeAnswer
	pm bool
}

type vpair struct {
	v   notation.Verifier
	bv  notation.BlobVerifier
	err error
}

// vcache: verifiers are immutable after construction, so one per (level, store answer, plugin manager) is shared.
var vcache sync.Map

func newVerifier(w *world, lv vt.Level, sa storeAnswer, withPM bool) (notation.Verifier, notation.BlobVerifier, error) {
	k := vkey{lv.String(), sa, withPM}
	if p, ok := vcache.Load(k); ok {
		vp := p.(vpair)
		return vp.v, vp.bv, vp.err
	}
	v, bv, err := newVerifierUncached(w, lv, sa, withPM)
	vcache.Store(k, vpair{v, bv, err})
	return v, bv, err
}

func newVerifierUncached(w *world, lv vt.Level, sa storeAnswer, withPM bool) (notation.Verifier, notation.BlobVerifier, error) {
	opts := verifier.VerifierOptions{
		OCITrustPolicy:                 vt.OCIDoc(lv.SV(), []string{"ca:s"}, []string{"*"}),
		BlobTrustPolicy:                vt.BlobDoc(lv.SV(), []string{"ca:s"}, []string{"*"}),
		RevocationCodeSigningValidator: okValidator,
	}
	if withPM {
		opts.PluginManager = acceptAllManager()
	}
	v, err := verifier.NewVerifierWithOptions(w.store(sa), opts)
	if err != nil {
		return nil, nil, err
	}
	return v, v, nil
}

// ---- the oracle ----

type payloadT struct {
	TargetArtifact ocispec.Descriptor `json:"targetArtifact"`
}

// truth is the hand label of a hand-made payload: the target descriptors a conforming reader may take from it
// (several where JSON itself is ambiguous: repeated member names, member names in another letter case); none at
// all when the content is not one JSON document with a target descriptor, i.e. not a Notary payload.
type truth struct {
	Readings []ocispec.Descriptor `json:"readings"`
}

// bindingWhy compares one reading of the signed target descriptor with what was presented and required.
func bindingWhy(t ocispec.Descriptor, presented ocispec.Descriptor, blobContent []byte, isBlob bool, statedMT string, required map[string]string, h crypto.Hash) string {
	if isBlob {
		want := blobDesc(blobContent, statedMT, h)
		if t.Digest != want.Digest {
			return "blob-digest-mismatch"
		}
		if t.Size != want.Size {
			return "blob-size-mismatch"
		}
		if statedMT != "" && t.MediaType != statedMT {
			return "blob-mediatype-mismatch"
		}
	} else {
		if t.Digest != presented.Digest {
			return "descriptor-digest-mismatch"
		}
		if t.Size != presented.Size {
			return "descriptor-size-mismatch"
		}
		if t.MediaType != presented.MediaType {
			return "descriptor-mediatype-mismatch"
		}
	}
	for _, k := range sortedKeys(required) {
		if got, ok := t.Annotations[k]; !ok || got != required[k] {
			return "required-metadata-not-signed"
		}
	}
	return ""
}

func sortedKeys(m map[string]string) []string {
	ks := make([]string, 0, len(m))
	for k := range m {
		ks = append(ks, k)
	}
	sort.Strings(ks)
	return ks
}

func cloneMap(m map[string]string) map[string]string {
	if m == nil {
		return nil
	}
	c := make(map[string]string, len(m))
	for k, v := range m {
		c[k] = v
	}
	return c
}

// judge is called when verification SUCCEEDED; it returns "" or the reason why that success violates C01.
// required is the harness's own pristine copy of what the caller required (never the map object handed to the code).
func judge(e *env, outcome *notation.VerificationOutcome, presented ocispec.Descriptor, blobContent []byte, isBlob bool, statedMT string, required map[string]string) string {
	ref, err := e.refcheck()
	if err != nil {
		return "bad-signature(" + firstWords(err.Error()) + ")"
	}
	if ref.ContentType != forge.PayloadType {
		return "wrong-payload-content-type"
	}
	var readings []ocispec.Descriptor
	if e.Truth != nil {
		if len(e.Truth.Readings) == 0 {
			return "payload-not-a-notary-payload"
		}
		readings = e.Truth.Readings
	} else {
		var p payloadT
		if err := json.Unmarshal(ref.Payload, &p); err != nil {
			return "payload-not-json"
		}
		readings = []ocispec.Descriptor{p.TargetArtifact}
	}
	why := ""
	for i, t := range readings {
		w := bindingWhy(t, presented, blobContent, isBlob, statedMT, required, ref.Hash)
		if w == "" {
			why = ""
			break
		}
		if i == 0 {
			why = w
		}
	}
	if why != "" {
		return why
	}
	if outcome == nil {
		return "nil-outcome-on-success"
	}
	if outcome.Error != nil {
		return "outcome-error-set-on-success"
	}
	if outcome.EnvelopeContent == nil || !bytes.Equal(outcome.EnvelopeContent.Payload.Content, ref.Payload) {
		return "reported-payload-differs-from-signed-payload"
	}
	return ""
}

func firstWords(s string) string {
	f := strings.Fields(s)
	if len(f) > 3 {
		f = f[:3]
	}
	return strings.Join(f, "_")
}

type replayEnv struct {
	Label    string `json:"label"`
	Format   string `json:"format"`
	Envelope string `json:"envelope_b64"`
	Truth    *truth `json:"truth,omitempty"`
}

func (e *env) replay() replayEnv {
	return replayEnv{Label: e.Label, Format: e.Format, Envelope: base64.StdEncoding.EncodeToString(e.Bytes), Truth: e.Truth}
}

func (x replayEnv) env(family string) *env {
	b, _ := base64.StdEncoding.DecodeString(x.Envelope)
	return &env{Label: x.Label, Format: x.Format, Bytes: b, Family: family, Truth: x.Truth}
}

// replayCall is the earlier call of a two-call history.
type replayCall struct {
	Env      replayEnv          `json:"envelope"`
	Desc     ocispec.Descriptor `json:"descriptor"`
	Content  string             `json:"blob_content_b64,omitempty"`
	StatedMT string             `json:"stated_media_type,omitempty"`
	Required map[string]string  `json:"required"`
}

type replayCase struct {
	Family   string             `json:"family"`
	Label    string             `json:"label"`
	Sub      string             `json:"sub,omitempty"`
	Format   string             `json:"format"`
	Envelope string             `json:"envelope_b64"`
	Truth    *truth             `json:"truth,omitempty"`
	Blob     bool               `json:"blob"`
	Entry    string             `json:"entry"`
	Desc     ocispec.Descriptor `json:"descriptor"`
	Content  string             `json:"blob_content_b64,omitempty"`
	StatedMT string             `json:"stated_media_type,omitempty"`
	Required map[string]string  `json:"required"`
	Level    vt.Level           `json:"level"`
	Store    int                `json:"store"`
	PM       bool               `json:"plugin_manager"`
	Reader   int                `json:"reader_shape"`
	Unnamed  bool               `json:"global_blob_policy,omitempty"`   // blob: no trust policy name given (the global statement applies)
	Direct   bool               `json:"direct_blob_verifier,omitempty"` // verifier.VerifyBlob with the caller's own descriptor generator
	// two-call history on one fresh verifier: Prior is executed first; SameMap: the judged call hands in the very
	// map object of the prior call (as the code left it) instead of a fresh map with the content of Required
	Prior   *replayCall `json:"prior,omitempty"`
	SameMap bool        `json:"same_map_object,omitempty"`
	// notation.Verify over a repository listing these signatures in this order, Page per listing callback (0 = all)
	List []replayEnv `json:"list,omitempty"`
	Page int         `json:"page,omitempty"`
	// notation.VerifyBlob over a faulty view of Content (faults.go)
	Fault *faultSpec `json:"reader_fault,omitempty"`
}

var ctx = context.Background()

var okValidator = func() *mocks.Validator { v := mocks.AllOK(); v.NoLog = true; return v }()

// runOCI executes one OCI verification and judges it. Returns outcome class.
func runOCI(r *hx.Run, w *world, e *env, presentedName string, presented ocispec.Descriptor, required map[string]string, lv vt.Level, sa storeAnswer, pm bool) string {
	v, _, err := newVerifier(w, lv, sa, pm)
	if err != nil {
		r.Infra("verifier construction failed for level %v: %v", lv, err)
		return "infra"
	}
	r.Eval(1)
	// the code gets its own copy of the map (the caller's value); the oracle keeps the pristine one
	outcome, verr := v.Verify(ctx, presented, e.Bytes, notation.VerifierVerifyOptions{ArtifactReference: "reg.io/r@" + presented.Digest.String(), SignatureMediaType: e.Format, UserMetadata: cloneMap(required)})
	if verr != nil {
		explain(verr)
		return "rejected"
	}
	if why := judge(e, outcome, presented, nil, false, "", required); why != "" {
		r.Violation("oci/"+e.Family+"/"+why+e.Sub, fmt.Sprintf("Verify succeeded for envelope %s presented with %s required=%s level=%v store=%d pm=%v", e.Label, presentedName, vt.MapString(required), lv, sa, pm),
			replayCase{Family: e.Family, Label: e.Label, Sub: e.Sub, Truth: e.Truth, Format: e.Format, Envelope: base64.StdEncoding.EncodeToString(e.Bytes), Entry: "verifier.Verify", Desc: presented, Required: required, Level: lv, Store: int(sa), PM: pm})
		return "violation"
	}
	return "accepted"
}

// readerShapes are the ways an io.Reader may legally deliver the same bytes (environment answers of the
// blob reader): all at once, one byte per call, half of what is asked for, and the final chunk together with io.EOF.
var readerShapes = []string{"plain", "one-byte", "half", "data-with-eof", "two-chunks-second-with-eof"}

// twoChunk delivers the first half, then the rest together with io.EOF.
type twoChunk struct {
	b    []byte
	call int
}

func (t *twoChunk) Read(p []byte) (int, error) {
	h := len(t.b) / 2
	switch t.call {
	case 0:
		t.call++
		return copy(p, t.b[:h]), nil
	case 1:
		t.call++
		return copy(p, t.b[h:]), io.EOF
	}
	return 0, io.EOF
}

func shapedReader(content []byte, shape int) io.Reader {
	base := bytes.NewReader(content)
	switch shape % len(readerShapes) {
	case 1:
		return iotest.OneByteReader(base)
	case 2:
		return iotest.HalfReader(base)
	case 3:
		return iotest.DataErrReader(base)
	case 4:
		return &twoChunk{b: content}
	}
	return base
}

// blobCall is one blob verification: through notation.VerifyBlob (the library digests the reader) or, direct,
// through the BlobVerifier itself with the caller's own descriptor generator (the caller states the media type
// by what the generator returns).
func blobCall(bv notation.BlobVerifier, e *env, content []byte, statedMT string, pass map[string]string, named, direct bool, shape int) (*notation.VerificationOutcome, error) {
	bo := notation.BlobVerifierVerifyOptions{SignatureMediaType: e.Format, UserMetadata: pass}
	if named {
		bo.TrustPolicyName = "p"
	}
	if direct {
		gen := func(alg digest.Algorithm) (ocispec.Descriptor, error) {
			return ocispec.Descriptor{MediaType: statedMT, Digest: alg.FromBytes(content), Size: int64(len(content))}, nil
		}
		return bv.VerifyBlob(ctx, gen, e.Bytes, bo)
	}
	_, outcome, verr := notation.VerifyBlob(ctx, bv, shapedReader(content, shape), e.Bytes, notation.VerifyBlobOptions{ContentMediaType: statedMT, BlobVerifierVerifyOptions: bo})
	return outcome, verr
}

func runBlob(r *hx.Run, w *world, e *env, content []byte, statedMT string, required map[string]string, lv vt.Level, sa storeAnswer, pm bool, named bool, shape int) string {
	return runBlobVia(r, w, e, content, statedMT, required, lv, sa, pm, named, shape, false)
}

func runBlobVia(r *hx.Run, w *world, e *env, content []byte, statedMT string, required map[string]string, lv vt.Level, sa storeAnswer, pm bool, named bool, shape int, direct bool) string {
	_, bv, err := newVerifier(w, lv, sa, pm)
	if err != nil {
		r.Infra("verifier construction failed for level %v: %v", lv, err)
		return "infra"
	}
	r.Eval(1)
	outcome, verr := blobCall(bv, e, content, statedMT, cloneMap(required), named, direct, shape)
	if verr != nil {
		explain(verr)
		return "rejected"
	}
	entry := "notation.VerifyBlob"
	if direct {
		entry = "verifier.VerifyBlob"
	}
	if why := judge(e, outcome, ocispec.Descriptor{}, content, true, statedMT, required); why != "" {
		r.Violation("blob/"+e.Family+"/"+why+e.Sub, fmt.Sprintf("%s succeeded for envelope %s presented with %d bytes (reader %s) mt=%q required=%s level=%v store=%d pm=%v", entry, e.Label, len(content), readerShapes[shape%len(readerShapes)], statedMT, vt.MapString(required), lv, sa, pm),
			replayCase{Reader: shape, Direct: direct, Unnamed: !named, Family: e.Family, Label: e.Label, Sub: e.Sub, Truth: e.Truth, Format: e.Format, Envelope: base64.StdEncoding.EncodeToString(e.Bytes), Blob: true, Entry: entry, Content: base64.StdEncoding.EncodeToString(content), StatedMT: statedMT, Required: required, Level: lv, Store: int(sa), PM: pm})
		return "violation"
	}
	return "accepted"
}

func main() {
	r := hx.New("C01")
	r.Rule = "every element of the product (envelope family member x presented artifact x required metadata x enforcement map x trust-store answer x plugin manager) is verified once by the real verifier; non-trivial = distinct cases in which verification succeeded (the oracle is evaluated only there) plus distinct mutated/re-assembled envelopes that still parse; further families: hand-made payload byte shapes with hand-labelled admissible readings x presented artifacts (also lacking members) x both blob entry points; every two-call history (first call, then the judged call with a fresh or the very same required-metadata map object) on one fresh verifier; notation.Verify over every list of 1..3 signatures of a collision alphabet x paging; notation.VerifyBlob over every faulty view of a presented content (error value x position x error alone or with data x repetition x reader capability) x genuine signatures for the content, for the bytes before / after the fault position and for the empty blob; every (signed map, required map) of each group of metadata maps that collide when pairs or maps are flattened into strings (key<sep>value, joined maps, normalised values) x the five entry points"
	r.Assumptions = []string{"RSA-PSS/ECDSA/SHA-2 are sound (forgery without the key is not attempted)", "oracle signature check is lib/refsig (standard library only)", "byte mutations cover Hamming distance 1 per byte position with values {^1,^0x80,0} and every truncation",
		"hand-made payloads: content that is not exactly one JSON document holding a target descriptor is not a Notary payload; where JSON leaves the reading open (member name twice, other letter case, BOM) every reading is admissible",
		"a caller that hands the same required-metadata map object to a second call still requires what it put into the map (the library emptying the map does not lower the requirement)",
		"a blob reader that returns an error part-way is a faulty view of the presented content: the artifact under verification is the whole content the reader delivers when read until io.EOF (an error other than io.EOF itself is not the end of the content; after a Seek to the start the content is delivered again); whether such an error leads to rejection, a retry or a rewind is not judged",
		"a required metadata pair is present only if the signed annotations hold exactly that key with exactly that value (byte-wise)"}
	w := buildWorld()

	if r.Replay != "" {
		var c replayCase
		if err := r.LoadReplay(&c); err != nil {
			r.Infra("replay: %v", err)
			r.Finish()
		}
		b, _ := base64.StdEncoding.DecodeString(c.Envelope)
		e := &env{Label: c.Label, Format: c.Format, Bytes: b, Family: c.Family, Blob: c.Blob, Truth: c.Truth, Sub: c.Sub}
		var res string
		replaying = true
		w.adoptRoots(e)
		if c.Prior != nil {
			w.adoptRoots(c.Prior.Env.env(c.Family))
		}
		switch {
		case c.List != nil:
			var list []*env
			for _, x := range c.List {
				list = append(list, x.env(c.Family))
			}
			w.adoptRoots(list...)
			res = runList(r, w, list, "replay", c.Desc, c.Required, c.Level, storeAnswer(c.Store), c.Page)
		case c.Prior != nil:
			content, _ := base64.StdEncoding.DecodeString(c.Content)
			pcontent, _ := base64.StdEncoding.DecodeString(c.Prior.Content)
			res = runHistory(r, w, c.Blob, c.Level,
				histCall{e: c.Prior.Env.env(c.Family), desc: c.Prior.Desc, content: pcontent, statedMT: c.Prior.StatedMT, required: c.Prior.Required},
				histCall{e: e, desc: c.Desc, content: content, statedMT: c.StatedMT, required: c.Required}, c.SameMap)
		case c.Fault != nil:
			content, _ := base64.StdEncoding.DecodeString(c.Content)
			res = runBlobFault(r, w, e, content, c.StatedMT, c.Level, !c.Unnamed, *c.Fault)
		case c.Blob:
			content, _ := base64.StdEncoding.DecodeString(c.Content)
			res = runBlobVia(r, w, e, content, c.StatedMT, c.Required, c.Level, storeAnswer(c.Store), c.PM, !c.Unnamed, c.Reader, c.Direct)
		default:
			res = runOCI(r, w, e, "replay", c.Desc, c.Required, c.Level, storeAnswer(c.Store), c.PM)
		}
		fmt.Println("replay result:", res)
		r.Finish()
	}

	levels := vt.Levels()
	if !r.Thorough() {
		// quick: the three named levels plus five custom maps spread over the table
		l24 := vt.Levels24()
		levels = append(vt.Named(), l24[5], l24[11], l24[14], l24[20], l24[23])
	}
	r.Extra["levels"] = len(levels)
	// reduced level set for the big neighbourhood families
	strictL := vt.Named()[0]
	var auditAllLog vt.Level
	for _, l := range vt.Levels() {
		if l.Base == "audit" && l.Map[trustpolicy.TypeRevocation] == "skip" && l.Map[trustpolicy.TypeAuthenticity] == "log" && l.Map[trustpolicy.TypeExpiry] == "log" && l.Map[trustpolicy.TypeAuthenticTimestamp] == "log" {
			auditAllLog = l
		}
	}
	fewLevels := []vt.Level{strictL, vt.Named()[1], vt.Named()[2], auditAllLog}

	pluginExt := []forge.Attr{{Key: forge.HdrPlugin, Critical: true, Value: "acceptall"}}

	// ---------- family (i): fresh envelopes ----------
	var fresh []*env
	var freshBlob []*env
	for _, f := range forge.Formats {
		for _, s := range []string{"T", "T2", "U"} {
			for _, a := range []string{"A", "B", "A1", "A2"} {
				for mi, m := range signedMetas {
					fresh = append(fresh, &env{Label: fmt.Sprintf("fresh/%s/%s/%s/meta%d", short(f), s, a, mi), Format: f, Family: "fresh",
						Bytes: w.sign(f, s, forge.PayloadFor(descWithMeta(ociDesc(a), m)), nil, "")})
				}
			}
			// plugin-demanding variants (a plugin that accepts everything must not launder anything)
			for _, a := range []string{"A", "B"} {
				fresh = append(fresh, &env{Label: fmt.Sprintf("fresh+plugin/%s/%s/%s/meta1", short(f), s, a), Format: f, Family: "fresh-plugin",
					Bytes: w.sign(f, s, forge.PayloadFor(descWithMeta(ociDesc(a), signedMetas[1])), pluginExt, "")})
			}
			// (iv) wrong payload content type, otherwise perfect: foreign types and near misses of the Notary type
			for ci, cty := range wrongContentTypes {
				if f == forge.COSE && strings.TrimSpace(cty) != cty {
					continue // go-cose (the encoder) refuses to write content types with surrounding blanks
				}
				fresh = append(fresh, &env{Label: fmt.Sprintf("wrongcty%d/%s/%s/A", ci, short(f), s), Format: f, Family: "wrong-content-type",
					Bytes: w.sign(f, s, forge.PayloadFor(ociDesc("A")), nil, cty)})
			}
			// blobs
			h := forge.HashOf(w.chains[s].Leaf().Key.Public())
			for ci, content := range [][]byte{blobA, blobB, {}, blobA[:len(blobA)/2]} {
				for mi, m := range signedMetas[:2] {
					for _, smt := range []string{"application/octet-stream", "text/plain"} {
						freshBlob = append(freshBlob, &env{Label: fmt.Sprintf("freshblob/%s/%s/c%d/meta%d/%s", short(f), s, ci, mi, smt), Format: f, Family: "fresh-blob", Blob: true,
							Bytes: w.sign(f, s, forge.PayloadFor(descWithMeta(blobDesc(content, smt, h), m)), nil, "")})
					}
				}
				// blob signed with the wrong hash (sha256 digest under a P-384 key): digest of the right content, wrong algorithm
				if s == "T2" && ci < 2 {
					freshBlob = append(freshBlob, &env{Label: fmt.Sprintf("freshblob-wronghash/%s/%s/c%d", short(f), s, ci), Format: f, Family: "fresh-blob-wronghash", Blob: true,
						Bytes: w.sign(f, s, forge.PayloadFor(blobDesc(content, "application/octet-stream", crypto.SHA256)), nil, "")})
				}
			}
		}
	}
	presentedNames := []string{"A", "B", "A1", "A2", "A+extras"}
	stores := []storeAnswer{storeTrusted, storeEmpty, storeError}

	var controls, controlsOK int64
	var cmu sync.Mutex
	type job struct {
		e  *env
		lv vt.Level
	}
	var jobs []job
	for _, e := range fresh {
		for _, lv := range levels {
			jobs = append(jobs, job{e, lv})
		}
	}
	r.Parallel(len(jobs), func(i int) {
		j := jobs[i]
		for _, pn := range presentedNames {
			pd := ociDesc(pn)
			for ri, req := range requiredMetas {
				for _, sa := range stores {
					for _, pm := range []bool{false, true} {
						if j.e.Family == "wrong-content-type" && (pn != "A" || ri > 1 || sa == storeError || pm) {
							continue // the content type is judged before anything else: matching artifact, two metadata maps, two store answers
						}
						if pm && j.e.Family != "fresh-plugin" && sa != storeTrusted {
							continue // plugin manager is irrelevant for envelopes that name no plugin; keep one combination
						}
						res := runOCI(r, w, j.e, pn, pd, req, j.lv, sa, pm)
						r.Outcome("oci/" + j.e.Family + ":" + res)
						if res == "accepted" {
							r.Nontrivial(fmt.Sprintf("%s|%s|%d|%v|%d|%v", j.e.Label, pn, ri, j.lv, sa, pm))
						}
						// positive control: honest T signature for A presented as A / A+extras with satisfied metadata and trusted store
						if j.e.Family == "fresh" && strings.Contains(j.e.Label, "/T/A/meta3") && (pn == "A" || pn == "A+extras") && ri != 2 && ri != 5 && ri != 6 && sa == storeTrusted {
							cmu.Lock()
							controls++
							if res == "accepted" {
								controlsOK++
							}
							cmu.Unlock()
						}
					}
				}
			}
		}
		if i%211 == 0 {
			r.Sample(map[string]any{"family": j.e.Family, "envelope": j.e.Label, "level": j.lv.String(), "presented": presentedNames, "required_maps": len(requiredMetas), "stores": 3})
		}
	}, nil)

	// blobs
	blobContents := [][]byte{blobA, blobB, append(append([]byte{}, blobA...), 'x'), {}, blobA[:len(blobA)/2]}
	r.Extra["reader_shapes"] = readerShapes
	statedMTs := []string{"", "application/octet-stream", "text/plain"}
	var bjobs []job
	blobLevels := levels
	if !r.Thorough() {
		blobLevels = fewLevels // quick: named levels + audit/all-log/skip for the blob family
	}
	for _, e := range freshBlob {
		for _, lv := range blobLevels {
			bjobs = append(bjobs, job{e, lv})
		}
	}
	r.Parallel(len(bjobs), func(i int) {
		j := bjobs[i]
		for ci, content := range blobContents {
			for _, smt := range statedMTs {
				for ri, req := range requiredMetas[:4] {
					for _, sa := range stores {
						// every reader shape for the trusted store without required metadata, a rotating shape elsewhere
						shapes := []int{(ci + ri + int(sa)) % len(readerShapes)}
						if sa == storeTrusted && ri == 0 {
							shapes = []int{0, 1, 2, 3, 4}
						}
						var res string
						for _, sh := range shapes {
							res = runBlob(r, w, j.e, content, smt, req, j.lv, sa, false, (ci+ri)%2 == 0, sh)
							r.Outcome("blob/" + j.e.Family + ":" + res)
							if res == "accepted" {
								r.Nontrivial(fmt.Sprintf("%s|c%d|%s|%d|%v|%d|r%d", j.e.Label, ci, smt, ri, j.lv, sa, sh))
							}
						}
						if j.e.Family == "fresh-blob" && strings.Contains(j.e.Label, "/T/c0/meta1/application/octet-stream") && ci == 0 && smt != "text/plain" && ri < 2 && sa == storeTrusted {
							cmu.Lock()
							controls++
							if res == "accepted" {
								controlsOK++
							}
							cmu.Unlock()
						}
					}
				}
			}
		}
	}, nil)

	// ---------- family (ii): re-assembly ----------
	for _, f := range forge.Formats {
		pool := []*env{
			{Bytes: w.sign(f, "T", forge.PayloadFor(ociDesc("A")), nil, "")},
			{Bytes: w.sign(f, "T", forge.PayloadFor(descWithMeta(ociDesc("B"), signedMetas[1])), nil, "")},
			{Bytes: w.sign(f, "T2", forge.PayloadFor(descWithMeta(ociDesc("A"), signedMetas[1])), nil, "")},
			{Bytes: w.sign(f, "U", forge.PayloadFor(descWithMeta(ociDesc("A"), signedMetas[3])), nil, "")},
		}
		var re []*env
		n := len(pool)
		for a := 0; a < n; a++ {
			for b := 0; b < n; b++ {
				for c := 0; c < n; c++ {
					for d := 0; d < n; d++ {
						var out []byte
						if f == forge.JWS {
							pa, pb, pc, pd := forge.SplitJWS(pool[a].Bytes), forge.SplitJWS(pool[b].Bytes), forge.SplitJWS(pool[c].Bytes), forge.SplitJWS(pool[d].Bytes)
							out = forge.JWSParts{Protected: pa.Protected, Payload: pb.Payload, Signature: pc.Signature, Header: pd.Header}.Bytes()
						} else {
							pa, pb, pc, pd := forge.SplitCOSE(pool[a].Bytes), forge.SplitCOSE(pool[b].Bytes), forge.SplitCOSE(pool[c].Bytes), forge.SplitCOSE(pool[d].Bytes)
							out = forge.COSEParts{Protected: pa.Protected, Payload: pb.Payload, Signature: pc.Signature, Unprotected: pd.Unprotected}.Bytes()
						}
						re = append(re, &env{Label: fmt.Sprintf("reassembled/%s/p%d-y%d-s%d-h%d", short(f), a, b, c, d), Format: f, Family: "reassembled", Bytes: out})
					}
				}
			}
		}
		r.Parallel(len(re), func(i int) {
			e := re[i]
			for _, pn := range presentedNames[:4] {
				pd := ociDesc(pn)
				for ri, req := range requiredMetas[:5] {
					for _, lv := range fewLevels {
						for _, sa := range stores[:2] {
							res := runOCI(r, w, e, pn, pd, req, lv, sa, false)
							r.Outcome("oci/reassembled:" + res)
							if res == "accepted" {
								r.Nontrivial(fmt.Sprintf("%s|%s|%d|%v|%d", e.Label, pn, ri, lv, sa))
							}
						}
					}
				}
			}
			if i%37 == 0 {
				r.Sample(map[string]any{"family": "reassembled", "envelope": e.Label})
			}
		}, nil)
	}

	// ---------- family (iii): byte mutations and truncations ----------
	for _, f := range forge.Formats {
		tc := w.chains["T"]
		base := forge.Build(forge.Spec{Format: f, Chain: tc.X509(), Key: tc.Leaf().Key, Payload: forge.PayloadFor(descWithMeta(ociDesc("A"), signedMetas[1])), Agent: "agent/1.0"})
		type mut struct {
			off int
			val int // 0: ^1, 1: ^0x80, 2: =0, 3: truncate at off
		}
		var muts []mut
		for off := 0; off < len(base); off++ {
			for v := 0; v < 4; v++ {
				muts = append(muts, mut{off, v})
			}
		}
		pd := ociDesc("A")
		r.Parallel(len(muts), func(i int) {
			m := muts[i]
			b := append([]byte(nil), base...)
			switch m.val {
			case 0:
				b[m.off] ^= 1
			case 1:
				b[m.off] ^= 0x80
			case 2:
				if b[m.off] == 0 {
					return
				}
				b[m.off] = 0
			case 3:
				b = b[:m.off]
			}
			e := &env{Label: fmt.Sprintf("mutated/%s/off%d/v%d", short(f), m.off, m.val), Format: f, Family: "mutated", Bytes: b}
			for _, lv := range []vt.Level{strictL, auditAllLog} {
				res := runOCI(r, w, e, "A", pd, requiredMetas[1], lv, storeTrusted, false)
				r.Outcome("oci/mutated:" + res)
				if res == "accepted" {
					r.Nontrivial(e.Label + lv.String())
				}
			}
			if i%1999 == 0 {
				r.Sample(map[string]any{"family": "mutated", "envelope": e.Label, "length": len(base)})
			}
		}, nil)
		r.Extra["mutation_base_len_"+short(f)] = len(base)
	}

	// ---------- family (v): hand-made payload shapes; (vi) two-call histories; (vii) signature lists ----------
	extra := &ctl{}
	shapedFamily(r, w, fewLevels, extra)
	historyFamily(r, w, []vt.Level{strictL, auditAllLog}, fewLevels, extra)
	listFamily(r, w, fewLevels, []vt.Level{strictL, auditAllLog}, extra)
	// (viii) digest algorithm of signed blob descriptors; (ix) keys of the required-metadata map (keysalgs.go)
	otherAlgFamily(r, w, fewLevels, extra)
	requiredKeyFamily(r, w, fewLevels, extra)
	// (x) blob readers that fail part-way (faults.go); (xi) required pairs colliding with signed pairs under a
	// flattening of pairs / maps into strings (pairs.go)
	readerFaultFamily(r, w, []vt.Level{strictL, auditAllLog}, fewLevels, extra)
	pairEncodingFamily(r, w, fewLevels, extra)
	controls += extra.n
	controlsOK += extra.ok
	r.Extra["positive_controls_new_families"] = fmt.Sprintf("%d of %d", extra.ok, extra.n)
	if extra.ok == 0 {
		r.Infra("vacuous run: none of the %d positive controls of the shaped/history/list families accepted", extra.n)
	}

	r.Extra["positive_controls"] = controls
	r.Extra["positive_controls_accepted"] = controlsOK
	if controls == 0 || controlsOK == 0 {
		r.Infra("vacuous run: %d of %d positive controls accepted", controlsOK, controls)
	}
	r.Finish()
}

func short(f string) string {
	if f == forge.JWS {
		return "jws"
	}
	return "cose"
}
