// Family (viii): the digest ALGORITHM of a signed blob descriptor as a dimension of its own. Everywhere else a blob
// payload carries the digest under the hash of the signer's key (plus two sha256-under-P-384 cases). Here: every
// signer x every signed content (A, B, empty, prefix of A) x every supported digest algorithm OTHER than the key's,
// presented with every content - among them the empty blob (what a drained reader digests to) and a twin of A of
// equal length (so that size alone never tells them apart) - through every reader shape and through the BlobVerifier
// directly.
//
// Family (ix): the KEYS of the required-metadata map. Everywhere else required keys are "k", "k2", "missing". Here:
// keys with the prefix notation reserves for its own annotations, a near miss of that prefix, the empty key, a key
// in another letter case / with a blank - alone and next to a satisfied ordinary pair - against signatures that do
// and do not carry the pair, through all five entry points (verifier.Verify, notation.Verify with one and two listed
// signatures, notation.VerifyBlob, verifier.VerifyBlob). Oracle unchanged: success => every required pair is signed.
package main

import (
	"crypto"
	"fmt"

	"github.com/notaryproject/notation-go/zzverif/lib/forge"
	"github.com/notaryproject/notation-go/zzverif/lib/hx"
	"github.com/notaryproject/notation-go/zzverif/lib/vt"
)

var allHashes = []crypto.Hash{crypto.SHA256, crypto.SHA384, crypto.SHA512}

func hashName(h crypto.Hash) string {
	return map[crypto.Hash]string{crypto.SHA256: "sha256", crypto.SHA384: "sha384", crypto.SHA512: "sha512"}[h]
}

func otherAlgFamily(r *hx.Run, w *world, levels []vt.Level, c *ctl) {
	twin := append([]byte(nil), blobA...)
	twin[len(twin)-1] ^= 0x20 // same length as A, other content
	signedContents := [][]byte{blobA, blobB, {}, blobA[:len(blobA)/2]}
	presented := [][]byte{blobA, blobB, append(append([]byte{}, blobA...), 'x'), {}, blobA[:len(blobA)/2], twin}
	const smt = "application/octet-stream"
	type item struct {
		e       *env
		ci      int
		control bool // digest under the key's own hash: the honest signature
	}
	var items []item
	for _, f := range forge.Formats {
		for _, s := range []string{"T", "T2", "U"} {
			own := forge.HashOf(w.chains[s].Leaf().Key.Public())
			for ci, content := range signedContents {
				for _, h := range allHashes {
					if h == own && !(s == "T" && ci == 0) {
						continue // the key's own algorithm is the fresh-blob family; one honest control is kept
					}
					items = append(items, item{&env{Label: fmt.Sprintf("blobalg/%s/%s/c%d/%s", short(f), s, ci, hashName(h)), Format: f, Family: "blob-digest-algorithm", Blob: true,
						Bytes: w.sign(f, s, forge.PayloadFor(blobDesc(content, smt, h)), nil, "")}, ci, h == own})
				}
			}
		}
	}
	r.Extra["blob_digest_algorithm_envelopes"] = len(items)
	r.Parallel(len(items), func(i int) {
		it := items[i]
		for _, lv := range levels {
			for pi, content := range presented {
				for mi, stated := range []string{"", smt} {
					for sh := 0; sh <= len(readerShapes); sh++ {
						direct := sh == len(readerShapes)
						res := runBlobVia(r, w, it.e, content, stated, nil, lv, storeTrusted, false, (pi+mi)%2 == 0, sh%len(readerShapes), direct)
						r.Outcome("blob/digest-algorithm:" + res)
						if res == "accepted" {
							r.Nontrivial(fmt.Sprintf("%s|p%d|%d|%v|%d", it.e.Label, pi, mi, lv, sh))
						}
						if it.control && pi == 0 {
							c.add(res == "accepted")
						}
					}
				}
			}
		}
		if i%13 == 0 {
			r.Sample(map[string]any{"family": "blob-digest-algorithm", "envelope": it.e.Label, "presented_contents": len(presented), "reader_shapes_and_direct": len(readerShapes) + 1})
		}
	}, nil)
}

// reservedKey carries the prefix notation reserves for the annotations it writes itself.
const reservedKey = "io.cncf.notary.approval"

// oddRequired: required-metadata maps whose keys are not plain words. None of them is satisfied by a signature
// that carries only {"k":"v"}.
var oddRequired = []map[string]string{
	{reservedKey: "granted"},
	{"k": "v", reservedKey: "granted"},
	{"io.cncf.notary": "x"},
	{"k": "v", "io.cncf.notaryproject": "1"},
	{"io.cncf.notar": "x"}, // near miss of the prefix
	{"": "x"},
	{"k": "v", "": ""},
	{"K": "v"},
	{"k ": "v"},
}

func requiredKeyFamily(r *hx.Run, w *world, levels []vt.Level, c *ctl) {
	a := ociDesc("A")
	hash := forge.HashOf(w.chains["T"].Leaf().Key.Public())
	carried := []map[string]string{nil, {"k": "v"}, {"k": "v", reservedKey: "granted"}, {"k": "v", reservedKey: "denied"}}
	type item struct {
		oci, blob, plain *env
		mi               int
	}
	var items []item
	for _, f := range forge.Formats {
		plain := &env{Label: fmt.Sprintf("reqkey/%s/T/A/plain", short(f)), Format: f, Family: "required-keys", Bytes: w.sign(f, "T", forge.PayloadFor(descWithMeta(a, map[string]string{"k": "v"})), nil, "")}
		for mi, m := range carried {
			items = append(items, item{
				oci:   &env{Label: fmt.Sprintf("reqkey/%s/T/A/carried%d", short(f), mi), Format: f, Family: "required-keys", Bytes: w.sign(f, "T", forge.PayloadFor(descWithMeta(a, m)), nil, "")},
				blob:  &env{Label: fmt.Sprintf("reqkey/%s/T/blobA/carried%d", short(f), mi), Format: f, Family: "required-keys", Blob: true, Bytes: w.sign(f, "T", forge.PayloadFor(descWithMeta(blobDesc(blobA, "application/octet-stream", hash), m)), nil, "")},
				plain: plain, mi: mi})
		}
	}
	reqs := append([]map[string]string{{"k": "v"}}, oddRequired...) // index 0: the ordinary pair (control)
	r.Extra["required_key_maps"] = len(oddRequired)
	r.Parallel(len(items), func(i int) {
		it := items[i]
		for _, lv := range levels {
			for ri, req := range reqs {
				var results []string
				results = append(results, runOCI(r, w, it.oci, "A", a, req, lv, storeTrusted, false))
				results = append(results, runList(r, w, []*env{it.oci}, "A", a, req, lv, storeTrusted, 0))
				results = append(results, runList(r, w, []*env{it.plain, it.oci}, "A", a, req, lv, storeTrusted, ri%2))
				results = append(results, runBlobVia(r, w, it.blob, blobA, "", req, lv, storeTrusted, false, ri%2 == 0, ri%len(readerShapes), false))
				results = append(results, runBlobVia(r, w, it.blob, blobA, "", req, lv, storeTrusted, false, ri%2 == 1, 0, true))
				for ei, res := range results {
					r.Outcome("required-keys:" + res)
					if res == "accepted" {
						r.Nontrivial(fmt.Sprintf("%s|%d|%v|%d", it.oci.Label, ri, lv, ei))
					}
					if ri == 0 && it.mi == 1 {
						c.add(res == "accepted")
					}
				}
			}
		}
		r.Sample(map[string]any{"family": "required-keys", "envelope": it.oci.Label, "required_maps": len(reqs), "entry_points": 5})
	}, nil)
}
