// C05 — revocation checking fails closed over the whole certificate chain.
//
// E3: all result vectors in {OK, NonRevokable, Unknown, Revoked, undefined}^n for
// chains of length 1..4 x method annotations x server errors x validator error x
// validator interface x action x scheme x format, through the real verifier with
// a scripted validator; 3-line aggregation model + call-log clauses.
//
// Round 4 dimensions (all general, see caseT): the REST OF THE LEVEL (actions of authenticity / authentic timestamp /
// expiry in {enforce, log}^3, written from each named base level), the REST OF THE SIGNATURE (any subset of those
// other validations failing while only logged), the KIND of the validator's error (plain, context.Canceled,
// context.DeadlineExceeded, typed, wrapped timeout) and the CALLER'S CONTEXT (done before Verify / ended from inside
// the validator call, by a context the harness owns - no timers decide anything on the unchanged tree).
package main

import (
	"context"
	"crypto/sha1"
	"crypto/sha256"
	"encoding/hex"
	"errors"
	"fmt"
	"runtime"
	"strings"
	"sync"
	"sync/atomic"
	"time"

	"github.com/notaryproject/notation-core-go/revocation/result"
	"github.com/notaryproject/notation-go"
	"github.com/notaryproject/notation-go/verifier"
	"github.com/notaryproject/notation-go/verifier/trustpolicy"
	"github.com/notaryproject/notation-go/zzverif/lib/forge"
	"github.com/notaryproject/notation-go/zzverif/lib/hx"
	"github.com/notaryproject/notation-go/zzverif/lib/mocks"
	"github.com/notaryproject/notation-go/zzverif/lib/pki"
	"github.com/notaryproject/notation-go/zzverif/lib/vt"
	fw "github.com/notaryproject/notation-plugin-framework-go/plugin"
	"github.com/opencontainers/go-digest"
	ocispec "github.com/opencontainers/image-spec/specs-go/v1"

	"crypto/x509"
	"crypto/x509/pkix"
)

var resAlphabet = []result.Result{result.ResultOK, result.ResultNonRevokable, result.ResultUnknown, result.ResultRevoked, result.Result(99)}
var resNames = []string{"OK", "NonRevokable", "Unknown", "Revoked", "undefined(99)"}

var methods = []result.RevocationMethod{result.RevocationMethodOCSP, result.RevocationMethodCRL, result.RevocationMethodOCSPFallbackCRL, result.RevocationMethodUnknown}

type caseT struct {
	N       int    `json:"chain_length"`
	Vec     []int  `json:"vector"` // indices into resAlphabet, leaf first
	Method  int    `json:"method"`
	Servers int    `json:"servers"` // 0 none, 1 one with error, 2 OCSP error + CRL ok
	VErr    bool   `json:"validator_error"`
	Iface   int    `json:"iface"`  // 0 validator, 1 deprecated client, 2 both set
	Action  string `json:"action"` // enforce, log, skip
	Scheme  int    `json:"scheme"` // 0 x509, 1 signingAuthority
	Format  int    `json:"format"`
	// Plugin 1: the signature names a verification plugin whose only verification capability is trusted
	// identity (verdict: success) - revocation is still the library's job and must be performed natively.
	Plugin int `json:"plugin"`
	// Prior 1: the same verifier instance verified the same signature before while the validator answered OK
	// for every certificate; the judged verification must reflect the validator's current answer.
	Prior int `json:"prior"`
	// Ctor 1: the verifier is built with the deprecated verifier.NewWithOptions(policy, store, manager, opts).
	Ctor int `json:"ctor"`
	// EmptyLeafSubject: the leaf certificate has an empty subject DN (identity in a subjectAltName).
	EmptyLeafSubject bool `json:"empty_leaf_subject"`
	// Anchor k > 0: the trust store pins the certificate at chain index k-1 (0 = leaf) instead of the root. Where the
	// trust anchor sits has nothing to do with revocation: the validator still sees the COMPLETE chain and a revoked
	// certificate above the anchor still fails the validation.
	Anchor int `json:"anchor"`
	// The level around the revocation action. Base: 0 strict, 1 permissive, 2 audit (the named level the policy
	// starts from); SibLog: which of the OTHER validations are only logged (bit 1 authenticity, 2 authenticTimestamp,
	// 4 expiry; the rest enforced). Revocation's own action stays Action, reached through the minimal override.
	Base   int `json:"base"`
	SibLog int `json:"siblings_logged"`
	// SibFail: which of the other validations of this very signature FAIL (same bits; only ever a subset of SibLog,
	// so the verification goes on): 1 the chain does not lead to the trust store, 2 the leaf certificate expired
	// before the signing time and before now (no timestamp), 4 the signature's expiry has passed. None of them has
	// anything to do with revocation: it is still performed and judged exactly as for a flawless signature.
	SibFail int `json:"siblings_failing"`
	// ErrKind: which error the validator returns when VErr (0 plain, 1 context.Canceled, 2 context.DeadlineExceeded,
	// 3 result.InvalidChainError, 4 a wrapped timeout error with Timeout() == true).
	ErrKind int `json:"validator_error_kind"`
	// Cancel: the caller's context. 0 live; 1 already cancelled before Verify; 2 cancelled while the validator call
	// is in flight (the validator then answers as scripted); 3 as 2 but the context reports DeadlineExceeded. Only
	// the implications of the statement are judged here (a failing vector must not pass; whatever chain the
	// validator sees is complete): an implementation may legitimately give up with the context's error.
	Cancel int `json:"cancel"`
	// Shape: the Go value the caller implements the validator / the deprecated client with (index into shapes,
	// shapes.go): 0 a pointer to a struct (every case before round 5); a struct value carrying state, a func adapter,
	// a non-nil map; and the STATELESS values whose behaviour lives in package-level state - a pointer to a field-less
	// struct, and the values whose representation is all zero bits: field-less struct, struct with all fields zero,
	// zero integer, zero array, empty string, false. The statement speaks of the validator "the caller supplied": what
	// kind of value implements the interface is the caller's business, the supplied validator is the one consulted
	// and its answers decide. (Interfaces holding a NIL pointer / nil map whose methods are nil-safe are run too, but
	// only recorded: whether that counts as supplied is the implementation's choice.)
	Shape int `json:"validator_shape"`
}

const (
	sibAuth = 1
	sibTS   = 2
	sibExp  = 4
)

var baseNames = []string{"strict", "permissive", "audit"}

// seamCtx is a caller context whose end the harness owns (no timers).
type seamCtx struct {
	context.Context
	mu   sync.Mutex
	done chan struct{}
	err  error
	kind error
}

func newSeamCtx(kind error) *seamCtx {
	return &seamCtx{Context: context.Background(), done: make(chan struct{}), kind: kind}
}
func (s *seamCtx) Done() <-chan struct{} { return s.done }
func (s *seamCtx) Err() error             { s.mu.Lock(); defer s.mu.Unlock(); return s.err }
func (s *seamCtx) fire() {
	s.mu.Lock()
	if s.err == nil {
		s.err = s.kind
		close(s.done)
	}
	s.mu.Unlock()
}

// gid: the id of the calling goroutine (only used to avoid a pointless pause, never to judge).
func gid() string {
	var b [64]byte
	f := strings.Fields(string(b[:runtime.Stack(b[:], false)]))
	if len(f) >= 2 {
		return f[1]
	}
	return ""
}

type timeoutErr struct{}

func (timeoutErr) Error() string   { return "mock: i/o timeout" }
func (timeoutErr) Timeout() bool   { return true }
func (timeoutErr) Temporary() bool { return true }

func validatorError(kind int) error {
	switch kind {
	case 1:
		return context.Canceled
	case 2:
		return context.DeadlineExceeded
	case 3:
		return result.InvalidChainError{Err: errors.New("mock: invalid chain")}
	case 4:
		return fmt.Errorf("mock: validator failed: %w", timeoutErr{})
	}
	return errors.New("mock: validator failed")
}

func (c caseT) vecString() string {
	var p []string
	for _, v := range c.Vec {
		p = append(p, resNames[v])
	}
	return "[" + strings.Join(p, ",") + "]"
}

type world struct {
	emptyChains map[int]*pki.Chain
	chains      map[int]*pki.Chain
	lateChains  map[int]*pki.Chain // same CAs, the leaf expired before the signing time (authentic timestamp fails)
	levels      map[string]vt.Level
	desc        ocispec.Descriptor
	envs        map[string][]byte
	signTime    time.Time

	controls, controlsOK atomic.Int64 // all-OK vectors (positive controls) and how many of them passed
	sibCases, sibFailed  atomic.Int64 // cases built so that another validation fails, and in how many it did
}

func levelKey(base, sibLog int, action string) string {
	return fmt.Sprintf("%d/%d/%s", base, sibLog, action)
}

func act(logged bool) vt.A {
	if logged {
		return "log"
	}
	return "enforce"
}

func (w *world) run(r *hx.Run, c caseT) {
	ch := w.chains[c.N]
	if c.EmptyLeafSubject {
		ch = w.emptyChains[c.N]
	}
	scheme := []string{forge.SchemeX509, forge.SchemeSA}[c.Scheme]
	storeType := []string{"ca", "signingAuthority"}[c.Scheme]
	env := w.envs[fmt.Sprintf("%d/%d/%d/%d", c.N, c.Scheme, c.Format, c.Plugin)]
	if c.EmptyLeafSubject {
		env = w.envs[fmt.Sprintf("e%d/%d/%d", c.N, c.Scheme, c.Format)]
	}
	if c.SibFail&(sibTS|sibExp) != 0 {
		if c.SibFail&sibTS != 0 {
			ch = w.lateChains[c.N]
		}
		env = w.envs[fmt.Sprintf("s%d/%d/%d/%d", c.N, c.Scheme, c.Format, c.SibFail&(sibTS|sibExp))]
	}
	if c.SibFail&^c.SibLog != 0 || c.Base < 0 || c.Base > 2 || ch == nil || env == nil {
		r.Infra("case outside the enumeration: %+v", c)
		return
	}
	// the caller's context (seam): ended by the harness, before the call or from inside the validator
	var ctx context.Context = context.Background()
	var seam *seamCtx
	if c.Cancel > 0 {
		kind := context.Canceled
		if c.Cancel == 3 {
			kind = context.DeadlineExceeded
		}
		seam = newSeamCtx(kind)
		ctx = seam
		if c.Cancel == 1 {
			seam.fire()
		}
	}
	released := make(chan struct{}) // closed when the judged Verify has returned
	var verifyGoroutine string
	priorPhase := c.Prior == 1
	script := func(chain []*x509.Certificate) ([]*result.CertRevocationResult, error) {
		if priorPhase {
			out := make([]*result.CertRevocationResult, len(chain))
			for i := range chain {
				out[i] = &result.CertRevocationResult{Result: result.ResultOK, RevocationMethod: result.RevocationMethodOCSP}
			}
			return out, nil
		}
		if c.Cancel >= 2 {
			// the context ends while this call is in flight. A verifier that waits for the answer on this very
			// goroutine gets it at once; one that called from another goroutine gets it after it had every chance
			// to notice the context (when its Verify returned, at the latest after a bounded pause).
			seam.fire()
			if gid() != verifyGoroutine {
				select {
				case <-released:
				case <-time.After(hx.Budget(250 * time.Millisecond)):
				}
			}
		}
		if c.VErr {
			return nil, validatorError(c.ErrKind)
		}
		out := make([]*result.CertRevocationResult, len(chain))
		for i := range chain {
			rr := resAlphabet[c.Vec[i]]
			cr := &result.CertRevocationResult{Result: rr, RevocationMethod: methods[c.Method]}
			switch c.Servers {
			case 1:
				cr.ServerResults = []*result.ServerResult{{Result: rr, Server: "http://s", Error: errors.New("server error"), RevocationMethod: methods[c.Method]}}
			case 2:
				cr.ServerResults = []*result.ServerResult{
					{Result: result.ResultUnknown, Server: "http://ocsp", Error: errors.New("ocsp down"), RevocationMethod: result.RevocationMethodOCSP},
					{Result: rr, Server: "http://crl", RevocationMethod: result.RevocationMethodCRL}}
			}
			out[i] = cr
		}
		return out, nil
	}
	primary := &mocks.Validator{Results: script}
	other := &mocks.Validator{Results: script}
	opts := verifier.VerifierOptions{}
	if c.Shape < 0 || c.Shape >= len(shapes) {
		r.Infra("case outside the enumeration: %+v", c)
		return
	}
	shape := shapes[c.Shape]
	switch c.Iface {
	case 0:
		sv, _, release := shaped(c.Shape, primary, nil)
		defer release()
		opts.RevocationCodeSigningValidator = sv
	case 1:
		_, sc, release := shaped(c.Shape, nil, primary.Client())
		defer release()
		opts.RevocationClient = sc
	case 2:
		sv, sc, release := shaped(c.Shape, primary, other.Client())
		defer release()
		opts.RevocationCodeSigningValidator = sv
		opts.RevocationClient = sc
	}
	lv, ok := w.levels[levelKey(c.Base, c.SibLog, c.Action)]
	if !ok {
		r.Infra("no level for %+v", c)
		return
	}
	opts.OCITrustPolicy = vt.OCIDoc(lv.SV(), []string{storeType + ":s"}, []string{"*"})
	if c.Plugin == 1 {
		mgr := mocks.NewManager()
		mgr.Plugins["p"] = &mocks.VerifyPlugin{Name: "p", Version: "1.0.0", Capabilities: []fw.Capability{fw.CapabilityTrustedIdentityVerifier}, ProcessAll: true}
		opts.PluginManager = mgr
	}
	pinned := ch.Root().Cert
	if c.Anchor > 0 {
		pinned = ch.X509()[c.Anchor-1]
	}
	if c.SibFail&sibAuth != 0 {
		pinned = w.chains[c.N%4+1].Root().Cert // an unrelated authority: the signature's chain does not lead to the store
	}
	ts := mocks.NewTrustStore().Put(storeType, "s", pinned)
	var v notation.Verifier
	var err error
	if c.Ctor == 1 {
		doc, pm := opts.OCITrustPolicy, opts.PluginManager
		opts.OCITrustPolicy, opts.PluginManager = nil, nil
		v, err = verifier.NewWithOptions(doc, ts, pm, opts)
	} else {
		v, err = verifier.NewVerifierWithOptions(ts, opts)
	}
	if err != nil && !shape.judged {
		r.Outcome("recorded:shape/" + shape.name + "/refused-by-the-constructor")
		return
	}
	if err != nil {
		r.Infra("verifier: %v", err)
		return
	}
	if c.Prior == 1 {
		r.Eval(1)
		_, _ = v.Verify(context.Background(), w.desc, env, notation.VerifierVerifyOptions{ArtifactReference: "reg.io/r@" + w.desc.Digest.String(), SignatureMediaType: forge.Formats[c.Format]})
		priorPhase = false
		primary.Calls, other.Calls = nil, nil
	}
	r.Eval(1)
	verifyGoroutine = gid()
	outcome, verr := v.Verify(ctx, w.desc, env, notation.VerifierVerifyOptions{ArtifactReference: "reg.io/r@" + w.desc.Digest.String(), SignatureMediaType: forge.Formats[c.Format]})
	close(released)
	bad := func(key, what string) {
		if c.Plugin == 1 {
			key += ":with-trusted-identity-plugin"
		}
		if c.Prior == 1 {
			key += ":after-earlier-ok-verification-on-same-verifier"
		}
		if c.Ctor == 1 {
			key += ":deprecated-constructor"
		}
		if c.EmptyLeafSubject {
			key += ":leaf-with-empty-subject"
		}
		if c.Anchor > 0 {
			key += ":trust-anchor-below-the-root"
		}
		if c.SibFail != 0 {
			key += ":another-validation-failed-but-is-logged"
		} else if c.SibLog != 0 || c.Base != 0 {
			key += ":other-validations-at-another-action"
		}
		if c.VErr && c.ErrKind != 0 {
			key += ":typed-validator-error"
		}
		if c.Shape != 0 && shape.zero {
			key += ":stateless-validator-value"
		} else if c.Shape != 0 {
			key += ":validator-value-of-another-kind"
		}
		switch c.Cancel {
		case 1:
			key += ":context-already-done"
		case 2, 3:
			key += ":context-done-during-validator-call"
		}
		r.Violation(key, fmt.Sprintf("%s | n=%d vector=%s method=%v servers=%d validatorError=%v(kind %d) iface=%d action=%s scheme=%s level=%s failingSiblings=%d cancel=%d validatorShape=%s", what, c.N, c.vecString(), methods[c.Method], c.Servers, c.VErr, c.ErrKind, c.Iface, c.Action, scheme, lv, c.SibFail, c.Cancel, shape.name), c)
	}
	if !shape.judged {
		// an interface holding a nil pointer / nil map: recorded only
		r.Outcome(fmt.Sprintf("recorded:shape/%s/consulted=%v", shape.name, len(primary.Calls)+len(other.Calls) > 0))
		return
	}
	if outcome == nil && verr == nil {
		bad("nil-outcome", "Verify returned neither an outcome nor an error")
		return
	}
	rs := vt.ResultOf(outcome, trustpolicy.TypeRevocation) // a nil outcome with an error: no entries
	calls := append([]mocks.RevCall{}, primary.Calls...)

	// reference aggregation
	allOK, anyRevoked := true, false
	for _, x := range c.Vec {
		if x != 0 && x != 1 {
			allOK = false
		}
		if x == 3 {
			anyRevoked = true
		}
	}
	pass := allOK && !c.VErr
	class := "pass"
	if !pass {
		class = "fail-unknown"
		if c.VErr {
			class = "fail-validator-error"
		} else if anyRevoked {
			class = "fail-revoked"
		}
	}

	// What the statement fixes (and nothing else is judged): when revocation is not skipped, the validation passes
	// only if every certificate was reported OK / non-revokable; a revoked certificate makes it fail as revoked and
	// a revoked certificate is named; any other status or a validator error fails it; the validator sees the complete
	// chain, and the authentic signing time exactly for signing-authority signatures; revocation fails closed (an
	// enforced failure rejects). Everything else - what happens under skip (property C02), which interface wins when
	// both are given, how often the validator is asked, how many result entries there are, the action they carry,
	// that an all-OK vector passes (positive control), the wording of messages - is recorded in the evidence only.
	rec := func(k string) { r.Outcome("recorded:" + k) }
	if c.Action == "skip" {
		if len(calls)+len(other.Calls) != 0 {
			rec("skip/validator-consulted")
		}
		if len(rs) != 0 {
			rec("skip/result-reported")
		}
		if verr != nil {
			rec("skip/verification-failed")
		}
		r.Outcome("skip:not-performed")
		return
	}
	if c.SibFail != 0 {
		// non-vacuity of the premise only: the other validations this case was built to fail did fail
		w.sibCases.Add(1)
		asBuilt := true
		for bit, t := range map[int]vt.T{sibAuth: trustpolicy.TypeAuthenticity, sibTS: trustpolicy.TypeAuthenticTimestamp, sibExp: trustpolicy.TypeExpiry} {
			if c.SibFail&bit == 0 {
				continue
			}
			failed := false
			for _, x := range vt.ResultOf(outcome, t) {
				failed = failed || x.Error != nil
			}
			asBuilt = asBuilt && failed
		}
		if asBuilt {
			w.sibFailed.Add(1)
		} else {
			rec("premise/another-validation-built-to-fail-did-not-fail")
		}
	}
	if len(other.Calls) != 0 {
		rec("calls/deprecated-client-consulted-although-validator-set")
		calls = append(calls, other.Calls...)
	}
	if len(calls) == 0 {
		if c.Cancel > 0 {
			rec("calls/none-under-a-done-context") // giving up before asking is the implementation's choice
		} else {
			bad("calls/count", "revocation is not skipped but no validator was consulted")
		}
	}
	if len(calls) > 1 {
		rec("calls/validator-consulted-more-than-once")
	}
	for _, cl := range calls {
		if c.Iface != 1 && !cl.ViaContext {
			rec("calls/context-aware-validator-reached-through-its-deprecated-method")
		}
		want := ch.X509()
		if len(cl.Chain) != len(want) {
			bad("calls/incomplete-chain", fmt.Sprintf("validator received %d certificates, chain has %d", len(cl.Chain), len(want)))
		} else {
			for i := range want {
				if string(cl.Chain[i].Raw) != string(want[i].Raw) {
					bad("calls/chain-differs", fmt.Sprintf("certificate %d handed to the validator is not the signature's", i))
					break
				}
			}
		}
		if c.Scheme == 0 && !cl.SigningTime.IsZero() {
			bad("calls/signing-time-passed-for-x509", fmt.Sprintf("authentic signing time %v handed over for a notary.x509 signature", cl.SigningTime))
		}
		if c.Scheme == 1 && !cl.SigningTime.Equal(w.signTime) {
			bad("calls/wrong-signing-time-for-signing-authority", fmt.Sprintf("got %v want %v", cl.SigningTime, w.signTime))
		}
	}
	if len(rs) != 1 {
		rec(fmt.Sprintf("result/%d-revocation-entries", len(rs)))
	}
	var msgs []string
	for _, x := range rs {
		if x.Error != nil {
			msgs = append(msgs, x.Error.Error())
		}
		if x.Action != vt.A(c.Action) {
			rec("result/action-differs-from-level(property C02)")
		}
	}
	failedReported := len(msgs) > 0
	if pass && c.Cancel > 0 {
		if failedReported || verr != nil {
			rec("cancel/all-ok-vector-not-passed-under-a-done-context")
		}
	} else if pass {
		w.controls.Add(1)
		if failedReported || verr != nil {
			rec("control/all-ok-vector-not-passed")
		} else {
			w.controlsOK.Add(1)
		}
	} else {
		if c.Action == "enforce" && verr == nil {
			bad("verdict/accepted-although-"+class, "revocation enforced and failed, verification succeeded")
		}
		if c.Action == "log" && verr != nil {
			rec("verdict/rejected-although-logged(property C02)")
		}
		if !failedReported {
			if len(rs) > 0 {
				bad("result/passed-although-"+class, "revocation validation passed")
			} else if verr == nil {
				bad("result/passed-although-"+class, "no revocation result reported and verification succeeded: the failure is invisible")
			} else {
				msgs = append(msgs, verr.Error()) // no entry, but the verification error may carry the diagnosis
			}
		}
		msg := strings.Join(msgs, " | ")
		if len(msgs) > 0 && c.Cancel > 0 {
			rec("cancel/failed-under-a-done-context(kind of failure not judged)")
		} else if len(msgs) > 0 {
			if class == "fail-revoked" {
				if !strings.Contains(strings.ToLower(msg), "revok") && !strings.Contains(strings.ToLower(msg), "revoc") {
					bad("result/revoked-not-reported-as-revoked", msg)
				}
				named, anyNameable := false, false
				for i, x := range c.Vec {
					cert := ch.X509()[i]
					if x == 3 && !nameable(cert) {
						named = true // an empty subject cannot be recognised in the message
					}
					if !nameable(cert) {
						continue
					}
					anyNameable = true
					if namedIn(msg, cert) {
						if x == 3 {
							named = true
						} else {
							rec("result/also-names-a-certificate-that-is-not-revoked")
						}
					}
				}
				if !named && anyNameable {
					bad("result/does-not-name-a-revoked-certificate", msg)
				}
			} else if strings.Contains(msg, "is revoked") {
				rec("result/message-says-is-revoked-without-revoked-certificate")
			}
		}
	}
	r.Outcome(c.Action + ":" + class)
	if c.SibFail != 0 {
		r.Outcome(fmt.Sprintf("sibling-failed-logged(%d):%s:%s", c.SibFail, c.Action, class))
	}
	if c.Cancel > 0 {
		r.Outcome(fmt.Sprintf("context-done(%d):%s:%s", c.Cancel, c.Action, class))
	}
	if c.Shape != 0 {
		r.Outcome(fmt.Sprintf("validator-shape(%s):%s:%s", shape.name, c.Action, class))
	}
	if !pass {
		r.Nontrivial(fmt.Sprintf("%d|%v|%d|%d|%v|%d|%s|%d|%d|%d.%d.%d|%d|%d|%d", c.N, c.Vec, c.Method, c.Servers, c.VErr, c.Iface, c.Action, c.Scheme, c.Format, c.Base, c.SibLog, c.SibFail, c.ErrKind, c.Cancel, c.Shape))
	}
}

// nameable: the certificate has something a message can name it by.
func nameable(c *x509.Certificate) bool { return c.Subject.String() != "" }

// namedIn: the message identifies the certificate - by its subject in Go's or in a blank-separated rendering, by its
// common name, its serial number (decimal or hexadecimal) or its SHA-256 / SHA-1 fingerprint. The statement says
// "names a revoked certificate", not how.
func namedIn(msg string, c *x509.Certificate) bool {
	low := strings.ToLower(msg)
	subj := c.Subject.String()
	cands := []string{subj, strings.ReplaceAll(subj, ",", ", ")}
	if c.Subject.CommonName != "" {
		cands = append(cands, c.Subject.CommonName)
	}
	for _, k := range cands {
		if k != "" && strings.Contains(msg, k) {
			return true
		}
	}
	if c.SerialNumber != nil && c.SerialNumber.BitLen() > 16 {
		if strings.Contains(msg, c.SerialNumber.String()) || strings.Contains(low, strings.ToLower(c.SerialNumber.Text(16))) {
			return true
		}
	}
	h2 := sha256.Sum256(c.Raw)
	h1 := sha1.Sum(c.Raw)
	return strings.Contains(low, hex.EncodeToString(h2[:])) || strings.Contains(low, hex.EncodeToString(h1[:]))
}

func main() {
	r := hx.New("C05")
	r.Rule = "all result vectors over {OK, NonRevokable, Unknown, Revoked, undefined}^n (n=1..4, leaf first) crossed with method annotation, per-server errors, validator error (5 kinds), validator interface, action, scheme and format; again under every action combination of the other validations from every named base level and with every subset of the logged other validations failing on the signature; again with the caller's context done before Verify / during the validator call; again with the supplied validator / client being every kind of Go value that can implement the interface (pointer, struct with state, func adapter, map, and the stateless values: pointer to a field-less struct and the all-zero-bits values field-less struct, all-fields-zero struct, zero integer, zero array, empty string, false) through both interfaces and both constructors; one real verifier.Verify per case; non-trivial = distinct cases whose aggregated result is not a pass"
	r.Assumptions = []string{"validator answers with exactly one result per certificate of the chain (vectors of other lengths are outside the quantifier)", "scripted validator from lib/mocks", "the kind of Go value the caller implements the validator / client with is the caller's choice: any non-nil interface value whose dynamic value is not itself a nil pointer / nil map is 'the validator the caller supplied' (nil pointers and nil maps with nil-safe methods are run and recorded, never judged)", "stateless validator values find their script in a package-level slot selected by their type (16 instantiations, handed to the workers through a pool)"}
	w := &world{chains: map[int]*pki.Chain{}, emptyChains: map[int]*pki.Chain{}, lateChains: map[int]*pki.Chain{}, levels: map[string]vt.Level{}, envs: map[string][]byte{}, signTime: time.Now().Add(-48 * time.Hour).Truncate(time.Second).UTC()}
	w.desc = ocispec.Descriptor{MediaType: "application/vnd.oci.image.manifest.v1+json", Digest: digest.FromString("c05"), Size: 3}
	// every way of writing every enforcement map (vt.Levels: 3 named bases x minimal override), by base, the other
	// validations' actions and revocation's action
	for _, l := range vt.Levels() {
		b := map[string]int{"strict": 0, "permissive": 1, "audit": 2}[l.Base]
		sl := 0
		if l.Map[trustpolicy.TypeAuthenticity] == "log" {
			sl |= sibAuth
		}
		if l.Map[trustpolicy.TypeAuthenticTimestamp] == "log" {
			sl |= sibTS
		}
		if l.Map[trustpolicy.TypeExpiry] == "log" {
			sl |= sibExp
		}
		w.levels[levelKey(b, sl, string(l.Map[trustpolicy.TypeRevocation]))] = l
	}
	for n := 1; n <= 4; n++ {
		w.chains[n] = pki.NewChain(pki.ChainOpts{Len: n, Prefix: fmt.Sprintf("len%d", n), CAIdx: n})
		// the same authorities, the same leaf key and name, but the leaf's validity ended a day before the signing
		// time (three days ago): without a timestamp the authentic-timestamp validation fails under both schemes
		lateOpts := pki.ChainOpts{Len: n, Prefix: fmt.Sprintf("len%d", n), CAIdx: n, Leaf: &pki.Tmpl{Subject: pki.Name(fmt.Sprintf("len%d leaf", n)), NotBefore: w.signTime.Add(-30 * 24 * time.Hour), NotAfter: w.signTime.Add(-24 * time.Hour)}}
		if n >= 2 {
			lateOpts.ReuseCAs = w.chains[n].Certs[1:]
		}
		w.lateChains[n] = pki.NewChain(lateOpts)
		for s := 0; s < 2; s++ {
			for f := 0; f < 2; f++ {
				for sf := sibTS; sf <= sibTS|sibExp; sf += 2 { // 2 late leaf, 4 expired signature, 6 both
					sch := w.chains[n]
					if sf&sibTS != 0 {
						sch = w.lateChains[n]
					}
					sp := forge.Spec{Format: forge.Formats[f], Chain: sch.X509(), Key: sch.Leaf().Key, Payload: forge.PayloadFor(w.desc), Scheme: []string{forge.SchemeX509, forge.SchemeSA}[s], SigningTime: w.signTime}
					if sf&sibExp != 0 {
						sp.Expiry = w.signTime.Add(time.Hour) // 47 h ago
					}
					w.envs[fmt.Sprintf("s%d/%d/%d/%d", n, s, f, sf)] = forge.Build(sp)
				}
			}
		}
		if n >= 2 {
			w.emptyChains[n] = pki.NewChain(pki.ChainOpts{Len: n, Prefix: fmt.Sprintf("len%d", n), CAIdx: n, ReuseCAs: w.chains[n].Certs[1:], Leaf: &pki.Tmpl{RawSubject: []pkix.RelativeDistinguishedNameSET{}}})
			for s := 0; s < 2; s++ {
				for f := 0; f < 2; f++ {
					ech := w.emptyChains[n]
					w.envs[fmt.Sprintf("e%d/%d/%d", n, s, f)] = forge.Build(forge.Spec{Format: forge.Formats[f], Chain: ech.X509(), Key: ech.Leaf().Key, Payload: forge.PayloadFor(w.desc), Scheme: []string{forge.SchemeX509, forge.SchemeSA}[s], SigningTime: w.signTime})
				}
			}
		}
		for s := 0; s < 2; s++ {
			for f := 0; f < 2; f++ {
				ch := w.chains[n]
				for pl := 0; pl < 2; pl++ {
					sp := forge.Spec{Format: forge.Formats[f], Chain: ch.X509(), Key: ch.Leaf().Key, Payload: forge.PayloadFor(w.desc), Scheme: []string{forge.SchemeX509, forge.SchemeSA}[s], SigningTime: w.signTime}
					if pl == 1 {
						sp.Ext = []forge.Attr{{Key: forge.HdrPlugin, Critical: true, Value: "p"}}
					}
					w.envs[fmt.Sprintf("%d/%d/%d/%d", n, s, f, pl)] = forge.Build(sp)
				}
			}
		}
	}
	if r.Replay != "" {
		var c caseT
		if err := r.LoadReplay(&c); err != nil {
			r.Infra("replay: %v", err)
		} else {
			w.run(r, c)
		}
		r.Finish()
	}
	var cases []caseT
	shapeCases := 0
	maxAnnot := 3
	if r.Thorough() {
		maxAnnot = 4
	}
	for n := 1; n <= 4; n++ {
		var vecs [][]int
		var rec func(v []int)
		rec = func(v []int) {
			if len(v) == n {
				vecs = append(vecs, append([]int(nil), v...))
				return
			}
			for x := range resAlphabet {
				rec(append(v, x))
			}
		}
		rec(nil)
		for _, vec := range vecs {
			for m := range methods {
				for sv := 0; sv < 3; sv++ {
					if n > maxAnnot && (m != 0 || sv != 0) {
						continue
					}
					for iface := 0; iface < 3; iface++ {
						for _, act := range []string{"enforce", "log", "skip"} {
							for sc := 0; sc < 2; sc++ {
								for f := 0; f < 2; f++ {
									if !r.Thorough() && (m+sv+iface+sc+f+len(vec))%2 == 1 && n >= 3 && (m != 0 || sv != 0) {
										// quick tier: for n>=3 annotated cases keep every other combination of the annotation dims (deterministic)
										continue
									}
									cases = append(cases, caseT{N: n, Vec: vec, Method: m, Servers: sv, Iface: iface, Action: act, Scheme: sc, Format: f})
									if m == 0 && sv == 0 && iface == 0 {
										cases = append(cases, caseT{N: n, Vec: vec, Iface: iface, Action: act, Scheme: sc, Format: f, Plugin: 1})
									}
									if m == 0 && sv == 0 {
										cases = append(cases, caseT{N: n, Vec: vec, Iface: iface, Action: act, Scheme: sc, Format: f, Prior: 1})
										cases = append(cases, caseT{N: n, Vec: vec, Iface: iface, Action: act, Scheme: sc, Format: f, Ctor: 1})
										if n >= 2 && iface == 0 {
											cases = append(cases, caseT{N: n, Vec: vec, Iface: iface, Action: act, Scheme: sc, Format: f, EmptyLeafSubject: true})
										}
										if n >= 2 && iface < 2 && act != "skip" && (f == 0 || r.Thorough()) {
											for a := 1; a < n; a++ { // every certificate below the root as the trust anchor
												cases = append(cases, caseT{N: n, Vec: vec, Iface: iface, Action: act, Scheme: sc, Format: f, Anchor: a})
											}
										}
									}
								}
							}
						}
					}
				}
			}
		}
		// validator-level error, of every kind
		for iface := 0; iface < 3; iface++ {
			for _, act := range []string{"enforce", "log", "skip"} {
				for sc := 0; sc < 2; sc++ {
					for f := 0; f < 2; f++ {
						for ek := 0; ek < 5; ek++ {
							cases = append(cases, caseT{N: n, Vec: make([]int, n), VErr: true, ErrKind: ek, Iface: iface, Action: act, Scheme: sc, Format: f})
						}
					}
				}
			}
		}
		// The rest of the level and the rest of the signature. Revocation's action is one entry of an enforcement
		// map and revocation is one of several validations of a signature: every vector (and the validator error)
		// is judged again (a) under every combination of actions of the OTHER validations (enforce/log for
		// authenticity, authentic timestamp, expiry), written from every named base level, and (b) on signatures
		// on which any subset of those other validations fails while only logged, so that verification goes on.
		// quick: n <= 2 in full, n = 3 on the context-aware validator with exactly the failing validations logged
		// or nothing failing; thorough: n <= 3 in full, n = 4 as quick's n = 3.
		fullSib := n <= 2 || (r.Thorough() && n == 3)
		if fullSib || n == 3 || r.Thorough() {
			vs := append([][]int{}, vecs...)
			vs = append(vs, nil) // nil: the validator error
			for vi, vec := range vs {
				for sl := 0; sl < 8; sl++ {
					for sf := 0; sf < 8; sf++ {
						if sf&^sl != 0 || (!fullSib && sf != 0 && sf != sl) {
							continue
						}
						for iface := 0; iface < 3; iface++ {
							if !fullSib && iface != 0 {
								continue
							}
							for ai, act := range []string{"enforce", "log"} {
								for sc := 0; sc < 2; sc++ {
									for base := 0; base < 3; base++ {
										for f := 0; f < 2; f++ {
											if !r.Thorough() && (base != (vi+sl+sf+iface+ai+sc)%3 || f != (vi+sl+sf+iface+ai+sc+n)%2) {
												continue // quick: base level and format rotate (deterministic)
											}
											if base == 0 && sl == 0 {
												continue // the plain family above
											}
											c := caseT{N: n, Vec: vec, Iface: iface, Action: act, Scheme: sc, Format: f, Base: base, SibLog: sl, SibFail: sf}
											if vec == nil {
												c.Vec, c.VErr = make([]int, n), true
											}
											cases = append(cases, c)
										}
									}
								}
							}
						}
					}
				}
			}
		}
		// The caller's context ends: before Verify, or while the validator call is in flight (cancelled / deadline
		// exceeded); the validator answers as scripted afterwards. quick: n <= 2; thorough: n <= 3.
		if n <= 2 || (r.Thorough() && n == 3) {
			vs := append([][]int{}, vecs...)
			vs = append(vs, nil)
			for _, vec := range vs {
				for cancel := 1; cancel <= 3; cancel++ {
					for iface := 0; iface < 3; iface++ {
						for _, act := range []string{"enforce", "log"} {
							for sc := 0; sc < 2; sc++ {
								for f := 0; f < 2; f++ {
									if !r.Thorough() && f != (cancel+iface+sc)%2 {
										continue
									}
									c := caseT{N: n, Vec: vec, Iface: iface, Action: act, Scheme: sc, Format: f, Cancel: cancel}
									if vec == nil {
										c.Vec, c.VErr = make([]int, n), true
									}
									cases = append(cases, c)
								}
							}
						}
					}
				}
			}
		}
		// The shape of the supplied validator / client value (shapes.go): every kind of Go value that can implement
		// the interface, stateful and stateless, zero-valued or not, through both interfaces (and both set), both
		// constructors, both schemes and formats. quick: all vectors for n <= 2, for n = 3, 4 the all-OK vector and
		// every vector with exactly one certificate not OK, plus the validator error; constructor and format rotate.
		// thorough: all vectors for n <= 3, constructor and format in full. The shapes that are only recorded
		// (nil pointer / nil map) run for n <= 2.
		{
			var vs [][]int
			for _, vec := range vecs {
				dev := 0
				for _, x := range vec {
					if x != 0 {
						dev++
					}
				}
				if n <= 2 || (r.Thorough() && n == 3) || dev <= 1 {
					vs = append(vs, vec)
				}
			}
			vs = append(vs, nil) // nil: the validator error
			for vi, vec := range vs {
				for sh := 1; sh < len(shapes); sh++ {
					if !shapes[sh].judged && n > 2 {
						continue
					}
					for iface := 0; iface < 3; iface++ {
						for ai, act := range []string{"enforce", "log"} {
							for sc := 0; sc < 2; sc++ {
								for ctor := 0; ctor < 2; ctor++ {
									for f := 0; f < 2; f++ {
										if !r.Thorough() && (ctor != (vi+sh+iface+ai+sc)%2 || f != (vi+sh+iface+ai+sc+ctor+n)%2) {
											continue // quick: constructor and format rotate (deterministic)
										}
										c := caseT{N: n, Vec: vec, Iface: iface, Action: act, Scheme: sc, Format: f, Ctor: ctor, Shape: sh}
										if vec == nil {
											c.Vec, c.VErr = make([]int, n), true
										}
										cases = append(cases, c)
										shapeCases++
									}
								}
							}
						}
					}
				}
			}
		}
	}
	r.Extra["cases"] = len(cases)
	r.Extra["cases_over_validator_shapes"] = shapeCases
	var shapeNames []string
	for _, sh := range shapes {
		n := sh.name
		if !sh.judged {
			n += "(recorded only)"
		}
		shapeNames = append(shapeNames, n)
	}
	r.Extra["validator_shapes"] = shapeNames
	r.Parallel(len(cases), func(i int) {
		w.run(r, cases[i])
		if i%4001 == 0 {
			c := cases[i]
			r.Sample(map[string]any{"n": c.N, "vector": c.vecString(), "method": methods[c.Method].String(), "servers": c.Servers, "iface": c.Iface, "action": c.Action, "scheme": c.Scheme})
		}
	}, nil)
	r.Extra["positive_controls"] = w.controls.Load()
	r.Extra["positive_controls_passed"] = w.controlsOK.Load()
	r.Extra["cases_with_another_validation_failing"] = w.sibCases.Load()
	r.Extra["cases_with_another_validation_failing_as_built"] = w.sibFailed.Load()
	if w.sibCases.Load() > 0 && w.sibFailed.Load() == 0 {
		r.Infra("vacuous run: in none of the %d cases built so that another validation fails did it fail", w.sibCases.Load())
	}
	if w.controls.Load() > 0 && w.controlsOK.Load() == 0 {
		r.Infra("vacuous run: none of the %d all-OK vectors passed revocation", w.controls.Load())
	}
	r.Finish()
}
