// C05 — revocation checking fails closed over the whole certificate chain.
//
// E3: all result vectors in {OK, NonRevokable, Unknown, Revoked, undefined}^n for
// chains of length 1..4 x method annotations x server errors x validator error x
// validator interface x action x scheme x format, through the real verifier with
// a scripted validator; 3-line aggregation model + call-log clauses.
package main

import (
	"context"
	"crypto/sha1"
	"crypto/sha256"
	"encoding/hex"
	"sync/atomic"
	"errors"
	"fmt"
	"strings"
	"time"

	"github.com/notaryproject/notation-core-go/revocation/result"
	"github.com/notaryproject/notation-go"
	"github.com/notaryproject/notation-go/verifier"
	"github.com/notaryproject/notation-go/verifier/trustpolicy"
	"github.com/notaryproject/notation-go/zzverif/lib/forge"
	"github.com/notaryproject/notation-go/zzverif/lib/hx"
	"github.com/notaryproject/notation-go/zzverif/lib/mocks"
	"github.com/notaryproject/notation-go/zzverif/lib/pki"
	"github.com/notaryproject/notation-go/zzverif/lib/vt"
	fw "github.com/notaryproject/notation-plugin-framework-go/plugin"
	"github.com/opencontainers/go-digest"
	ocispec "github.com/opencontainers/image-spec/specs-go/v1"

	"crypto/x509"
	"crypto/x509/pkix"
)

var resAlphabet = []result.Result{result.ResultOK, result.ResultNonRevokable, result.ResultUnknown, result.ResultRevoked, result.Result(99)}
var resNames = []string{"OK", "NonRevokable", "Unknown", "Revoked", "undefined(99)"}

var methods = []result.RevocationMethod{result.RevocationMethodOCSP, result.RevocationMethodCRL, result.RevocationMethodOCSPFallbackCRL, result.RevocationMethodUnknown}

type caseT struct {
	N       int    `json:"chain_length"`
	Vec     []int  `json:"vector"` // indices into resAlphabet, leaf first
	Method  int    `json:"method"`
	Servers int    `json:"servers"` // 0 none, 1 one with error, 2 OCSP error + CRL ok
	VErr    bool   `json:"validator_error"`
	Iface   int    `json:"iface"`  // 0 validator, 1 deprecated client, 2 both set
	Action  string `json:"action"` // enforce, log, skip
	Scheme  int    `json:"scheme"` // 0 x509, 1 signingAuthority
	Format  int    `json:"format"`
	// Plugin 1: the signature names a verification plugin whose only verification capability is trusted
	// identity (verdict: success) - revocation is still the library's job and must be performed natively.
	Plugin int `json:"plugin"`
	// Prior 1: the same verifier instance verified the same signature before while the validator answered OK
	// for every certificate; the judged verification must reflect the validator's current answer.
	Prior int `json:"prior"`
	// Ctor 1: the verifier is built with the deprecated verifier.NewWithOptions(policy, store, manager, opts).
	Ctor int `json:"ctor"`
	// EmptyLeafSubject: the leaf certificate has an empty subject DN (identity in a subjectAltName).
	EmptyLeafSubject bool `json:"empty_leaf_subject"`
	// Anchor k > 0: the trust store pins the certificate at chain index k-1 (0 = leaf) instead of the root. Where the
	// trust anchor sits has nothing to do with revocation: the validator still sees the COMPLETE chain and a revoked
	// certificate above the anchor still fails the validation.
	Anchor int `json:"anchor"`
}

func (c caseT) vecString() string {
	var p []string
	for _, v := range c.Vec {
		p = append(p, resNames[v])
	}
	return "[" + strings.Join(p, ",") + "]"
}

type world struct {
	emptyChains map[int]*pki.Chain
	chains      map[int]*pki.Chain
	desc        ocispec.Descriptor
	envs        map[string][]byte
	signTime    time.Time

	controls, controlsOK atomic.Int64 // all-OK vectors (positive controls) and how many of them passed
}

var ctx = context.Background()

func (w *world) run(r *hx.Run, c caseT) {
	ch := w.chains[c.N]
	if c.EmptyLeafSubject {
		ch = w.emptyChains[c.N]
	}
	scheme := []string{forge.SchemeX509, forge.SchemeSA}[c.Scheme]
	storeType := []string{"ca", "signingAuthority"}[c.Scheme]
	env := w.envs[fmt.Sprintf("%d/%d/%d/%d", c.N, c.Scheme, c.Format, c.Plugin)]
	if c.EmptyLeafSubject {
		env = w.envs[fmt.Sprintf("e%d/%d/%d", c.N, c.Scheme, c.Format)]
	}
	priorPhase := c.Prior == 1
	script := func(chain []*x509.Certificate) ([]*result.CertRevocationResult, error) {
		if priorPhase {
			out := make([]*result.CertRevocationResult, len(chain))
			for i := range chain {
				out[i] = &result.CertRevocationResult{Result: result.ResultOK, RevocationMethod: result.RevocationMethodOCSP}
			}
			return out, nil
		}
		if c.VErr {
			return nil, errors.New("mock: validator failed")
		}
		out := make([]*result.CertRevocationResult, len(chain))
		for i := range chain {
			rr := resAlphabet[c.Vec[i]]
			cr := &result.CertRevocationResult{Result: rr, RevocationMethod: methods[c.Method]}
			switch c.Servers {
			case 1:
				cr.ServerResults = []*result.ServerResult{{Result: rr, Server: "http://s", Error: errors.New("server error"), RevocationMethod: methods[c.Method]}}
			case 2:
				cr.ServerResults = []*result.ServerResult{
					{Result: result.ResultUnknown, Server: "http://ocsp", Error: errors.New("ocsp down"), RevocationMethod: result.RevocationMethodOCSP},
					{Result: rr, Server: "http://crl", RevocationMethod: result.RevocationMethodCRL}}
			}
			out[i] = cr
		}
		return out, nil
	}
	primary := &mocks.Validator{Results: script}
	other := &mocks.Validator{Results: script}
	opts := verifier.VerifierOptions{}
	switch c.Iface {
	case 0:
		opts.RevocationCodeSigningValidator = primary
	case 1:
		opts.RevocationClient = primary.Client()
	case 2:
		opts.RevocationCodeSigningValidator = primary
		opts.RevocationClient = other.Client()
	}
	lv := vt.Level{Base: "strict", Map: map[vt.T]vt.A{trustpolicy.TypeRevocation: vt.A(c.Action)}}
	if c.Action != "enforce" {
		lv.Override = map[vt.T]vt.A{trustpolicy.TypeRevocation: vt.A(c.Action)}
	}
	opts.OCITrustPolicy = vt.OCIDoc(lv.SV(), []string{storeType + ":s"}, []string{"*"})
	if c.Plugin == 1 {
		mgr := mocks.NewManager()
		mgr.Plugins["p"] = &mocks.VerifyPlugin{Name: "p", Version: "1.0.0", Capabilities: []fw.Capability{fw.CapabilityTrustedIdentityVerifier}, ProcessAll: true}
		opts.PluginManager = mgr
	}
	pinned := ch.Root().Cert
	if c.Anchor > 0 {
		pinned = ch.X509()[c.Anchor-1]
	}
	ts := mocks.NewTrustStore().Put(storeType, "s", pinned)
	var v notation.Verifier
	var err error
	if c.Ctor == 1 {
		doc, pm := opts.OCITrustPolicy, opts.PluginManager
		opts.OCITrustPolicy, opts.PluginManager = nil, nil
		v, err = verifier.NewWithOptions(doc, ts, pm, opts)
	} else {
		v, err = verifier.NewVerifierWithOptions(ts, opts)
	}
	if err != nil {
		r.Infra("verifier: %v", err)
		return
	}
	if c.Prior == 1 {
		r.Eval(1)
		_, _ = v.Verify(ctx, w.desc, env, notation.VerifierVerifyOptions{ArtifactReference: "reg.io/r@" + w.desc.Digest.String(), SignatureMediaType: forge.Formats[c.Format]})
		priorPhase = false
		primary.Calls, other.Calls = nil, nil
	}
	r.Eval(1)
	outcome, verr := v.Verify(ctx, w.desc, env, notation.VerifierVerifyOptions{ArtifactReference: "reg.io/r@" + w.desc.Digest.String(), SignatureMediaType: forge.Formats[c.Format]})
	bad := func(key, what string) {
		if c.Plugin == 1 {
			key += ":with-trusted-identity-plugin"
		}
		if c.Prior == 1 {
			key += ":after-earlier-ok-verification-on-same-verifier"
		}
		if c.Ctor == 1 {
			key += ":deprecated-constructor"
		}
		if c.EmptyLeafSubject {
			key += ":leaf-with-empty-subject"
		}
		if c.Anchor > 0 {
			key += ":trust-anchor-below-the-root"
		}
		r.Violation(key, fmt.Sprintf("%s | n=%d vector=%s method=%v servers=%d validatorError=%v iface=%d action=%s scheme=%s", what, c.N, c.vecString(), methods[c.Method], c.Servers, c.VErr, c.Iface, c.Action, scheme), c)
	}
	if outcome == nil && verr == nil {
		bad("nil-outcome", "Verify returned neither an outcome nor an error")
		return
	}
	rs := vt.ResultOf(outcome, trustpolicy.TypeRevocation) // a nil outcome with an error: no entries
	calls := append([]mocks.RevCall{}, primary.Calls...)

	// reference aggregation
	allOK, anyRevoked := true, false
	for _, x := range c.Vec {
		if x != 0 && x != 1 {
			allOK = false
		}
		if x == 3 {
			anyRevoked = true
		}
	}
	pass := allOK && !c.VErr
	class := "pass"
	if !pass {
		class = "fail-unknown"
		if c.VErr {
			class = "fail-validator-error"
		} else if anyRevoked {
			class = "fail-revoked"
		}
	}

	// What the statement fixes (and nothing else is judged): when revocation is not skipped, the validation passes
	// only if every certificate was reported OK / non-revokable; a revoked certificate makes it fail as revoked and
	// a revoked certificate is named; any other status or a validator error fails it; the validator sees the complete
	// chain, and the authentic signing time exactly for signing-authority signatures; revocation fails closed (an
	// enforced failure rejects). Everything else - what happens under skip (property C02), which interface wins when
	// both are given, how often the validator is asked, how many result entries there are, the action they carry,
	// that an all-OK vector passes (positive control), the wording of messages - is recorded in the evidence only.
	rec := func(k string) { r.Outcome("recorded:" + k) }
	if c.Action == "skip" {
		if len(calls)+len(other.Calls) != 0 {
			rec("skip/validator-consulted")
		}
		if len(rs) != 0 {
			rec("skip/result-reported")
		}
		if verr != nil {
			rec("skip/verification-failed")
		}
		r.Outcome("skip:not-performed")
		return
	}
	if len(other.Calls) != 0 {
		rec("calls/deprecated-client-consulted-although-validator-set")
		calls = append(calls, other.Calls...)
	}
	if len(calls) == 0 {
		bad("calls/count", "revocation is not skipped but no validator was consulted")
	}
	if len(calls) > 1 {
		rec("calls/validator-consulted-more-than-once")
	}
	for _, cl := range calls {
		if c.Iface != 1 && !cl.ViaContext {
			rec("calls/context-aware-validator-reached-through-its-deprecated-method")
		}
		want := ch.X509()
		if len(cl.Chain) != len(want) {
			bad("calls/incomplete-chain", fmt.Sprintf("validator received %d certificates, chain has %d", len(cl.Chain), len(want)))
		} else {
			for i := range want {
				if string(cl.Chain[i].Raw) != string(want[i].Raw) {
					bad("calls/chain-differs", fmt.Sprintf("certificate %d handed to the validator is not the signature's", i))
					break
				}
			}
		}
		if c.Scheme == 0 && !cl.SigningTime.IsZero() {
			bad("calls/signing-time-passed-for-x509", fmt.Sprintf("authentic signing time %v handed over for a notary.x509 signature", cl.SigningTime))
		}
		if c.Scheme == 1 && !cl.SigningTime.Equal(w.signTime) {
			bad("calls/wrong-signing-time-for-signing-authority", fmt.Sprintf("got %v want %v", cl.SigningTime, w.signTime))
		}
	}
	if len(rs) != 1 {
		rec(fmt.Sprintf("result/%d-revocation-entries", len(rs)))
	}
	var msgs []string
	for _, x := range rs {
		if x.Error != nil {
			msgs = append(msgs, x.Error.Error())
		}
		if x.Action != vt.A(c.Action) {
			rec("result/action-differs-from-level(property C02)")
		}
	}
	failedReported := len(msgs) > 0
	if pass {
		w.controls.Add(1)
		if failedReported || verr != nil {
			rec("control/all-ok-vector-not-passed")
		} else {
			w.controlsOK.Add(1)
		}
	} else {
		if c.Action == "enforce" && verr == nil {
			bad("verdict/accepted-although-"+class, "revocation enforced and failed, verification succeeded")
		}
		if c.Action == "log" && verr != nil {
			rec("verdict/rejected-although-logged(property C02)")
		}
		if !failedReported {
			if len(rs) > 0 {
				bad("result/passed-although-"+class, "revocation validation passed")
			} else if verr == nil {
				bad("result/passed-although-"+class, "no revocation result reported and verification succeeded: the failure is invisible")
			} else {
				msgs = append(msgs, verr.Error()) // no entry, but the verification error may carry the diagnosis
			}
		}
		msg := strings.Join(msgs, " | ")
		if len(msgs) > 0 {
			if class == "fail-revoked" {
				if !strings.Contains(strings.ToLower(msg), "revok") && !strings.Contains(strings.ToLower(msg), "revoc") {
					bad("result/revoked-not-reported-as-revoked", msg)
				}
				named, anyNameable := false, false
				for i, x := range c.Vec {
					cert := ch.X509()[i]
					if x == 3 && !nameable(cert) {
						named = true // an empty subject cannot be recognised in the message
					}
					if !nameable(cert) {
						continue
					}
					anyNameable = true
					if namedIn(msg, cert) {
						if x == 3 {
							named = true
						} else {
							rec("result/also-names-a-certificate-that-is-not-revoked")
						}
					}
				}
				if !named && anyNameable {
					bad("result/does-not-name-a-revoked-certificate", msg)
				}
			} else if strings.Contains(msg, "is revoked") {
				rec("result/message-says-is-revoked-without-revoked-certificate")
			}
		}
	}
	r.Outcome(c.Action + ":" + class)
	if !pass {
		r.Nontrivial(fmt.Sprintf("%d|%v|%d|%d|%v|%d|%s|%d|%d", c.N, c.Vec, c.Method, c.Servers, c.VErr, c.Iface, c.Action, c.Scheme, c.Format))
	}
}

// nameable: the certificate has something a message can name it by.
func nameable(c *x509.Certificate) bool { return c.Subject.String() != "" }

// namedIn: the message identifies the certificate - by its subject in Go's or in a blank-separated rendering, by its
// common name, its serial number (decimal or hexadecimal) or its SHA-256 / SHA-1 fingerprint. The statement says
// "names a revoked certificate", not how.
func namedIn(msg string, c *x509.Certificate) bool {
	low := strings.ToLower(msg)
	subj := c.Subject.String()
	cands := []string{subj, strings.ReplaceAll(subj, ",", ", ")}
	if c.Subject.CommonName != "" {
		cands = append(cands, c.Subject.CommonName)
	}
	for _, k := range cands {
		if k != "" && strings.Contains(msg, k) {
			return true
		}
	}
	if c.SerialNumber != nil && c.SerialNumber.BitLen() > 16 {
		if strings.Contains(msg, c.SerialNumber.String()) || strings.Contains(low, strings.ToLower(c.SerialNumber.Text(16))) {
			return true
		}
	}
	h2 := sha256.Sum256(c.Raw)
	h1 := sha1.Sum(c.Raw)
	return strings.Contains(low, hex.EncodeToString(h2[:])) || strings.Contains(low, hex.EncodeToString(h1[:]))
}

func main() {
	r := hx.New("C05")
	r.Rule = "all result vectors over {OK, NonRevokable, Unknown, Revoked, undefined}^n (n=1..4, leaf first) crossed with method annotation, per-server errors, validator error, validator interface, action, scheme and format; one real verifier.Verify per case; non-trivial = distinct cases whose aggregated result is not a pass"
	r.Assumptions = []string{"validator answers with exactly one result per certificate of the chain (vectors of other lengths are outside the quantifier)", "scripted validator from lib/mocks"}
	w := &world{chains: map[int]*pki.Chain{}, emptyChains: map[int]*pki.Chain{}, envs: map[string][]byte{}, signTime: time.Now().Add(-48 * time.Hour).Truncate(time.Second).UTC()}
	w.desc = ocispec.Descriptor{MediaType: "application/vnd.oci.image.manifest.v1+json", Digest: digest.FromString("c05"), Size: 3}
	for n := 1; n <= 4; n++ {
		w.chains[n] = pki.NewChain(pki.ChainOpts{Len: n, Prefix: fmt.Sprintf("len%d", n), CAIdx: n})
		if n >= 2 {
			w.emptyChains[n] = pki.NewChain(pki.ChainOpts{Len: n, Prefix: fmt.Sprintf("len%d", n), CAIdx: n, ReuseCAs: w.chains[n].Certs[1:], Leaf: &pki.Tmpl{RawSubject: []pkix.RelativeDistinguishedNameSET{}}})
			for s := 0; s < 2; s++ {
				for f := 0; f < 2; f++ {
					ech := w.emptyChains[n]
					w.envs[fmt.Sprintf("e%d/%d/%d", n, s, f)] = forge.Build(forge.Spec{Format: forge.Formats[f], Chain: ech.X509(), Key: ech.Leaf().Key, Payload: forge.PayloadFor(w.desc), Scheme: []string{forge.SchemeX509, forge.SchemeSA}[s], SigningTime: w.signTime})
				}
			}
		}
		for s := 0; s < 2; s++ {
			for f := 0; f < 2; f++ {
				ch := w.chains[n]
				for pl := 0; pl < 2; pl++ {
					sp := forge.Spec{Format: forge.Formats[f], Chain: ch.X509(), Key: ch.Leaf().Key, Payload: forge.PayloadFor(w.desc), Scheme: []string{forge.SchemeX509, forge.SchemeSA}[s], SigningTime: w.signTime}
					if pl == 1 {
						sp.Ext = []forge.Attr{{Key: forge.HdrPlugin, Critical: true, Value: "p"}}
					}
					w.envs[fmt.Sprintf("%d/%d/%d/%d", n, s, f, pl)] = forge.Build(sp)
				}
			}
		}
	}
	if r.Replay != "" {
		var c caseT
		if err := r.LoadReplay(&c); err != nil {
			r.Infra("replay: %v", err)
		} else {
			w.run(r, c)
		}
		r.Finish()
	}
	var cases []caseT
	maxAnnot := 3
	if r.Thorough() {
		maxAnnot = 4
	}
	for n := 1; n <= 4; n++ {
		var vecs [][]int
		var rec func(v []int)
		rec = func(v []int) {
			if len(v) == n {
				vecs = append(vecs, append([]int(nil), v...))
				return
			}
			for x := range resAlphabet {
				rec(append(v, x))
			}
		}
		rec(nil)
		for _, vec := range vecs {
			for m := range methods {
				for sv := 0; sv < 3; sv++ {
					if n > maxAnnot && (m != 0 || sv != 0) {
						continue
					}
					for iface := 0; iface < 3; iface++ {
						for _, act := range []string{"enforce", "log", "skip"} {
							for sc := 0; sc < 2; sc++ {
								for f := 0; f < 2; f++ {
									if !r.Thorough() && (m+sv+iface+sc+f+len(vec))%2 == 1 && n >= 3 && (m != 0 || sv != 0) {
										// quick tier: for n>=3 annotated cases keep every other combination of the annotation dims (deterministic)
										continue
									}
									cases = append(cases, caseT{N: n, Vec: vec, Method: m, Servers: sv, Iface: iface, Action: act, Scheme: sc, Format: f})
									if m == 0 && sv == 0 && iface == 0 {
										cases = append(cases, caseT{N: n, Vec: vec, Iface: iface, Action: act, Scheme: sc, Format: f, Plugin: 1})
									}
									if m == 0 && sv == 0 {
										cases = append(cases, caseT{N: n, Vec: vec, Iface: iface, Action: act, Scheme: sc, Format: f, Prior: 1})
										cases = append(cases, caseT{N: n, Vec: vec, Iface: iface, Action: act, Scheme: sc, Format: f, Ctor: 1})
										if n >= 2 && iface == 0 {
											cases = append(cases, caseT{N: n, Vec: vec, Iface: iface, Action: act, Scheme: sc, Format: f, EmptyLeafSubject: true})
										}
										if n >= 2 && iface < 2 && act != "skip" && (f == 0 || r.Thorough()) {
											for a := 1; a < n; a++ { // every certificate below the root as the trust anchor
												cases = append(cases, caseT{N: n, Vec: vec, Iface: iface, Action: act, Scheme: sc, Format: f, Anchor: a})
											}
										}
									}
								}
							}
						}
					}
				}
			}
		}
		// validator-level error
		for iface := 0; iface < 3; iface++ {
			for _, act := range []string{"enforce", "log", "skip"} {
				for sc := 0; sc < 2; sc++ {
					for f := 0; f < 2; f++ {
						cases = append(cases, caseT{N: n, Vec: make([]int, n), VErr: true, Iface: iface, Action: act, Scheme: sc, Format: f})
					}
				}
			}
		}
	}
	r.Extra["cases"] = len(cases)
	r.Parallel(len(cases), func(i int) {
		w.run(r, cases[i])
		if i%4001 == 0 {
			c := cases[i]
			r.Sample(map[string]any{"n": c.N, "vector": c.vecString(), "method": methods[c.Method].String(), "servers": c.Servers, "iface": c.Iface, "action": c.Action, "scheme": c.Scheme})
		}
	}, nil)
	r.Extra["positive_controls"] = w.controls.Load()
	r.Extra["positive_controls_passed"] = w.controlsOK.Load()
	if w.controls.Load() > 0 && w.controlsOK.Load() == 0 {
		r.Infra("vacuous run: none of the %d all-OK vectors passed revocation", w.controls.Load())
	}
	r.Finish()
}
