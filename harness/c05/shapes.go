// The SHAPE of the caller-supplied validator / deprecated client (round 5).
//
// verifier.VerifierOptions takes the validator and the client as INTERFACE values; the statement quantifies over
// "whether the caller supplied the context-aware validator or the deprecated client" and says nothing about the Go type
// the caller implements them with. Until round 5 every case handed over a pointer to a struct (validator) or a struct
// holding a pointer (client). This file adds the whole dimension: the same scripted, logging behaviour reached through
// values of every kind a Go interface can hold - pointer, struct with state, func adapter, map, and the values whose
// representation is all zero bits (field-less struct, struct whose fields are all zero, zero integer, zero array,
// empty string) whose behaviour lives in package-level state, as stateless policy objects do.
//
// A value whose representation is zero cannot carry its script, so such values find it in a package-level slot chosen
// by their TYPE (a type parameter): nSlots slots = nSlots distinct instantiations of every zero-valued shape, handed
// out to the parallel workers through a pool. Nothing here decides anything: the oracle is the one of main.go.
package main

import (
	"context"
	"crypto/x509"
	"errors"
	"sync/atomic"
	"time"

	"github.com/notaryproject/notation-core-go/revocation"
	"github.com/notaryproject/notation-core-go/revocation/result"
)

type shapeT struct {
	name string
	zero bool // the dynamic value's representation is all zero bits (its script lives in a slot)
	// judged false: the case is run and only recorded (an interface holding a nil pointer: whether that counts as
	// "supplied" is the implementation's choice - it may use it, refuse it or fall back to its default).
	judged bool
}

var shapes = []shapeT{
	{"pointer-to-struct", false, true}, // what every case used before round 5
	{"struct-value-with-state", false, true},
	{"func-adapter", false, true},
	{"non-nil-map", false, true},
	{"pointer-to-field-less-struct", true, true}, // not a zero value itself, but stateless: script in a slot
	{"field-less-struct-value", true, true},
	{"struct-value-with-all-fields-zero", true, true},
	{"zero-integer", true, true},
	{"zero-array", true, true},
	{"empty-string", true, true},
	{"false-bool", true, true},
	{"nil-pointer-with-nil-safe-methods", true, false},
	{"nil-map-with-nil-safe-methods", true, false},
}

// pair: what a slot (or a stateful shape) delegates to.
type pair struct {
	val revocation.Validator
	cli revocation.Revocation
}

func (p *pair) validate(ctx context.Context, o revocation.ValidateContextOptions) ([]*result.CertRevocationResult, error) {
	if p == nil || p.val == nil {
		return nil, errors.New("mock: stateless validator consulted outside its case")
	}
	return p.val.ValidateContext(ctx, o)
}

func (p *pair) client(chain []*x509.Certificate, t time.Time) ([]*result.CertRevocationResult, error) {
	if p == nil || p.cli == nil {
		return nil, errors.New("mock: stateless client consulted outside its case")
	}
	return p.cli.Validate(chain, t)
}

// ---- shapes that carry their state ----

type stateV struct{ p *pair }

func (s stateV) ValidateContext(ctx context.Context, o revocation.ValidateContextOptions) ([]*result.CertRevocationResult, error) {
	return s.p.validate(ctx, o)
}

type stateC struct{ p *pair }

func (s stateC) Validate(chain []*x509.Certificate, t time.Time) ([]*result.CertRevocationResult, error) {
	return s.p.client(chain, t)
}

type funcV func(ctx context.Context, o revocation.ValidateContextOptions) ([]*result.CertRevocationResult, error)

func (f funcV) ValidateContext(ctx context.Context, o revocation.ValidateContextOptions) ([]*result.CertRevocationResult, error) {
	return f(ctx, o)
}

type funcC func(chain []*x509.Certificate, t time.Time) ([]*result.CertRevocationResult, error)

func (f funcC) Validate(chain []*x509.Certificate, t time.Time) ([]*result.CertRevocationResult, error) {
	return f(chain, t)
}

type mapV map[string]*pair

func (m mapV) ValidateContext(ctx context.Context, o revocation.ValidateContextOptions) ([]*result.CertRevocationResult, error) {
	return m["p"].validate(ctx, o)
}

type mapC map[string]*pair

func (m mapC) Validate(chain []*x509.Certificate, t time.Time) ([]*result.CertRevocationResult, error) {
	return m["p"].client(chain, t)
}

// ---- stateless shapes: the script is found through the type ----

const nSlots = 16

var slots [nSlots]atomic.Pointer[pair]
var slotPool = func() chan int {
	c := make(chan int, nSlots)
	for i := 0; i < nSlots; i++ {
		c <- i
	}
	return c
}()

type slotID interface{ slot() int }

func at[S slotID]() *pair { var s S; return slots[s.slot()].Load() }

type (
	k0  struct{}
	k1  struct{}
	k2  struct{}
	k3  struct{}
	k4  struct{}
	k5  struct{}
	k6  struct{}
	k7  struct{}
	k8  struct{}
	k9  struct{}
	k10 struct{}
	k11 struct{}
	k12 struct{}
	k13 struct{}
	k14 struct{}
	k15 struct{}
)

func (k0) slot() int  { return 0 }
func (k1) slot() int  { return 1 }
func (k2) slot() int  { return 2 }
func (k3) slot() int  { return 3 }
func (k4) slot() int  { return 4 }
func (k5) slot() int  { return 5 }
func (k6) slot() int  { return 6 }
func (k7) slot() int  { return 7 }
func (k8) slot() int  { return 8 }
func (k9) slot() int  { return 9 }
func (k10) slot() int { return 10 }
func (k11) slot() int { return 11 }
func (k12) slot() int { return 12 }
func (k13) slot() int { return 13 }
func (k14) slot() int { return 14 }
func (k15) slot() int { return 15 }

type vcOpts = revocation.ValidateContextOptions
type results = []*result.CertRevocationResult

// field-less struct, value receivers (also used behind a pointer)
type emptyV[S slotID] struct{}

func (emptyV[S]) ValidateContext(ctx context.Context, o vcOpts) (results, error) {
	return at[S]().validate(ctx, o)
}

type emptyC[S slotID] struct{}

func (emptyC[S]) Validate(chain []*x509.Certificate, t time.Time) (results, error) {
	return at[S]().client(chain, t)
}

// struct with fields, all of them zero (an options-like policy object left at its defaults)
type fieldsV[S slotID] struct {
	Strict bool
	Depth  int
	Name   string
	Extra  []string
}

func (fieldsV[S]) ValidateContext(ctx context.Context, o vcOpts) (results, error) {
	return at[S]().validate(ctx, o)
}

type fieldsC[S slotID] struct {
	Strict bool
	Depth  int
	Name   string
	Extra  []string
}

func (fieldsC[S]) Validate(chain []*x509.Certificate, t time.Time) (results, error) {
	return at[S]().client(chain, t)
}

type intV[S slotID] int

func (intV[S]) ValidateContext(ctx context.Context, o vcOpts) (results, error) {
	return at[S]().validate(ctx, o)
}

type intC[S slotID] int

func (intC[S]) Validate(chain []*x509.Certificate, t time.Time) (results, error) {
	return at[S]().client(chain, t)
}

type arrV[S slotID] [4]byte

func (arrV[S]) ValidateContext(ctx context.Context, o vcOpts) (results, error) {
	return at[S]().validate(ctx, o)
}

type arrC[S slotID] [4]byte

func (arrC[S]) Validate(chain []*x509.Certificate, t time.Time) (results, error) {
	return at[S]().client(chain, t)
}

type strV[S slotID] string

func (strV[S]) ValidateContext(ctx context.Context, o vcOpts) (results, error) {
	return at[S]().validate(ctx, o)
}

type strC[S slotID] string

func (strC[S]) Validate(chain []*x509.Certificate, t time.Time) (results, error) {
	return at[S]().client(chain, t)
}

type boolV[S slotID] bool

func (boolV[S]) ValidateContext(ctx context.Context, o vcOpts) (results, error) {
	return at[S]().validate(ctx, o)
}

type boolC[S slotID] bool

func (boolC[S]) Validate(chain []*x509.Certificate, t time.Time) (results, error) {
	return at[S]().client(chain, t)
}

// pointer receivers that never touch the receiver: usable through a nil pointer
type nilSafeV[S slotID] struct{ unused int }

func (*nilSafeV[S]) ValidateContext(ctx context.Context, o vcOpts) (results, error) {
	return at[S]().validate(ctx, o)
}

type nilSafeC[S slotID] struct{ unused int }

func (*nilSafeC[S]) Validate(chain []*x509.Certificate, t time.Time) (results, error) {
	return at[S]().client(chain, t)
}

type nilMapV[S slotID] map[string]int

func (nilMapV[S]) ValidateContext(ctx context.Context, o vcOpts) (results, error) {
	return at[S]().validate(ctx, o)
}

type nilMapC[S slotID] map[string]int

func (nilMapC[S]) Validate(chain []*x509.Certificate, t time.Time) (results, error) {
	return at[S]().client(chain, t)
}

// statelessOf: the validator and the client of stateless shape sh for slot type S.
func statelessOf[S slotID](sh int) (revocation.Validator, revocation.Revocation) {
	switch shapes[sh].name {
	case "pointer-to-field-less-struct":
		return &emptyV[S]{}, &emptyC[S]{}
	case "field-less-struct-value":
		return emptyV[S]{}, emptyC[S]{}
	case "struct-value-with-all-fields-zero":
		return fieldsV[S]{}, fieldsC[S]{}
	case "zero-integer":
		return intV[S](0), intC[S](0)
	case "zero-array":
		return arrV[S]{}, arrC[S]{}
	case "empty-string":
		return strV[S](""), strC[S]("")
	case "false-bool":
		return boolV[S](false), boolC[S](false)
	case "nil-pointer-with-nil-safe-methods":
		return (*nilSafeV[S])(nil), (*nilSafeC[S])(nil)
	case "nil-map-with-nil-safe-methods":
		return nilMapV[S](nil), nilMapC[S](nil)
	}
	return nil, nil
}

var statelessBySlot = [nSlots]func(int) (revocation.Validator, revocation.Revocation){
	statelessOf[k0], statelessOf[k1], statelessOf[k2], statelessOf[k3], statelessOf[k4], statelessOf[k5], statelessOf[k6], statelessOf[k7],
	statelessOf[k8], statelessOf[k9], statelessOf[k10], statelessOf[k11], statelessOf[k12], statelessOf[k13], statelessOf[k14], statelessOf[k15],
}

// shaped wraps the scripted validator and client into values of shape sh. release must be called when the case is
// over (it returns the slot of a stateless shape to the pool).
func shaped(sh int, val revocation.Validator, cli revocation.Revocation) (v revocation.Validator, c revocation.Revocation, release func()) {
	p := &pair{val: val, cli: cli}
	release = func() {}
	switch shapes[sh].name {
	case "pointer-to-struct":
		return val, cli, release
	case "struct-value-with-state":
		return stateV{p}, stateC{p}, release
	case "func-adapter":
		return funcV(p.validate), funcC(p.client), release
	case "non-nil-map":
		return mapV{"p": p}, mapC{"p": p}, release
	}
	slot := <-slotPool
	slots[slot].Store(p)
	release = func() {
		slots[slot].Store(nil)
		slotPool <- slot
	}
	v, c = statelessOf0(slot, sh)
	return v, c, release
}

func statelessOf0(slot, sh int) (revocation.Validator, revocation.Revocation) {
	return statelessBySlot[slot](sh)
}
