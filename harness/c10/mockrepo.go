package main

// Instrumented collaborators of notation.Verify: a scripted registry.Repository
// that serves one listing in scripted pages, a scripted notation.Verifier, and
// a logging decorator for the real verifier. All of them write to one callLog
// per case (a case runs on one goroutine, so the log needs no lock).

import (
	"bytes"
	"context"
	"errors"

	"github.com/notaryproject/notation-core-go/signature"
	"github.com/notaryproject/notation-go"
	"github.com/notaryproject/notation-go/verifier/trustpolicy"
	ocispec "github.com/opencontainers/image-spec/specs-go/v1"
)

type pageEv struct {
	Index         int // position of the page in the scripted paging
	Size          int // descriptors delivered
	FetchesBefore int // fetch calls seen before this page was handed out
}

type fetchEv struct {
	Sig    int  // position in the flattened listing of the manifest asked for; -1: not a listed manifest
	DescOK bool // the descriptor passed equals the listed manifest descriptor in every field
	OK     bool // the blob was served
}

type verifyEv struct {
	Sig  int // position in the flattened listing of the blob received; -1: not a served blob
	MT   string
	Desc ocispec.Descriptor
}

type callLog struct {
	resolves   []string
	lists      []ocispec.Descriptor
	pages      []pageEv
	fetches    []fetchEv
	verifies   []verifyEv
	skipChecks int
	pushes     int
}

func (l *callLog) anyRepositoryCall() bool {
	return len(l.resolves)+len(l.lists)+len(l.pages)+len(l.fetches)+l.pushes > 0
}

// descEq compares every field of two descriptors.
func descEq(a, b ocispec.Descriptor) bool {
	if a.MediaType != b.MediaType || a.Digest != b.Digest || a.Size != b.Size || a.ArtifactType != b.ArtifactType {
		return false
	}
	if len(a.URLs) != len(b.URLs) || len(a.Annotations) != len(b.Annotations) || !bytes.Equal(a.Data, b.Data) {
		return false
	}
	for i := range a.URLs {
		if a.URLs[i] != b.URLs[i] {
			return false
		}
	}
	for k, v := range a.Annotations {
		if w, ok := b.Annotations[k]; !ok || w != v {
			return false
		}
	}
	if (a.Platform == nil) != (b.Platform == nil) {
		return false
	}
	if a.Platform != nil && (a.Platform.Architecture != b.Platform.Architecture || a.Platform.OS != b.Platform.OS || a.Platform.Variant != b.Platform.Variant || a.Platform.OSVersion != b.Platform.OSVersion) {
		return false
	}
	return true
}

var (
	errMockFetch    = errors.New("mock repository: signature blob cannot be fetched")
	errMockUnlisted = errors.New("mock repository: descriptor is not a listed signature manifest")
	errMockPush     = errors.New("mock repository: push is not part of verification")
)

// mockRepo resolves ANY reference to `resolved`, lists manifests[0:len(kinds)]
// in pages of the scripted sizes (0 = an empty page) and serves blobs[i] with
// blobDescs[i] unless kinds[i] is unfetchable.
type mockRepo struct {
	resolved  ocispec.Descriptor
	manifests []ocispec.Descriptor
	blobDescs []ocispec.Descriptor
	blobs     [][]byte
	kinds     []kind
	pages     []int
	fetchErr  error // what an unfetchable signature fails with (nil: errMockFetch)
	log       *callLog
}

func (m *mockRepo) Resolve(ctx context.Context, reference string) (ocispec.Descriptor, error) {
	m.log.resolves = append(m.log.resolves, reference)
	d := m.resolved
	if d.Annotations != nil { // every caller gets its own map
		d.Annotations = make(map[string]string, len(m.resolved.Annotations))
		for k, v := range m.resolved.Annotations {
			d.Annotations[k] = v
		}
	}
	return d, nil
}

func (m *mockRepo) ListSignatures(ctx context.Context, desc ocispec.Descriptor, fn func([]ocispec.Descriptor) error) error {
	m.log.lists = append(m.log.lists, desc)
	pos := 0
	for pi, sz := range m.pages {
		page := make([]ocispec.Descriptor, sz) // a private copy: the callee may do what it likes with it
		copy(page, m.manifests[pos:pos+sz])
		pos += sz
		m.log.pages = append(m.log.pages, pageEv{Index: pi, Size: sz, FetchesBefore: len(m.log.fetches)})
		// like the real repositories (oras Referrers): the first error of the callback ends the paging
		if err := fn(page); err != nil {
			return err
		}
	}
	return nil
}

func (m *mockRepo) FetchSignatureBlob(ctx context.Context, desc ocispec.Descriptor) ([]byte, ocispec.Descriptor, error) {
	idx := -1
	for i := range m.kinds {
		if m.manifests[i].Digest == desc.Digest {
			idx = i
			break
		}
	}
	if idx < 0 {
		m.log.fetches = append(m.log.fetches, fetchEv{Sig: -1})
		return nil, ocispec.Descriptor{}, errMockUnlisted
	}
	ok := m.kinds[idx] != kUnfetchable
	m.log.fetches = append(m.log.fetches, fetchEv{Sig: idx, DescOK: descEq(desc, m.manifests[idx]), OK: ok})
	if !ok {
		if m.fetchErr != nil {
			return nil, ocispec.Descriptor{}, m.fetchErr
		}
		return nil, ocispec.Descriptor{}, errMockFetch
	}
	return m.blobs[idx], m.blobDescs[idx], nil
}

func (m *mockRepo) PushSignature(ctx context.Context, mediaType string, blob []byte, subject ocispec.Descriptor, annotations map[string]string) (ocispec.Descriptor, ocispec.Descriptor, error) {
	m.log.pushes++
	return ocispec.Descriptor{}, ocispec.Descriptor{}, errMockPush
}

// ---- scripted verifier (does NOT have a SkipVerify method) ----

var (
	errScriptedInvalid = errors.New("scripted verifier: signature is invalid")
	errScriptedNil     = errors.New("scripted verifier: signature is invalid and no outcome is produced")
	errScriptedUnknown = errors.New("scripted verifier: blob was not served by the repository")
)

type scriptedVerifier struct {
	kinds      []kind
	blobs      [][]byte
	invalidErr error                      // what an invalid signature is rejected with (nil: errScriptedInvalid)
	content    *signature.EnvelopeContent // what a valid signature's outcome carries (nil: a bare outcome)
	log        *callLog
}

func (v *scriptedVerifier) Verify(ctx context.Context, desc ocispec.Descriptor, sig []byte, opts notation.VerifierVerifyOptions) (*notation.VerificationOutcome, error) {
	idx := -1
	for i := range v.kinds {
		if bytes.Equal(v.blobs[i], sig) {
			idx = i
			break
		}
	}
	v.log.verifies = append(v.log.verifies, verifyEv{Sig: idx, MT: opts.SignatureMediaType, Desc: desc})
	if idx < 0 {
		return &notation.VerificationOutcome{RawSignature: sig, VerificationLevel: trustpolicy.LevelStrict, Error: errScriptedUnknown}, errScriptedUnknown
	}
	switch v.kinds[idx] {
	case kValid:
		return &notation.VerificationOutcome{RawSignature: sig, VerificationLevel: trustpolicy.LevelStrict, EnvelopeContent: v.content}, nil
	case kNilOutcome:
		return nil, errScriptedNil
	default:
		err := v.invalidErr
		if err == nil {
			err = errScriptedInvalid
		}
		return &notation.VerificationOutcome{RawSignature: sig, VerificationLevel: trustpolicy.LevelStrict, Error: err}, err
	}
}

// ---- logging decorator of the real verifier ----

// realVerifier is what verifier.NewVerifierWithOptions returns, seen through its exported methods.
type realVerifier interface {
	Verify(ctx context.Context, desc ocispec.Descriptor, signature []byte, opts notation.VerifierVerifyOptions) (*notation.VerificationOutcome, error)
	SkipVerify(ctx context.Context, opts notation.VerifierVerifyOptions) (bool, *trustpolicy.VerificationLevel, error)
}

type loggingVerifier struct {
	inner realVerifier
	index map[string]int // blob bytes -> position independent fixture number (see realIndex)
	n     int            // listing length
	log   *callLog
}

func (l *loggingVerifier) SkipVerify(ctx context.Context, opts notation.VerifierVerifyOptions) (bool, *trustpolicy.VerificationLevel, error) {
	l.log.skipChecks++
	return l.inner.SkipVerify(ctx, opts)
}

func (l *loggingVerifier) Verify(ctx context.Context, desc ocispec.Descriptor, sig []byte, opts notation.VerifierVerifyOptions) (*notation.VerificationOutcome, error) {
	idx, ok := l.index[string(sig)]
	if !ok || idx >= l.n {
		idx = -1
	}
	l.log.verifies = append(l.log.verifies, verifyEv{Sig: idx, MT: opts.SignatureMediaType, Desc: desc})
	return l.inner.Verify(ctx, desc, sig, opts)
}
