// C10 — registry verification stops at the first good signature, within the limit.
//
// E3 over the complete finite space the quantifier names: every listing over
// {valid, invalid, invalid-with-nil-outcome, unfetchable}^k (k = 0..6) x every
// way of splitting it into consecutive pages (optionally one empty page at each
// position) x every limit in {-1, 0, 1..7} x every reference kind x {non-skip,
// skip}. The REAL loop of notation.Verify is driven through an instrumented
// registry.Repository and a scripted notation.Verifier (mockrepo.go); the skip
// path and a second pass with real signatures use the real verifier.
// Oracle: the reference loop of DESIGN.md appendix A.3 (func reference below),
// written from the statement, never from notation.go. VIOLATIONS are raised only
// for what the statement fixes literally (func stated/judge): success iff a
// signature among the first N verifies with everything before it fetchable; on
// success the resolved descriptor (field by field), exactly one outcome
// and that of such a signature, nothing after it fetched or evaluated; never more
// than N distinct signatures fetched/evaluated; the five error conditions; no
// repository call under skip; signatures listed for the resolved digest. All
// further predictions of A.3 (exact call logs, first-of-several winner, calls made
// before an argument error, collaborator arguments, result under skip) are
// compared and RECORDED as outcome classes "recorded:<key>" (func a3Deviations).
//
// Bounds (each pass x 9 limits x 22 references, pagings = all compositions
// plus one empty page at every position):
//
//	thorough: scripted 4 kinds k<=6; skip policy 4 kinds k<=4; real signatures 3 kinds k<=3
//	quick:    scripted 4 kinds k<=5 (empty pages for k<=4); skip policy 3 kinds k<=3 (no empty pages); real signatures 3 kinds k<=2
//
// Reference kinds (hand-labelled, 11) x what the repository resolves (a sha256 or
// a sha512 descriptor): tag, tag spelled like a digest, matching digest,
// mismatching digests of every registered algorithm (sha256/384/512; the other
// algorithms hash the SAME content), the matching digest in upper-case hex /
// one hex digit short / one too long, no tag or digest, garbage.
//
// Two more dimensions for listings up to a bound (thorough k<=4, quick k<=3; real
// pass: all), for references that reach the listing and N >= 1, as a full product:
// 7 error kinds (what an unfetchable signature's fetch fails with - generic, oras
// ErrNotFound bare/wrapped, context errors, size limit, notation error types - and
// what the scripted verifier rejects an invalid signature with) x 3 signed-payload
// variants (what a valid signature signs / its outcome carries: no envelope content
// or a bare descriptor, a descriptor with user-metadata annotations, a copy of the
// resolved descriptor). The resolved descriptor has every optional field set.
// Plus, for the same cases (generic errors, first payload): 5 decorations of the
// LISTED manifest descriptors (org.opencontainers.image.created annotations oldest
// first / newest first / zigzag / all equal, or none) x 4 blob media types of the
// signatures that do not verify (jose/cose, a pre-1.0 type, empty, text/plain).
//
// Replay case = {verifier, policy, listing kinds, page sizes, limit, reference kind}.
package main

import (
	"bytes"
	"context"
	"crypto/sha256"
	"crypto/sha512"
	"errors"
	"fmt"
	"io"
	"math/bits"
	"sort"
	"strings"
	"sync"
	"sync/atomic"
	"time"

	"github.com/notaryproject/notation-core-go/signature"
	"github.com/notaryproject/notation-go"
	"github.com/notaryproject/notation-go/verifier"
	"github.com/notaryproject/notation-go/verifier/trustpolicy"
	"github.com/notaryproject/notation-go/zzverif/lib/forge"
	"github.com/notaryproject/notation-go/zzverif/lib/hx"
	"github.com/notaryproject/notation-go/zzverif/lib/mocks"
	"github.com/notaryproject/notation-go/zzverif/lib/pki"
	"github.com/opencontainers/go-digest"
	ocispec "github.com/opencontainers/image-spec/specs-go/v1"
	"oras.land/oras-go/v2/errdef"
)

// ---------------- alphabets ----------------

const maxK = 6

type kind uint8

const (
	kValid kind = iota
	kInvalid
	kUnfetchable
	kNilOutcome
)

var kindNames = []string{"valid", "invalid", "unfetchable", "invalid-nil-outcome"}

type refKind uint8

const (
	rTag           refKind = iota
	rTagDigestLike         // a TAG spelled like a digest ("sha256-<hex of another artifact>"): still a tag
	rDigest                // the digest the repository resolves
	rOther256              // well-formed digests that differ from the resolved one, one per registered algorithm
	rOther384
	rOther512
	rUpperHex  // the resolved digest with upper-case hex: malformed, and a different string
	rTruncated // the resolved digest without its last hex digit
	rTooLong   // the resolved digest with one more hex digit
	rNone
	rGarbage
	nRefs
)

var refNames = []string{"tag", "tag-digest-like", "digest-matching", "digest-other-sha256", "digest-other-sha384", "digest-other-sha512",
	"digest-uppercase-hex", "digest-truncated", "digest-too-long", "no-tag-or-digest", "garbage"}

func (k refKind) isTag() bool       { return k == rTag || k == rTagDigestLike }
func (k refKind) isMismatch() bool  { return k == rOther256 || k == rOther384 || k == rOther512 }
func (k refKind) isMalformed() bool { return k == rUpperHex || k == rTruncated || k == rTooLong }

// refT is one (resolved descriptor, reference) combination, hand-labelled.
type refT struct {
	world int
	kind  refKind
}

var allRefs = func() []refT {
	var out []refT
	for w := 0; w < nWorlds; w++ {
		for k := refKind(0); k < nRefs; k++ {
			out = append(out, refT{w, k})
		}
	}
	return out
}()

// world: what the mock repository resolves EVERY reference to, and the reference strings built around it.
// None of the descriptor's fields but the digest can come from the caller.
type world struct {
	name       string
	resolved   ocispec.Descriptor
	refStrings []string
	resolveArg []string                     // hand-written: the part of the reference the repository has to be asked for
	payloads   [][]byte                     // per payload variant: the payload a valid signature signs
	contents   []*signature.EnvelopeContent // per payload variant: what the scripted verifier's valid outcome carries
}

// Payload variants: what a VALID signature signs. The verifier compares media type, digest and size only,
// so all of them verify; they differ from the resolved descriptor in the fields it does not compare.
var payloadNames = []string{"bare-outcome/descriptor-without-optional-fields", "descriptor-with-user-metadata-annotations", "copy-of-resolved-descriptor"}

func signedPayloads(resolved ocispec.Descriptor) ([][]byte, []*signature.EnvelopeContent) {
	bare := ocispec.Descriptor{MediaType: resolved.MediaType, Digest: resolved.Digest, Size: resolved.Size}
	meta := bare
	meta.Annotations = map[string]string{"io.example.user-metadata/build": "c10", "org.example.c10/resolved-by": "the signer"}
	ps := [][]byte{forge.PayloadFor(bare), forge.PayloadFor(meta), forge.PayloadFor(resolved)}
	cs := []*signature.EnvelopeContent{nil} // scripted variant 0: an outcome without envelope content
	for _, p := range ps[1:] {
		cs = append(cs, &signature.EnvelopeContent{Payload: signature.Payload{ContentType: forge.PayloadType, Content: p}})
	}
	return ps, cs
}

// Error kinds: what an unfetchable signature's fetch fails with / what an invalid signature is rejected with
// by the scripted verifier. The statement knows "cannot be fetched" and "does not verify", not kinds of errors.
type errKindT struct {
	name      string
	fetchErr  error
	verifyErr error
}

var errKinds = []errKindT{
	{"generic", nil, nil},
	{"fetch:wraps-oras-ErrNotFound/verify:ErrorVerificationFailed", fmt.Errorf("mock repository: blob is gone: %w", errdef.ErrNotFound), notation.ErrorVerificationFailed{Msg: "scripted verifier: rejected"}},
	{"fetch:oras-ErrNotFound/verify:ErrorVerificationInconclusive", errdef.ErrNotFound, notation.ErrorVerificationInconclusive{Msg: "scripted verifier: inconclusive"}},
	{"fetch:wraps-context.Canceled/verify:ErrorNoApplicableTrustPolicy", fmt.Errorf("mock repository: %w", context.Canceled), notation.ErrorNoApplicableTrustPolicy{Msg: "scripted verifier: no policy"}},
	{"fetch:wraps-oras-ErrSizeExceedsLimit/verify:wraps-oras-ErrNotFound", fmt.Errorf("mock repository: %w", errdef.ErrSizeExceedsLimit), fmt.Errorf("scripted verifier: certificate store: %w", errdef.ErrNotFound)},
	{"fetch:ErrorSignatureRetrievalFailed/verify:ErrorUserMetadataVerificationFailed", notation.ErrorSignatureRetrievalFailed{Msg: "mock repository: retrieval failed"}, notation.ErrorUserMetadataVerificationFailed{Msg: "scripted verifier: metadata"}},
	{"fetch:wraps-context.DeadlineExceeded+io.ErrUnexpectedEOF/verify:joined-errors", errors.Join(context.DeadlineExceeded, io.ErrUnexpectedEOF), errors.Join(notation.ErrorVerificationFailed{}, errors.New("scripted verifier: two reasons"))},
}

const nWorlds = 2

var worldNames = []string{"sha256", "sha512"}
var worlds = buildWorlds()

func buildWorlds() []*world {
	const content = "C10: the artifact manifest the repository resolves"
	const another = "C10: another artifact manifest"
	hexOf := func(alg, text string) string {
		switch alg {
		case "sha256":
			return fmt.Sprintf("%x", sha256.Sum256([]byte(text)))
		case "sha384":
			return fmt.Sprintf("%x", sha512.Sum384([]byte(text)))
		}
		return fmt.Sprintf("%x", sha512.Sum512([]byte(text)))
	}
	var out []*world
	for _, alg := range worldNames {
		own := hexOf(alg, content)
		// every optional field is set: what comes back must be THIS descriptor, not one rebuilt from the reference or a signature
		w := &world{name: alg, resolved: ocispec.Descriptor{MediaType: mtManifest, Digest: digest.Digest(alg + ":" + own), Size: 528, ArtifactType: "application/vnd.example.c10.resolved",
			Annotations: map[string]string{"org.example.c10/resolved-by": "the repository"}, URLs: []string{"https://reg.io/v2/repo/manifests/" + alg + ":" + own}}}
		w.payloads, w.contents = signedPayloads(w.resolved)
		// the mismatching digests: another artifact under the resolved algorithm, the SAME content under the other algorithms
		other := func(a string) string {
			if a == alg {
				return a + ":" + hexOf(a, another)
			}
			return a + ":" + hexOf(a, content)
		}
		w.resolveArg = []string{
			rTag:           tagName,
			rTagDigestLike: alg + "-" + hexOf(alg, another)[:64], // a valid tag (<= 128 characters): the digest, or a prefix of it, of another artifact
			rDigest:        alg + ":" + own,
			rOther256:      other("sha256"),
			rOther384:      other("sha384"),
			rOther512:      other("sha512"),
			rUpperHex:      alg + ":" + strings.ToUpper(own),
			rTruncated:     alg + ":" + own[:len(own)-1],
			rTooLong:       alg + ":" + own + "0",
			rNone:          "",
			rGarbage:       "",
		}
		w.refStrings = make([]string, nRefs)
		for k := refKind(0); k < nRefs; k++ {
			switch {
			case k.isTag():
				w.refStrings[k] = repoName + ":" + w.resolveArg[k]
			case k == rNone:
				w.refStrings[k] = repoName
			case k == rGarbage:
				w.refStrings[k] = "reg.io/Bad Repo!!" // no tag, no digest, not a repository name either
			default:
				w.refStrings[k] = repoName + "@" + w.resolveArg[k]
			}
		}
		out = append(out, w)
	}
	return out
}

const (
	pScripted = iota // scripted verifier (no skip hook), non-skip
	pSkip            // real verifier, skip-level statement scoped to the repository
	pReal            // real verifier (decorated with a call log), strict statement, real signatures
	nPasses
)

var passNames = []string{"scripted", "skip", "real"}

var limits = []int{-1, 0, 1, 2, 3, 4, 5, 6, 7}

const (
	mtManifest  = "application/vnd.oci.image.manifest.v1+json"
	mtSignature = "application/vnd.cncf.notary.signature"
	repoName    = "reg.io/repo"
	tagName     = "v1"
)

var (
	// the artifact the "invalid" real signatures sign
	otherDesc = ocispec.Descriptor{MediaType: mtManifest, Digest: digest.FromString("C10: yet another artifact manifest"), Size: 529}

	manifests     []ocispec.Descriptor // listed descriptor of signature i
	blobDescs     []ocispec.Descriptor // descriptor FetchSignatureBlob returns for signature i
	scriptedBlobs [][]byte
)

// Listing decorations: attributes of the LISTED manifest descriptors a shortcut might key on. The statement
// speaks of listing order only, so none of them may change which signatures are tried.
var decoNames = []string{"no-annotations", "created-oldest-first", "created-newest-first", "created-zigzag", "created-all-equal"}
var manifestsDeco [][]ocispec.Descriptor // [decoration][position]

// Blob media types of the signatures that do NOT verify (what FetchSignatureBlob's descriptor says). A signature
// of an envelope type nobody can verify is still a listed signature: it is invalid, nothing else.
var invalidMTNames = []string{"supported(jose/cose)", "application/vnd.cncf.notary.v2.jws.v1", "", "text/plain; charset=utf-8"}

func initDecorations() {
	const annCreated = "org.opencontainers.image.created"
	base := time.Date(2023, 1, 15, 10, 0, 0, 0, time.UTC)
	zigzag := []int{2, 0, 4, 1, 5, 3}
	for d := range decoNames {
		var ms []ocispec.Descriptor
		for i := 0; i < maxK; i++ {
			m := manifests[i]
			if d > 0 {
				rank := i // months after base
				switch d {
				case 2:
					rank = maxK - i
				case 3:
					rank = zigzag[i]
				case 4:
					rank = 0
				}
				m.Annotations = map[string]string{
					annCreated: base.AddDate(0, rank, 0).Format(time.RFC3339),
					"io.cncf.notary.x509chain.thumbprint#S256": fmt.Sprintf("[\"%064x\"]", i),
				}
			}
			ms = append(ms, m)
		}
		manifestsDeco = append(manifestsDeco, ms)
	}
}

func initFixtures() {
	defer initDecorations()
	for i := 0; i < maxK; i++ {
		blob := []byte(fmt.Sprintf("C10 scripted signature envelope #%d", i))
		mt := forge.JWS
		if i%2 == 1 {
			mt = forge.COSE // neighbours differ, so a media type kept from the previous signature shows
		}
		scriptedBlobs = append(scriptedBlobs, blob)
		manifests = append(manifests, ocispec.Descriptor{MediaType: mtManifest, ArtifactType: mtSignature, Digest: digest.FromString(fmt.Sprintf("C10 signature manifest #%d", i)), Size: int64(700 + i)})
		blobDescs = append(blobDescs, ocispec.Descriptor{MediaType: mt, Digest: digest.FromBytes(blob), Size: int64(len(blob))})
	}
}

// realFixtures: the real verifiers and real envelopes of the skip and real passes.
type realFixtures struct {
	strict realVerifier
	skip   realVerifier
	blobs  [nWorlds][][4][]byte // [world][position][payload variant 0..2: valid; 3: signs another descriptor]
	descs  [nWorlds][][4]ocispec.Descriptor
	index  map[string]int
}

func buildReal(r *hx.Run, n int) *realFixtures {
	fx := &realFixtures{index: map[string]int{}}
	chain := pki.NewChain(pki.ChainOpts{Len: 3, LeafSpec: pki.EC256, Prefix: "C10"})
	store := mocks.NewTrustStore().Put("ca", "s", chain.Root().Cert)
	store.NoLog = true
	okv := mocks.AllOK()
	okv.NoLog = true
	strictDoc := &trustpolicy.OCIDocument{Version: "1.0", TrustPolicies: []trustpolicy.OCITrustPolicy{{
		Name: "strict-repo", SignatureVerification: trustpolicy.SignatureVerification{VerificationLevel: "strict"},
		TrustStores: []string{"ca:s"}, TrustedIdentities: []string{"*"}, RegistryScopes: []string{repoName}}}}
	// the skip statement is the one scoped to the repository; everything else is strict
	skipDoc := &trustpolicy.OCIDocument{Version: "1.0", TrustPolicies: []trustpolicy.OCITrustPolicy{
		{Name: "skip-repo", SignatureVerification: trustpolicy.SignatureVerification{VerificationLevel: "skip"}, RegistryScopes: []string{repoName}},
		{Name: "rest", SignatureVerification: trustpolicy.SignatureVerification{VerificationLevel: "strict"}, TrustStores: []string{"ca:s"}, TrustedIdentities: []string{"*"}, RegistryScopes: []string{"*"}},
	}}
	mk := func(doc *trustpolicy.OCIDocument) realVerifier {
		v, err := verifier.NewVerifierWithOptions(store, verifier.VerifierOptions{OCITrustPolicy: doc, RevocationCodeSigningValidator: okv, RevocationTimestampingValidator: okv})
		if err != nil {
			r.Infra("verifier construction: %v", err)
			r.Finish()
		}
		return v
	}
	fx.strict, fx.skip = mk(strictDoc), mk(skipDoc)
	signingTime := time.Now().Add(-2 * time.Hour).Truncate(time.Second)
	for w := 0; w < nWorlds; w++ {
		for i := 0; i < n; i++ {
			var pair [4][]byte
			var dpair [4]ocispec.Descriptor
			for j, payload := range append(append([][]byte{}, worlds[w].payloads...), forge.PayloadFor(otherDesc)) {
				b := forge.Build(forge.Spec{Format: blobDescs[i].MediaType, Chain: chain.X509(), Key: chain.Leaf().Key, Payload: payload, SigningTime: signingTime, Agent: fmt.Sprintf("c10/%d/%d/%d", w, i, j)})
				pair[j] = b
				dpair[j] = ocispec.Descriptor{MediaType: blobDescs[i].MediaType, Digest: digest.FromBytes(b), Size: int64(len(b))}
				fx.index[string(b)] = i
			}
			fx.blobs[w] = append(fx.blobs[w], pair)
			fx.descs[w] = append(fx.descs[w], dpair)
		}
	}
	return fx
}

// ---------------- cases ----------------

type caseT struct {
	pass  int
	kinds []kind
	pages []int
	n     int
	ref   refKind
	world int // which descriptor the repository resolves (worlds[world])
	errK  int // errKinds[errK]: how unfetchable / invalid signatures fail
	pay   int // payloadNames[pay]: what valid signatures sign
	deco  int // decoNames[deco]: annotations of the listed manifest descriptors
	imt   int // invalidMTNames[imt]: blob media type of the signatures that do not verify
}

func (c *caseT) w() *world { return worlds[c.world] }

type replayCase struct {
	Verifier        string   `json:"verifier"` // scripted | real
	Policy          string   `json:"policy"`   // non-skip | skip
	Listing         []string `json:"listing"`
	Pages           []int    `json:"pages"` // page sizes, 0 = an empty page
	Limit           int      `json:"limit"`
	Reference       string   `json:"reference"`
	Resolved        string   `json:"repository_resolves"` // sha256 | sha512: algorithm of the descriptor the repository resolves everything to
	ReferenceString string   `json:"reference_string,omitempty"`
	ErrorKind       string   `json:"error_kind,omitempty"`     // errKinds[].name ("" = generic)
	SignedPayload   string   `json:"signed_payload,omitempty"` // payloadNames[] ("" = the first)
	Decoration      string   `json:"listed_descriptor_annotations,omitempty"`
	InvalidBlobMT   *string  `json:"invalid_signature_blob_media_type,omitempty"` // absent = supported (jose/cose)
}

func (c *caseT) replay() replayCase {
	rc := replayCase{Verifier: "scripted", Policy: "non-skip", Pages: append([]int{}, c.pages...), Limit: c.n, Reference: refNames[c.ref], Resolved: c.w().name, ReferenceString: c.w().refStrings[c.ref], Listing: []string{}, ErrorKind: errKinds[c.errK].name, SignedPayload: payloadNames[c.pay], Decoration: decoNames[c.deco]}
	if c.imt > 0 {
		mt := invalidMTNames[c.imt]
		rc.InvalidBlobMT = &mt
	}
	if c.pass != pScripted {
		rc.Verifier = "real"
	}
	if c.pass == pSkip {
		rc.Policy = "skip"
	}
	for _, k := range c.kinds {
		rc.Listing = append(rc.Listing, kindNames[k])
	}
	return rc
}

func (c *caseT) String() string {
	rc := c.replay()
	return fmt.Sprintf("verifier=%s policy=%s listing=[%s] pages=%v limit=%d repository-resolves=%s reference=%s(%q) errors=%s signed-payload=%s listed-annotations=%s invalid-blob-media-type=%q", rc.Verifier, rc.Policy, strings.Join(rc.Listing, ","), rc.Pages, rc.Limit, rc.Resolved, rc.Reference, rc.ReferenceString, rc.ErrorKind, rc.SignedPayload, rc.Decoration, invalidMTNames[c.imt])
}

func fromReplay(rc replayCase) (*caseT, error) {
	c := &caseT{n: rc.Limit, pages: rc.Pages}
	switch {
	case rc.Policy == "skip":
		c.pass = pSkip
	case rc.Verifier == "real":
		c.pass = pReal
	default:
		c.pass = pScripted
	}
	found := false
	for i, n := range refNames {
		if n == rc.Reference {
			c.ref, found = refKind(i), true
		}
	}
	if !found {
		return nil, fmt.Errorf("unknown reference kind %q", rc.Reference)
	}
	for i, k := range errKinds {
		if k.name == rc.ErrorKind {
			c.errK = i
		}
	}
	for i, n := range payloadNames {
		if n == rc.SignedPayload {
			c.pay = i
		}
	}
	for i, n := range decoNames {
		if n == rc.Decoration {
			c.deco = i
		}
	}
	if rc.InvalidBlobMT != nil {
		for i, n := range invalidMTNames {
			if i > 0 && n == *rc.InvalidBlobMT {
				c.imt = i
			}
		}
	}
	switch rc.Resolved {
	case "", "sha256":
	case "sha512":
		c.world = 1
	default:
		return nil, fmt.Errorf("unknown resolved algorithm %q", rc.Resolved)
	}
	for _, s := range rc.Listing {
		ok := false
		for i, n := range kindNames {
			if n == s {
				c.kinds = append(c.kinds, kind(i))
				ok = true
			}
		}
		if !ok {
			return nil, fmt.Errorf("unknown signature kind %q", s)
		}
	}
	sum := 0
	for _, p := range c.pages {
		if p < 0 {
			return nil, fmt.Errorf("negative page size")
		}
		sum += p
	}
	if sum != len(c.kinds) || len(c.kinds) > maxK {
		return nil, fmt.Errorf("pages %v do not split a listing of %d (max %d)", c.pages, len(c.kinds), maxK)
	}
	if c.pass == pReal && len(c.kinds) > 3 {
		return nil, fmt.Errorf("the real pass has fixtures for 3 signatures")
	}
	return c, nil
}

// ---------------- the oracle: reference loop (DESIGN.md A.3) ----------------

const (
	clSuccessFirst = iota
	clSuccessLater
	clErrLimit
	clErrNoRef
	clErrGarbage
	clErrMismatch
	clErrMalformed
	clErrEmpty
	clErrUnfetchable
	clErrNilOutcome
	clErrNoValid
	clErrLimitReached
	clSkip
	clSkipOtherDigest
	clRecordedTag
	nClasses
)

var classNames = []string{
	clSuccessFirst:    "success:first-listed-signature",
	clSuccessLater:    "success:later-signature-within-limit",
	clErrLimit:        "error:nonpositive-limit",
	clErrNoRef:        "error:no-tag-or-digest",
	clErrGarbage:      "error:garbage-reference",
	clErrMismatch:     "error:digest-mismatch",
	clErrMalformed:    "error:malformed-digest",
	clErrEmpty:        "error:empty-listing",
	clErrUnfetchable:  "error:unfetchable-before-success",
	clErrNilOutcome:   "error:verifier-returned-nil-outcome(contract-breach,A.3)",
	clErrNoValid:      "error:whole-listing-walked-none-valid",
	clErrLimitReached: "error:limit-reached-before-success",
	clSkip:            "skip:success-no-repository-call",
	clSkipOtherDigest: "skip:other-or-malformed-digest(result-recorded,calls-judged)",
	clRecordedTag:     "recorded:tag-reference-with-real-verifier(SkipVerify-parser-limitation)",
}

// short labels used inside violation keys
var classLabel = []string{
	clSuccessFirst: "success", clSuccessLater: "success", clErrLimit: "nonpositive-limit", clErrNoRef: "no-tag-or-digest", clErrGarbage: "garbage",
	clErrMismatch: "digest-mismatch", clErrMalformed: "malformed-digest", clErrEmpty: "empty-listing", clErrUnfetchable: "unfetchable-before-success", clErrNilOutcome: "nil-outcome",
	clErrNoValid: "no-valid-signature", clErrLimitReached: "limit-reached-before-success", clSkip: "skip-policy", clSkipOtherDigest: "skip-policy", clRecordedTag: "recorded",
}

const (
	callsNone = iota
	callsResolveOnly
	callsLoop
)

type expectation struct {
	class       int
	success     bool
	winner      int // position of the signature whose outcome is returned
	fetchN      int // fetch log == listing[0:fetchN]
	verifyN     int // verify log == listing[0:verifyN]
	calls       int
	judgeResult bool
	judgeCalls  bool
}

func reference(c *caseT) expectation {
	fail := func(class, calls int) expectation {
		return expectation{class: class, calls: calls, judgeResult: true, judgeCalls: true, winner: -1}
	}
	if c.n <= 0 {
		return fail(clErrLimit, callsNone)
	}
	if c.pass != pScripted && c.ref.isTag() {
		// SkipVerify's reference parser knows digest references only (documented TODO): recorded, not judged
		return expectation{class: clRecordedTag, winner: -1}
	}
	switch c.ref {
	case rNone:
		return fail(clErrNoRef, callsNone)
	case rGarbage:
		return fail(clErrGarbage, callsNone)
	}
	if c.pass == pSkip {
		if c.ref != rDigest {
			// "differs from the resolved digest => error" and "skip => nothing is resolved" cannot both be demanded
			return expectation{class: clSkipOtherDigest, calls: callsNone, judgeCalls: true, winner: -1}
		}
		return expectation{class: clSkip, success: true, calls: callsNone, judgeResult: true, judgeCalls: true, winner: -1}
	}
	// "a digest reference that differs from the digest the repository resolves is an error", whatever the
	// algorithm or spelling of either: at most Resolve may be called
	if c.ref.isMismatch() {
		return fail(clErrMismatch, callsResolveOnly)
	}
	if c.ref.isMalformed() {
		return fail(clErrMalformed, callsResolveOnly)
	}
	i := 0
	for _, s := range c.kinds { // the flattened listing: paging plays no part
		if i == c.n {
			break
		}
		i++
		switch s {
		case kUnfetchable:
			e := fail(clErrUnfetchable, callsLoop)
			e.fetchN, e.verifyN = i, i-1
			return e
		case kNilOutcome:
			e := fail(clErrNilOutcome, callsLoop)
			e.fetchN, e.verifyN = i, i
			return e
		case kValid:
			e := expectation{class: clSuccessLater, success: true, winner: i - 1, fetchN: i, verifyN: i, calls: callsLoop, judgeResult: true, judgeCalls: true}
			if i == 1 {
				e.class = clSuccessFirst
			}
			return e
		}
	}
	var e expectation
	switch {
	case i == 0:
		e = fail(clErrEmpty, callsLoop)
	case i < len(c.kinds):
		e = fail(clErrLimitReached, callsLoop)
	default:
		e = fail(clErrNoValid, callsLoop)
	}
	e.fetchN, e.verifyN = i, i
	return e
}

// ---------------- running the real code ----------------

type obs struct {
	desc      ocispec.Descriptor
	outs      []*notation.VerificationOutcome
	err       error
	panicked  any
	log       *callLog
	blobs     [][]byte
	blobDescs []ocispec.Descriptor
}

var ctx = context.Background()

func runCase(fx *realFixtures, c *caseT) (o *obs) {
	lg := &callLog{}
	o = &obs{log: lg}
	repo := &mockRepo{resolved: c.w().resolved, manifests: manifests, blobDescs: blobDescs, blobs: scriptedBlobs, kinds: c.kinds, pages: c.pages, fetchErr: errKinds[c.errK].fetchErr, log: lg}
	var v notation.Verifier
	switch c.pass {
	case pScripted:
		v = &scriptedVerifier{kinds: c.kinds, blobs: scriptedBlobs, invalidErr: errKinds[c.errK].verifyErr, content: c.w().contents[c.pay], log: lg}
	case pSkip:
		v = fx.skip // the real verifier itself: its SkipVerify is the hook under test
	case pReal:
		blobs := make([][]byte, len(c.kinds))
		descs := make([]ocispec.Descriptor, len(c.kinds))
		for i, k := range c.kinds {
			j := 3
			if k == kValid {
				j = c.pay
			}
			blobs[i], descs[i] = fx.blobs[c.world][i][j], fx.descs[c.world][i][j]
		}
		repo.blobs, repo.blobDescs = blobs, descs
		v = &loggingVerifier{inner: fx.strict, index: fx.index, n: len(c.kinds), log: lg}
	}
	repo.manifests = manifestsDeco[c.deco]
	if c.imt > 0 { // the signatures that do not verify are of an envelope type notation does not know
		ds := make([]ocispec.Descriptor, len(c.kinds))
		copy(ds, repo.blobDescs)
		for i, k := range c.kinds {
			if k == kInvalid || k == kNilOutcome {
				ds[i].MediaType = invalidMTNames[c.imt]
			}
		}
		repo.blobDescs = ds
	}
	o.blobs, o.blobDescs = repo.blobs, repo.blobDescs
	defer func() {
		if p := recover(); p != nil {
			o.panicked = p
		}
	}()
	o.desc, o.outs, o.err = notation.Verify(ctx, v, repo, notation.VerifyOptions{ArtifactReference: c.w().refStrings[c.ref], MaxSignatureAttempts: c.n})
	return o
}

// ---------------- judging ----------------

// demand is what the STATEMENT of C10, read literally, fixes for a case. Everything else the
// reference loop of A.3 predicts (exact call logs, which of several good signatures wins, the order
// and number of repository calls before an argument error, the arguments of collaborator calls, the
// result under skip) is compared too, but only RECORDED (a3Deviations -> outcome classes "recorded:<key>").
const (
	dEither = iota
	dMustFail
	dMustSucceed
)

type demand struct {
	result      int
	label       string
	loop        bool  // the listing decides the result
	qual        uint8 // bit i: signature i verifies, is among the first N and everything before it can be fetched
	noRepoCalls bool  // "when the applicable level is skip nothing is resolved, listed or fetched at all"
}

func stated(c *caseT, e *expectation) demand {
	var d demand
	digestForm := c.ref == rDigest || c.ref.isMismatch() || c.ref.isMalformed()
	if c.pass == pSkip && digestForm {
		d.noRepoCalls = true
	}
	fail := func(label string) demand { d.result, d.label = dMustFail, label; return d }
	switch {
	case c.n <= 0:
		return fail("nonpositive-limit")
	case c.pass != pScripted && c.ref.isTag():
		return d // SkipVerify's parser limitation: recorded
	case c.ref == rNone:
		return fail("no-tag-or-digest")
	case c.ref == rGarbage:
		return fail("garbage") // it has neither tag nor digest
	case c.pass == pSkip:
		return d // the statement does not say what Verify returns under skip
	case c.ref.isMismatch() || c.ref == rTruncated || c.ref == rTooLong:
		return fail("digest-mismatch:" + refNames[c.ref] + "/repository-resolves-" + c.w().name)
	case c.ref == rUpperHex:
		return d // the resolved digest in another spelling: whether it "differs" depends on the reading
	}
	d.loop = true
	nilAmongFirstN := false
	fetchable := true
	for i, s := range c.kinds {
		if i >= c.n {
			break
		}
		switch s {
		case kUnfetchable:
			fetchable = false
		case kNilOutcome:
			nilAmongFirstN = true // outside the statement's alphabet: aborting and going on are both tolerated
		case kValid:
			if fetchable {
				d.qual |= 1 << uint(i)
			}
		}
	}
	switch {
	case d.qual == 0:
		d.result, d.label = dMustFail, classLabel[e.class]
	case !nilAmongFirstN:
		d.result = dMustSucceed
	}
	return d
}

func judge(c *caseT, e *expectation, o *obs, viol func(key, detail string), rec func(key string)) {
	if o.panicked != nil {
		viol("result/panic", fmt.Sprintf("notation.Verify panicked: %v", o.panicked))
		return
	}
	d := stated(c, e)
	lg := o.log
	ok := o.err == nil
	res := c.w().resolved
	switch {
	case d.result == dMustFail && ok:
		viol("result/accepted-instead-of-error:"+d.label, fmt.Sprintf("Verify succeeded (descriptor %s, %d outcomes); the statement says error: %s", o.desc.Digest, len(o.outs), d.label))
	case d.result == dMustSucceed && !ok:
		viol("result/error-instead-of-success", fmt.Sprintf("a signature among the first %d verifies and everything before it could be fetched (qualifying set %06b), yet Verify returned %v", c.n, d.qual, o.err))
	}
	if d.noRepoCalls && lg.anyRepositoryCall() {
		viol("args/no-repository-call-expected:skip-policy", fmt.Sprintf("the applicable level is skip, yet the repository was called: resolve=%v list=%d pages=%d fetch=%d", lg.resolves, len(lg.lists), len(lg.pages), len(lg.fetches)))
	}
	// "never more than N" (N is the caller's attempt limit): distinct listed signatures fetched / evaluated
	var fmask, vmask uint8
	for _, f := range lg.fetches {
		if f.Sig >= 0 {
			fmask |= 1 << uint(f.Sig)
		}
	}
	for _, v := range lg.verifies {
		if v.Sig >= 0 {
			vmask |= 1 << uint(v.Sig)
		}
	}
	if c.n > 0 {
		if n := bits.OnesCount8(fmask); n > c.n {
			viol("loop/fetched-beyond-limit", fmt.Sprintf("%d distinct signatures fetched (set %06b), limit is %d", n, fmask, c.n))
		}
		if n := bits.OnesCount8(vmask); n > c.n {
			viol("loop/verified-beyond-limit", fmt.Sprintf("%d distinct signatures evaluated (set %06b), limit is %d", n, vmask, c.n))
		}
	}
	if d.loop {
		for _, ld := range lg.lists {
			if ld.Digest != res.Digest {
				viol("args/list-descriptor", fmt.Sprintf("signatures listed for %s, the repository resolved %s", ld.Digest, res.Digest))
				break
			}
		}
	}
	if d.loop && ok {
		// "it then returns the resolved artifact descriptor and exactly that signature's outcome,
		// having fetched and evaluated no signature after it"
		// "returns the resolved artifact descriptor": the descriptor the repository answered, field by field
		// (equal contents, not the same map/slice instances)
		if !descEq(o.desc, res) {
			why := "optional-fields-differ" // media type, digest and size agree; annotations, URLs, artifact type, data or platform do not
			if o.desc.MediaType != res.MediaType || o.desc.Digest != res.Digest || o.desc.Size != res.Size {
				why = "other"
			}
			if descEq(o.desc, ocispec.Descriptor{}) {
				why = "zero"
			}
			viol("result/wrong-descriptor:"+why, fmt.Sprintf("returned descriptor %+v, the repository resolved %+v", o.desc, res))
		}
		w := -1
		switch {
		case len(o.outs) != 1:
			viol("result/wrong-outcomes:count", fmt.Sprintf("%d outcomes returned, want exactly the one of the signature that verified", len(o.outs)))
		case o.outs[0] == nil:
			viol("result/wrong-outcomes:nil", "the one outcome returned is nil")
		case o.outs[0].Error != nil:
			viol("result/wrong-outcomes:failed-outcome", fmt.Sprintf("success reported with a failed outcome: %v", o.outs[0].Error))
		default:
			for i := range c.kinds {
				if bytes.Equal(o.outs[0].RawSignature, o.blobs[i]) {
					w = i
					break
				}
			}
			if w < 0 || d.qual&(1<<uint(w)) == 0 {
				viol("result/wrong-outcomes:other-signature", fmt.Sprintf("the outcome returned belongs to signature #%d, which is not one that verifies among the first %d with everything before it fetchable (qualifying set %06b)", w, c.n, d.qual))
				w = -1
			} else if d.qual&(1<<uint(w)-1) != 0 {
				rec("result/outcome-of-a-later-qualifying-signature")
			}
		}
		if w >= 0 {
			after := ^uint8(0) << uint(w+1)
			if fmask&after != 0 || vmask&after != 0 {
				viol("loop/continued-after-success", fmt.Sprintf("the outcome of signature #%d is returned, yet signatures after it were fetched (set %06b) or evaluated (set %06b)", w, fmask, vmask))
			}
		}
	}
	a3Deviations(c, e, o, func(key, _ string) { rec(key) })
}

// a3Deviations compares the observation with everything the reference loop of DESIGN.md A.3 predicts,
// including what the statement does not fix. Its findings are evidence only (recorded:<key>).
func a3Deviations(c *caseT, e *expectation, o *obs, viol func(key, detail string)) {
	if o.panicked != nil {
		return
	}
	lg := o.log
	label := classLabel[e.class]
	if e.class == clErrMismatch || e.class == clErrMalformed {
		label += ":" + refNames[c.ref] + "/repository-resolves-" + c.w().name
	}
	resolved, resolveArg := c.w().resolved, c.w().resolveArg
	if e.judgeResult {
		switch {
		case e.success && o.err != nil:
			if e.calls == callsNone {
				viol("skip/error-instead-of-success", fmt.Sprintf("the statement scoped to the repository has level skip, Verify returned %v", o.err))
			} else {
				viol("result/error-instead-of-success", fmt.Sprintf("signature #%d verifies, is within the limit and everything before it could be fetched, yet Verify returned %v", e.winner, o.err))
			}
		case !e.success && o.err == nil:
			viol("result/accepted-instead-of-error:"+label, fmt.Sprintf("Verify succeeded (descriptor %s, %d outcomes); the reference loop says error: %s", o.desc.Digest, len(o.outs), label))
		case e.success && e.calls == callsLoop:
			if !descEq(o.desc, resolved) {
				why := "other"
				if descEq(o.desc, ocispec.Descriptor{}) {
					why = "zero"
				}
				viol("result/wrong-descriptor:"+why, fmt.Sprintf("returned descriptor %+v, the repository resolved %+v", o.desc, resolved))
			}
			switch {
			case len(o.outs) != 1:
				viol("result/wrong-outcomes:count", fmt.Sprintf("%d outcomes returned, want exactly the winner's (#%d)", len(o.outs), e.winner))
			case o.outs[0] == nil:
				viol("result/wrong-outcomes:nil", "the one outcome returned is nil")
			case o.outs[0].Error != nil:
				viol("result/wrong-outcomes:failed-outcome", fmt.Sprintf("success reported with a failed outcome: %v", o.outs[0].Error))
			case !bytes.Equal(o.outs[0].RawSignature, o.blobs[e.winner]):
				viol("result/wrong-outcomes:other-signature", fmt.Sprintf("the outcome returned is not that of signature #%d (the first valid one)", e.winner))
			}
		}
	}
	if !e.judgeCalls {
		return
	}
	switch e.calls {
	case callsNone:
		lab := label
		if e.class == clErrNoRef || e.class == clErrGarbage {
			lab = refNames[c.ref]
		} else if e.class == clSkipOtherDigest {
			lab += ":" + refNames[c.ref]
		}
		if lg.anyRepositoryCall() {
			viol("args/no-repository-call-expected:"+lab, fmt.Sprintf("repository was called: resolve=%v list=%d pages=%d fetch=%d", lg.resolves, len(lg.lists), len(lg.pages), len(lg.fetches)))
		}
		if len(lg.verifies) > 0 {
			viol("args/no-verify-call-expected:"+lab, fmt.Sprintf("%d verifier calls", len(lg.verifies)))
		}
		return
	case callsResolveOnly:
		if len(lg.lists)+len(lg.pages)+len(lg.fetches)+len(lg.verifies) > 0 {
			viol("args/no-list-or-fetch-expected:"+label, fmt.Sprintf("list=%d pages=%d fetch=%d verify=%d although the digest of the reference is not the digest the repository resolves", len(lg.lists), len(lg.pages), len(lg.fetches), len(lg.verifies)))
		}
		for _, a := range lg.resolves {
			if a != resolveArg[c.ref] {
				viol("args/resolve-reference:"+refNames[c.ref], fmt.Sprintf("Resolve(%q), the reference names %q", a, resolveArg[c.ref]))
				break
			}
		}
		return
	}
	// the loop
	if len(lg.resolves) == 0 {
		viol("args/artifact-not-resolved", "Resolve was never called")
	}
	for _, a := range lg.resolves {
		if a != resolveArg[c.ref] {
			viol("args/resolve-reference:"+refNames[c.ref], fmt.Sprintf("Resolve(%q), the reference names %q", a, resolveArg[c.ref]))
			break
		}
	}
	if len(lg.lists) == 0 {
		viol("args/signatures-not-listed", "ListSignatures was never called")
	}
	for _, d := range lg.lists {
		if !descEq(d, resolved) {
			viol("args/list-descriptor", fmt.Sprintf("ListSignatures(%+v), the repository resolved %+v", d, resolved))
			break
		}
	}
	if lg.pushes > 0 {
		viol("args/push-during-verification", "PushSignature was called")
	}
	nF, nV := len(lg.fetches), len(lg.verifies)
	fseq := make([]int, nF)
	for i, f := range lg.fetches {
		fseq[i] = f.Sig
		if f.Sig >= 0 && !f.DescOK {
			viol("args/fetch-descriptor", fmt.Sprintf("fetch %d asked with a descriptor that differs from the listed manifest descriptor #%d", i, f.Sig))
		}
	}
	vseq := make([]int, nV)
	for i, v := range lg.verifies {
		vseq[i] = v.Sig
		if v.Sig >= 0 {
			if want := o.blobDescs[v.Sig].MediaType; v.MT != want {
				viol("args/verify-media-type", fmt.Sprintf("verify call %d (signature #%d) got media type %q, the fetched blob descriptor says %q", i, v.Sig, v.MT, want))
			}
		}
		if !descEq(v.Desc, resolved) {
			viol("args/verify-descriptor", fmt.Sprintf("verify call %d got artifact descriptor %+v, the repository resolved %+v", i, v.Desc, resolved))
		}
	}
	checkSeq := func(what, past string, seq []int, want int) {
		for i, s := range seq {
			if s != i {
				viol("loop/"+what+"-log-not-listing-prefix", fmt.Sprintf("%s log %v is not a prefix of the listing order 0,1,2,..", what, seq))
				return
			}
		}
		n := len(seq)
		if n > c.n {
			viol("loop/"+past+"-beyond-limit", fmt.Sprintf("%d signatures %s, limit is %d", n, past, c.n))
		}
		switch {
		case n > want && e.success:
			viol("loop/continued-after-success", fmt.Sprintf("%s log %v, signature #%d was the first good one", what, seq, e.winner))
		case n > want && e.class == clErrUnfetchable:
			viol("loop/continued-after-unfetchable", fmt.Sprintf("%s log %v, signature #%d could not be fetched", what, seq, e.fetchN-1))
		case n > want && e.class == clErrNilOutcome:
			viol("loop/continued-after-nil-outcome", fmt.Sprintf("%s log %v, the verifier returned no outcome for #%d", what, seq, e.fetchN-1))
		case n > want && n <= c.n:
			viol("loop/"+past+"-more-than-listed", fmt.Sprintf("%s log %v, expected %d entries", what, seq, want))
		case n < want:
			viol("loop/stopped-early:"+what, fmt.Sprintf("%s log %v, expected the first %d listed signatures (%s)", what, seq, want, label))
		}
	}
	checkSeq("fetch", "fetched", fseq, e.fetchN)
	checkSeq("verify", "verified", vseq, e.verifyN)
}

// ---------------- recorded (not judged) facts ----------------

var (
	recMu    sync.Mutex
	recorded = map[string]int64{}
)

func recordKey(key string) {
	recMu.Lock()
	recorded[key]++
	recMu.Unlock()
}

var (
	classCount      [nPasses][nClasses]atomic.Int64
	recFailOuts     [3]atomic.Int64 // outcomes slice on failure: nil, empty, non-empty
	recFailDesc     [2]atomic.Int64 // descriptor on failure: zero, non-zero
	recPagesLimit   [2]atomic.Int64 // limit reached with pages left: not requested, requested
	recPagesSuccess [2]atomic.Int64 // success with pages left: not requested, requested
	recSkipShape    [2]atomic.Int64 // skip success: (zero descriptor, one outcome of level skip) yes / other
	recTagReal      [2]atomic.Int64 // tag reference with the real verifier: error / success
	controls        [nPasses][2]atomic.Int64
)

func record(c *caseT, e *expectation, o *obs) {
	classCount[c.pass][e.class].Add(1)
	if o.panicked != nil {
		return
	}
	if e.success {
		controls[c.pass][0].Add(1)
		if o.err == nil {
			controls[c.pass][1].Add(1)
		}
	}
	if e.class == clRecordedTag {
		if o.err != nil {
			recTagReal[0].Add(1)
		} else {
			recTagReal[1].Add(1)
		}
		return
	}
	if e.class == clSkip && o.err == nil {
		if descEq(o.desc, ocispec.Descriptor{}) && len(o.outs) == 1 && o.outs[0] != nil && o.outs[0].VerificationLevel != nil && o.outs[0].VerificationLevel.Name == "skip" {
			recSkipShape[0].Add(1)
		} else {
			recSkipShape[1].Add(1)
		}
	}
	if o.err != nil {
		switch {
		case o.outs == nil:
			recFailOuts[0].Add(1)
		case len(o.outs) == 0:
			recFailOuts[1].Add(1)
		default:
			recFailOuts[2].Add(1)
		}
		if descEq(o.desc, ocispec.Descriptor{}) {
			recFailDesc[0].Add(1)
		} else {
			recFailDesc[1].Add(1)
		}
	}
	if e.calls == callsLoop && e.fetchN > 0 && (e.success || e.class == clErrLimitReached) {
		// page that holds the last signature walked
		last, pos := -1, 0
		for pi, sz := range c.pages {
			pos += sz
			if pos >= e.fetchN {
				last = pi
				break
			}
		}
		if last >= 0 && last < len(c.pages)-1 {
			j := 0
			if len(o.log.pages) > last+1 {
				j = 1
			}
			if e.success {
				recPagesSuccess[j].Add(1)
			} else {
				recPagesLimit[j].Add(1)
			}
		}
	}
}

// ---------------- enumeration ----------------

func allListings(alphabet []kind, maxLen int) [][]kind {
	out := [][]kind{{}}
	prev := [][]kind{{}}
	for k := 1; k <= maxLen; k++ {
		var next [][]kind
		for _, p := range prev {
			for _, a := range alphabet {
				l := append(append(make([]kind, 0, k), p...), a)
				next = append(next, l)
			}
		}
		out = append(out, next...)
		prev = next
	}
	return out
}

// pagings returns all compositions of k (page sizes >= 1, in order); with
// emptyPages also every composition with ONE empty page inserted at each position.
func pagings(k int, emptyPages bool) [][]int {
	var comps [][]int
	if k == 0 {
		comps = [][]int{{}}
	} else {
		for mask := 0; mask < 1<<(k-1); mask++ {
			var p []int
			run := 1
			for g := 0; g < k-1; g++ {
				if mask&(1<<g) != 0 {
					p = append(p, run)
					run = 1
				} else {
					run++
				}
			}
			p = append(p, run)
			comps = append(comps, p)
		}
	}
	if !emptyPages {
		return comps
	}
	out := append([][]int{}, comps...)
	for _, p := range comps {
		for pos := 0; pos <= len(p); pos++ {
			q := make([]int, 0, len(p)+1)
			q = append(q, p[:pos]...)
			q = append(q, 0)
			q = append(q, p[pos:]...)
			out = append(out, q)
		}
	}
	return out
}

type spaceT struct {
	pass        int
	alphabet    []kind
	maxLen      int
	emptyUpTo   int // listings of up to this length are also paged with one empty page at each position (-1: never)
	variantUpTo int // listings of up to this length are also run with every error kind x every signed-payload variant
}

func enumerate(r *hx.Run, fx *realFixtures, sp spaceT) {
	listings := allListings(sp.alphabet, sp.maxLen)
	pg := make([][][]int, sp.maxLen+1)
	npg := 0
	for k := 0; k <= sp.maxLen; k++ {
		pg[k] = pagings(k, k <= sp.emptyUpTo)
	}
	for _, l := range listings {
		npg += len(pg[len(l)])
	}
	name := passNames[sp.pass]
	r.Extra[name+"_listings"] = len(listings)
	r.Extra[name+"_listing_x_paging"] = npg
	r.Extra[name+"_max_listing_length"] = sp.maxLen
	r.Extra[name+"_signature_kinds"] = len(sp.alphabet)
	r.Extra[name+"_empty_pages_for_listings_up_to"] = sp.emptyUpTo
	r.Extra[name+"_error_kinds_x_payload_variants_for_listings_up_to"] = sp.variantUpTo
	var done atomic.Int64
	r.Parallel(len(listings), func(i int) {
		if r.Expired() {
			return
		}
		kinds := listings[i]
		evals, calls := 0, 0
		// the extra dimensions matter where a signature fails / verifies: references that reach the listing, N >= 1
		type variant struct{ errK, pay, deco, imt int }
		variants := []variant{{0, 0, 0, 0}}
		if len(kinds) <= sp.variantUpTo && sp.pass != pSkip {
			hasFailing, hasValid := false, false
			for _, k := range kinds {
				hasFailing = hasFailing || k == kUnfetchable || (k == kInvalid && sp.pass == pScripted)
				hasValid = hasValid || k == kValid
			}
			ne, np := 1, 1
			if hasFailing {
				ne = len(errKinds)
			}
			if hasValid {
				np = len(payloadNames)
			}
			variants = variants[:0]
			for a := 0; a < ne; a++ {
				for b := 0; b < np; b++ {
					variants = append(variants, variant{a, b, 0, 0})
				}
			}
			// listing decorations x media types of the non-verifying signatures (generic errors, first payload)
			nd, nm := 1, 1
			if len(kinds) >= 2 {
				nd = len(decoNames)
			}
			for _, k := range kinds {
				if k == kInvalid || k == kNilOutcome {
					nm = len(invalidMTNames)
				}
			}
			for a := 0; a < nd; a++ {
				for b := 0; b < nm; b++ {
					if a+b > 0 {
						variants = append(variants, variant{0, 0, a, b})
					}
				}
			}
		}
		loopEntered := make([]bool, len(limits))
		for _, pages := range pg[len(kinds)] {
			for ni, n := range limits {
				for _, ref := range allRefs {
					vs := variants
					if n <= 0 || !(ref.kind.isTag() || ref.kind == rDigest) {
						vs = variants[:1]
					}
					for _, vr := range vs {
						c := &caseT{pass: sp.pass, kinds: kinds, pages: pages, n: n, ref: ref.kind, world: ref.world, errK: vr.errK, pay: vr.pay, deco: vr.deco, imt: vr.imt}
						e := reference(c)
						o := runCase(fx, c)
						evals++
						calls += len(o.log.resolves) + len(o.log.lists) + len(o.log.fetches) + len(o.log.verifies)
						judge(c, &e, o, func(key, detail string) {
							r.Violation(key, c.String()+" :: "+detail, c.replay())
						}, recordKey)
						record(c, &e, o)
						if len(o.log.fetches) > 0 {
							loopEntered[ni] = true
						}
					}
				}
			}
		}
		r.Eval(evals)
		r.State(len(pg[len(kinds)]))
		r.Transition(calls)
		for ni, n := range limits {
			if loopEntered[ni] {
				r.Nontrivial(fmt.Sprintf("%s|%v|%d", name, kinds, n))
			}
		}
		done.Add(1)
		if i%401 == 0 {
			var ks []string
			for _, k := range kinds {
				ks = append(ks, kindNames[k])
			}
			r.Sample(map[string]any{"pass": name, "listing": ks, "pagings": len(pg[len(kinds)]), "limits": limits, "references": refNames, "first_paging": pg[len(kinds)][0], "last_paging": pg[len(kinds)][len(pg[len(kinds)])-1]})
		}
	}, func(i int, v any, stack string) {
		r.Infra("harness panic in pass %s listing %d: %v\n%s", name, i, v, stack)
	})
	if int(done.Load()) != len(listings) {
		r.Capped(fmt.Sprintf("pass %s: %d of %d listings completed before the deadline", name, done.Load(), len(listings)))
	}
}

func hist(names []string, v []atomic.Int64) map[string]int64 {
	m := map[string]int64{}
	for i := range v {
		m[names[i]] = v[i].Load()
	}
	return m
}

func main() {
	r := hx.New("C10")
	r.Rule = "every element of listing x paging x limit x reference kind is run once through notation.Verify per pass (scripted verifier; real verifier with a skip-level statement; real verifier with real signatures) and judged against the literal statement (reference loop of DESIGN.md A.3; its predictions beyond the statement are recorded only); non-trivial = distinct (pass, listing, limit) triples in which at least one signature is fetched; states = listing x paging pairs; transitions = repository and verifier calls observed"
	r.Assumptions = []string{
		"the mock repository resolves every reference (tag, matching digest, other digest) to the same descriptor and ends the paging at the first error of the callback, as the oras-backed repositories do",
		"a verifier that returns (nil, err) is outside the statement's alphabet (valid/invalid/unfetchable): when such a signature is among the first N, aborting with an error and treating it as invalid are both tolerated",
		"'never more than N' is enforced on failing runs too (N is the caller's attempt limit), counted in distinct listed signatures; repeated fetches of one signature are not counted",
		"'the resolved artifact descriptor' is compared field by field (contents, not map/slice identity) with what the mock's Resolve answered; 'that signature's outcome' is identified by RawSignature and may be that of any signature that verifies among the first N with everything before it fetchable",
		"under skip only the absence of repository calls is judged; the matching digest in upper-case hex is recorded only",
		"with the real verifier a tag reference is refused by SkipVerify's reference parser (documented TODO in trustpolicy): recorded, not judged",
		"skip policy with a digest that the repository would not resolve: only the absence of repository calls is judged (the two error/skip clauses of the statement cannot both be demanded)",
		"on failure the content of the returned outcomes slice and descriptor, and whether pages after the limit are requested, are recorded only",
		"ECDSA/SHA-2 are sound; certificates are generated by lib/pki",
	}
	initFixtures()

	if r.Replay != "" {
		var rc replayCase
		if err := r.LoadReplay(&rc); err != nil {
			r.Infra("replay: %v", err)
			r.Finish()
		}
		c, err := fromReplay(rc)
		if err != nil {
			r.Infra("replay: %v", err)
			r.Finish()
		}
		var fx *realFixtures
		if c.pass != pScripted {
			fx = buildReal(r, 3)
		}
		e := reference(c)
		o := runCase(fx, c)
		r.Eval(1)
		n := 0
		judge(c, &e, o, func(key, detail string) {
			n++
			r.Violation(key, c.String()+" :: "+detail, c.replay())
		}, func(key string) {
			fmt.Println("replay: recorded (not a violation): differs from the A.3 reference loop in", key)
			recordKey(key)
		})
		record(c, &e, o)
		r.Outcome(passNames[c.pass] + "/" + classNames[e.class])
		fmt.Printf("replay: %s\n  reference loop: %s (fetch %d, verify %d)\n  observed: err=%v descriptor=%s outcomes=%d resolve=%v list=%d pages=%d fetch=%v verify=%v\n", c, classNames[e.class], e.fetchN, e.verifyN, o.err, o.desc.Digest, len(o.outs), o.log.resolves, len(o.log.lists), len(o.log.pages), o.log.fetches, sigsOf(o.log.verifies))
		if n == 0 {
			fmt.Println("replay: holds")
		}
		r.Finish()
	}

	three := []kind{kValid, kInvalid, kUnfetchable}
	four := []kind{kValid, kInvalid, kUnfetchable, kNilOutcome}
	var spaces []spaceT
	realN := 2
	if r.Thorough() {
		r.SetDeadline(9 * time.Minute)
		realN = 3
		spaces = []spaceT{
			{pScripted, four, 6, 6, 4},
			{pSkip, four, 4, 4, -1},
			{pReal, three, 3, 3, 3},
		}
	} else {
		spaces = []spaceT{
			{pScripted, four, 5, 4, 3},
			{pSkip, three, 3, -1, -1},
			{pReal, three, 2, 2, 2},
		}
	}
	fx := buildReal(r, realN)
	for _, sp := range spaces {
		enumerate(r, fx, sp)
	}

	// outcome classes (counted locally, handed to the run-time here)
	for p := 0; p < nPasses; p++ {
		for cl := 0; cl < nClasses; cl++ {
			name := passNames[p] + "/" + classNames[cl]
			for n := classCount[p][cl].Load(); n > 0; n-- {
				r.Outcome(name)
			}
		}
	}
	// deviations from the A.3 reference loop in things the statement does not fix: evidence only
	recMu.Lock()
	rkeys := make([]string, 0, len(recorded))
	for k := range recorded {
		rkeys = append(rkeys, k)
	}
	sort.Strings(rkeys)
	for _, k := range rkeys {
		for n := recorded[k]; n > 0; n-- {
			r.Outcome("recorded:" + k)
		}
	}
	recMu.Unlock()
	r.Extra["limits"] = limits
	r.Extra["reference_kinds"] = refNames
	r.Extra["repository_resolves"] = worldNames
	r.Extra["recorded_failure_outcomes_slice"] = hist([]string{"nil", "empty", "non-empty"}, recFailOuts[:])
	r.Extra["recorded_failure_descriptor"] = hist([]string{"zero", "non-zero"}, recFailDesc[:])
	r.Extra["recorded_pages_left_when_limit_reached"] = hist([]string{"not-requested", "requested"}, recPagesLimit[:])
	r.Extra["recorded_pages_left_after_success"] = hist([]string{"not-requested", "requested"}, recPagesSuccess[:])
	r.Extra["recorded_skip_success_shape"] = hist([]string{"zero-descriptor+one-outcome-of-level-skip", "other"}, recSkipShape[:])
	r.Extra["recorded_tag_reference_with_real_verifier"] = hist([]string{"error", "success"}, recTagReal[:])
	ctl := map[string]string{}
	for p := 0; p < nPasses; p++ {
		exp, ok := controls[p][0].Load(), controls[p][1].Load()
		ctl[passNames[p]] = fmt.Sprintf("%d of %d expected successes succeeded", ok, exp)
		if p == pSkip {
			continue // the statement does not fix the result under skip: counted, never an infrastructure error
		}
		if (exp == 0 || ok == 0) && r.Violations() == 0 { // with violations reported the failed controls are the finding, not an infrastructure problem
			r.Infra("vacuous run: pass %s: %d of %d positive controls (cases the reference loop accepts) succeeded", passNames[p], ok, exp)
		}
	}
	r.Extra["positive_controls"] = ctl
	r.Finish()
}

func sigsOf(v []verifyEv) []int {
	out := make([]int, len(v))
	for i := range v {
		out[i] = v[i].Sig
	}
	return out
}
