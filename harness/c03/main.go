// C03 — trust comes only from the stores the applicable policy names, typed by scheme.
//
// E3: placements of certificates into the six named stores (3 types x 2 names)
// x every trust-store list a statement can carry (length 1..3 over the six
// references, duplicates included) x a second statement with another scope that
// lists the other stores x scheme x format x chain shape. Real on-disk trust
// store behind a logging decorator; set-membership oracle + call-log clauses.
//
// Two further dimensions (third round of seeded defects):
//   - store NAMES: the two names of every type are also drawn from a hand-labelled list of near-miss pairs (trailing
//     dot, letter case, extension, leading dot, dash/underscore, dotted suffix, inner dot, leading zero, long common
//     prefix, trailing dash). All are valid names and pairwise different, so a store listed under one name must
//     never be served from the store of the other name. The oracle is unchanged: it works on store indices.
//   - OPTIONS that touch the authenticity result after it was computed: how the statement sets the authenticity
//     action (enforced / logged) x a verification plugin named by the signature (none, trusted-identity success,
//     trusted-identity failure, revocation success, both). "Passes only if anchored" is judged in every cell; the
//     converse is judged only without a plugin (as before) and is a counted positive control with one.
package main

import (
	"bytes"
	"context"
	"crypto"
	"crypto/x509"
	"fmt"
	"os"
	"path/filepath"
	"strings"
	"sync/atomic"
	"time"

	"github.com/notaryproject/notation-go"
	"github.com/notaryproject/notation-go/dir"
	"github.com/notaryproject/notation-go/verifier"
	"github.com/notaryproject/notation-go/verifier/trustpolicy"
	"github.com/notaryproject/notation-go/verifier/truststore"
	"github.com/notaryproject/notation-go/zzverif/lib/forge"
	"github.com/notaryproject/notation-go/zzverif/lib/hx"
	"github.com/notaryproject/notation-go/zzverif/lib/mocks"
	"github.com/notaryproject/notation-go/zzverif/lib/pki"
	"github.com/notaryproject/notation-go/zzverif/lib/vt"
	"github.com/opencontainers/go-digest"
	fw "github.com/notaryproject/notation-plugin-framework-go/plugin"
	ocispec "github.com/opencontainers/image-spec/specs-go/v1"
)

var storeRefs = []string{"ca:s1", "ca:s2", "signingAuthority:s1", "signingAuthority:s2", "tsa:s1", "tsa:s2"}

var storeTypes = []string{"ca", "ca", "signingAuthority", "signingAuthority", "tsa", "tsa"}

var longName = strings.Repeat("a", 64)

// namePairs: the two store names used under every type. Index 0 is the plain pair; the others are near misses,
// hand-labelled: every name matches [a-zA-Z0-9_.-]+ (valid for the policy and for the trust store) and the two names
// of a pair are different names, hence different stores.
var namePairs = []struct{ A, B, Label string }{
	{"s1", "s2", "plain"},
	{"s1", "s1.", "trailing-dot"},
	{"s1", "S1", "letter-case"},
	{"s1", "s10", "extension"},
	{"s1", ".s1", "leading-dot"},
	{"s-1", "s_1", "dash-underscore"},
	{"s1", "s1.d", "dotted-suffix"},
	{"s1", "s.1", "inner-dot"},
	{"1", "01", "leading-zero"},
	{longName + "x", longName + "y", "long-common-prefix"},
	{"s1", "s1-", "trailing-dash"},
}

// refsOf returns the six store references (type:name) of a name pair, in the order of storeRefs.
func refsOf(names int) []string {
	if names == 0 {
		return storeRefs
	}
	np := namePairs[names]
	out := make([]string, len(storeTypes))
	for i, t := range storeTypes {
		out[i] = t + ":" + []string{np.A, np.B}[i%2]
	}
	return out
}

// levels: how the applicable statement sets the actions. Authenticity is enforced in 0 and 2 and logged in 1;
// revocation is skipped in 0 and live in 1 and 2 (so that a plugin with the revocation capability is executed).
var levelNames = []string{"authenticity-enforced", "authenticity-logged", "authenticity-enforced+revocation-live"}

func levelSV(level int) trustpolicy.SignatureVerification {
	switch level {
	case 1:
		return trustpolicy.SignatureVerification{VerificationLevel: "audit"}
	case 2:
		return trustpolicy.SignatureVerification{VerificationLevel: "strict", Override: map[trustpolicy.ValidationType]trustpolicy.ValidationAction{
			trustpolicy.TypeAuthenticTimestamp: trustpolicy.ActionLog, trustpolicy.TypeExpiry: trustpolicy.ActionLog, trustpolicy.TypeRevocation: trustpolicy.ActionLog}}
	}
	// only authenticity is enforced, so the overall verdict follows the authenticity validation alone
	// (a listed tsa store switches timestamp verification on, which fails for lack of a countersignature: logged)
	return trustpolicy.SignatureVerification{VerificationLevel: "strict", Override: map[trustpolicy.ValidationType]trustpolicy.ValidationAction{
		trustpolicy.TypeAuthenticTimestamp: trustpolicy.ActionLog, trustpolicy.TypeExpiry: trustpolicy.ActionLog, trustpolicy.TypeRevocation: trustpolicy.ActionSkip}}
}

// plugin kinds: the signature names verification plugin "p" (critical extended attribute) and the manager has it
// installed with these verification capabilities and this verdict.
const (
	plNone = iota
	plIdentityOK
	plIdentityFail
	plRevocationOK
	plBothOK
	nPlugins
)

var pluginNames = []string{"none", "identity-success", "identity-failure", "revocation-success", "identity+revocation-success"}

func pluginOf(kind int) *mocks.VerifyPlugin {
	p := &mocks.VerifyPlugin{Name: "p", Version: "1.0.0", ProcessAll: true, Verdicts: map[fw.Capability]string{}}
	switch kind {
	case plIdentityOK:
		p.Capabilities = []fw.Capability{fw.CapabilityTrustedIdentityVerifier}
	case plIdentityFail:
		p.Capabilities = []fw.Capability{fw.CapabilityTrustedIdentityVerifier}
		p.Verdicts[fw.CapabilityTrustedIdentityVerifier] = "failure"
	case plRevocationOK:
		p.Capabilities = []fw.Capability{fw.CapabilityRevocationCheckVerifier}
	case plBothOK:
		p.Capabilities = []fw.Capability{fw.CapabilityTrustedIdentityVerifier, fw.CapabilityRevocationCheckVerifier}
	}
	return p
}

// positive controls of the plugin dimension (the converse of the statement is not judged there)
var pluginControls, pluginControlsHeld, pluginExecuted atomic.Int64

// content kinds of a store
const (
	absent = iota
	kRoot
	kInter
	kUnrelated
	kRootAndUnrelated
	kLeaf     // only meaningful for the self-signed single-certificate chain
	kEmptyDir // the store directory exists but holds no file: it cannot be loaded
	// look-alikes of the chain's CA certificates (never identical to them):
	kTwinRoot     // same subject, issuer, serial number and validity as the chain's root - another key
	kTwinInter    // the same for the intermediate
	kReissuedRoot // same subject and key as the chain's root - another serial number and validity
	nKinds
)

var kindNames = []string{"absent", "root", "intermediate", "unrelated", "root+unrelated", "leaf", "empty-directory", "twin-of-root(same-names-and-serial)", "twin-of-intermediate(same-names-and-serial)", "re-issued-root(same-name-and-key)"}

type caseT struct {
	Placement []int `json:"placement"` // per store reference: content kind
	List      []int `json:"list"`      // indices into storeRefs
	Scheme    int   `json:"scheme"`
	Format    int   `json:"format"`
	Shape     int   `json:"shape"` // 0: leaf<-inter<-root, 1: self-signed leaf
	// Prior > 0: the same verifier instance first verified another signature (scheme/format combination
	// Prior-1 of the same chain) - the judged verification must behave as on a fresh verifier.
	Prior int `json:"prior"`
	// Store 1: instead of the on-disk trust store a caller-supplied X509TrustStore whose answers are
	// sub-slices of ONE backing array (in store-reference order, each with spare capacity reaching into the
	// next store's certificates) - legal for an implementation, fatal for a caller that appends to what it got.
	// Prior 5 (with Store 1): the same verifier first verified the signature under the OTHER statement
	// (reference reg.io/team), which lists the complementary stores.
	Store int `json:"store"`
	// Names: index into namePairs (0: s1/s2). Level: index into levelNames. Plugin: plugin kind.
	Names  int `json:"names"`
	Level  int `json:"level"`
	Plugin int `json:"plugin"`
	// Cancel: the context given to Verify is 0: never cancelled, 1: already cancelled, 1+k: cancelled by the trust
	// store at the moment its k-th answer returns (synchronously, no second goroutine).
	Cancel int `json:"cancel"`
}

var cancelNames = []string{"never", "before-the-call", "when-store-read-1-returns", "when-store-read-2-returns"}

// cancellingStore cancels the caller's context when its n-th answer returns.
type cancellingStore struct {
	inner  truststore.X509TrustStore
	n      int
	seen   atomic.Int64
	cancel context.CancelFunc
}

func (s *cancellingStore) GetCertificates(ctx context.Context, t truststore.Type, name string) ([]*x509.Certificate, error) {
	certs, err := s.inner.GetCertificates(ctx, t, name)
	if int(s.seen.Add(1)) == s.n {
		s.cancel()
	}
	return certs, err
}

func (c caseT) String() string {
	refs := refsOf(c.Names)
	var pl []string
	for i, k := range c.Placement {
		if k != absent {
			pl = append(pl, refs[i]+"="+kindNames[k])
		}
	}
	var l []string
	for _, i := range c.List {
		l = append(l, refs[i])
	}
	prior := "fresh verifier"
	if c.Prior > 0 {
		if c.Prior == 5 {
			prior = "same verifier verified the signature under the other statement before"
		} else {
			prior = fmt.Sprintf("same verifier verified a %s/%s signature before", []string{"x509", "signingAuthority"}[(c.Prior-1)/2], []string{"jws", "cose"}[(c.Prior-1)%2])
		}
	}
	if c.Store == 1 {
		prior += ", caller-supplied store answering with sub-slices of one array"
	}
	if c.Cancel != 0 {
		prior += ", context cancelled " + cancelNames[c.Cancel]
	}
	if c.Level != 0 || c.Plugin != 0 {
		prior += ", " + levelNames[c.Level] + ", verification plugin: " + pluginNames[c.Plugin]
	}
	return fmt.Sprintf("stores{%s} list[%s] scheme=%s format=%s shape=%d (%s)", strings.Join(pl, ","), strings.Join(l, ","), []string{"x509", "signingAuthority"}[c.Scheme], []string{"jws", "cose"}[c.Format], c.Shape, prior)
}

type world struct {
	chain3, chain1, unrelated *pki.Chain
	// shape 2: a chain that agrees with chain3 certificate by certificate in subject, issuer, serial number and
	// validity and has other keys; shape 3: chain3 under a re-issued root (same name and key, other serial number)
	twin3, reissued3 *pki.Chain
	desc                      ocispec.Descriptor
	envs                      map[string][]byte
	root                      string
}

func (w *world) chainOf(shape int) *pki.Chain {
	return []*pki.Chain{w.chain3, w.chain1, w.twin3, w.reissued3}[shape]
}

func (w *world) certsOf(kind, shape int) []*x509.Certificate {
	ch := w.chainOf(shape)
	switch kind {
	case kRoot:
		return []*x509.Certificate{ch.Root().Cert}
	case kInter:
		if shape == 1 {
			return nil
		}
		return []*x509.Certificate{ch.Certs[1].Cert}
	case kUnrelated:
		return []*x509.Certificate{w.unrelated.Root().Cert}
	case kRootAndUnrelated:
		return []*x509.Certificate{w.unrelated.Root().Cert, ch.Root().Cert}
	case kLeaf:
		if shape != 1 {
			return nil
		}
		return []*x509.Certificate{ch.Leaf().Cert}
	case kTwinRoot, kTwinInter: // the twin relation is symmetric
		var other *pki.Chain
		switch shape {
		case 0:
			other = w.twin3
		case 2:
			other = w.chain3
		default:
			return nil
		}
		if kind == kTwinRoot {
			return []*x509.Certificate{other.Root().Cert}
		}
		return []*x509.Certificate{other.Certs[1].Cert}
	case kReissuedRoot:
		switch shape {
		case 0:
			return []*x509.Certificate{w.reissued3.Root().Cert}
		case 3:
			return []*x509.Certificate{w.chain3.Root().Cert}
		}
	}
	return nil
}

// lookalikes builds the twin chain and the re-issued root of chain3 and checks that they collide as intended.
func (w *world) lookalikes(r *hx.Run) {
	g := w.chain3
	mk := func(of *pki.Cert, key crypto.Signer, issuer *pki.Cert, sameSerial bool) *pki.Cert {
		t := pki.Tmpl{Subject: of.Cert.Subject, NotBefore: of.Cert.NotBefore, NotAfter: of.Cert.NotAfter, CA: of.Cert.IsCA, PathLen: -1}
		if sameSerial {
			t.Serial = of.Cert.SerialNumber
		} else {
			t.NotBefore = t.NotBefore.Add(time.Hour)
		}
		return pki.Make(t, key, issuer)
	}
	tr := mk(g.Certs[2], pki.Key(pki.EC256, 131), nil, true)
	ti := mk(g.Certs[1], pki.Key(pki.EC256, 132), tr, true)
	tl := mk(g.Certs[0], pki.Key(pki.EC256, 133), ti, true)
	w.twin3 = &pki.Chain{Certs: []*pki.Cert{tl, ti, tr}}
	rr := mk(g.Certs[2], g.Certs[2].Key, nil, false)
	w.reissued3 = &pki.Chain{Certs: []*pki.Cert{g.Certs[0], g.Certs[1], rr}}
	for i := range g.Certs {
		a, b := g.Certs[i].Cert, w.twin3.Certs[i].Cert
		if !bytes.Equal(a.RawSubject, b.RawSubject) || !bytes.Equal(a.RawIssuer, b.RawIssuer) || a.SerialNumber.Cmp(b.SerialNumber) != 0 || !a.NotAfter.Equal(b.NotAfter) || bytes.Equal(a.RawSubjectPublicKeyInfo, b.RawSubjectPublicKeyInfo) || a.Equal(b) {
			r.Infra("look-alike chain: certificate %d does not collide with its original as intended", i)
		}
	}
	if a := g.Root().Cert; !bytes.Equal(a.RawSubject, rr.Cert.RawSubject) || !bytes.Equal(a.RawSubjectPublicKeyInfo, rr.Cert.RawSubjectPublicKeyInfo) || a.SerialNumber.Cmp(rr.Cert.SerialNumber) == 0 || a.Equal(rr.Cert) {
		r.Infra("re-issued root does not collide with its original as intended")
	}
}

// configDir materialises a placement once; directories are read-only afterwards.
func (w *world) configDir(pl []int, shape, names int) string {
	storeRefs := refsOf(names)
	name := fmt.Sprintf("n%d-p%d-%v", names, shape, pl)
	name = strings.NewReplacer(" ", "", "[", "", "]", "").Replace(name)
	d := filepath.Join(w.root, name)
	if _, err := os.Stat(d); err == nil {
		return d
	}
	for i, k := range pl {
		certs := w.certsOf(k, shape)
		tn := strings.SplitN(storeRefs[i], ":", 2)
		if k == kEmptyDir {
			if err := os.MkdirAll(filepath.Join(d, "truststore", "x509", tn[0], tn[1]), 0o755); err != nil {
				panic(err)
			}
			continue
		}
		if len(certs) == 0 {
			continue
		}
		sd := filepath.Join(d, "truststore", "x509", tn[0], tn[1])
		if err := os.MkdirAll(sd, 0o755); err != nil {
			panic(err)
		}
		for j, c := range certs {
			if err := os.WriteFile(filepath.Join(sd, fmt.Sprintf("c%d.pem", j)), pki.PEM(c), 0o644); err != nil {
				panic(err)
			}
		}
	}
	_ = os.MkdirAll(d, 0o755)
	return d
}

var ctx = context.Background()

// sharedArrayStore answers with sub-slices of one backing array.
type sharedArrayStore struct {
	all  []*x509.Certificate
	span map[string][2]int
}

func (s *sharedArrayStore) GetCertificates(ctx context.Context, t truststore.Type, name string) ([]*x509.Certificate, error) {
	sp, ok := s.span[string(t)+":"+name]
	if !ok || sp[0] == sp[1] {
		return nil, truststore.TrustStoreError{Msg: "mock: the trust store does not exist or is empty"}
	}
	return s.all[sp[0]:sp[1]], nil // capacity reaches to the end of the shared array
}

func (w *world) run(r *hx.Run, c caseT) {
	storeRefs := refsOf(c.Names) // shadows the plain references: everything below works on indices
	cfg := w.configDir(c.Placement, c.Shape, c.Names)
	var inner truststore.X509TrustStore = truststore.NewX509TrustStore(dir.NewSysFS(cfg))
	if c.Store == 1 {
		sa := &sharedArrayStore{span: map[string][2]int{}}
		for i, k := range c.Placement {
			from := len(sa.all)
			sa.all = append(sa.all, w.certsOf(k, c.Shape)...)
			sa.span[storeRefs[i]] = [2]int{from, len(sa.all)}
		}
		inner = sa
	}
	ctx, cancel := context.WithCancel(ctx) // shadows the background context for the judged call
	defer cancel()
	var cstore *cancellingStore
	if c.Cancel >= 2 {
		cstore = &cancellingStore{inner: inner, n: c.Cancel - 1, cancel: cancel}
		inner = cstore
	}
	ls := &mocks.LoggingStore{Inner: inner}
	var list, others []string
	inList := map[int]bool{}
	for _, i := range c.List {
		list = append(list, storeRefs[i])
		inList[i] = true
	}
	for i, s := range storeRefs {
		if !inList[i] {
			others = append(others, s)
		}
	}
	onlyAuth := levelSV(c.Level)
	// the artifact lives in reg.io/team/app; the other statement is scoped to the enclosing and to a nested
	// repository path (never the artifact's own), and is placed before or after the applicable one
	applicable := trustpolicy.OCITrustPolicy{Name: "applicable", SignatureVerification: onlyAuth, TrustStores: list, TrustedIdentities: []string{"*"}, RegistryScopes: []string{"reg.io/team/app"}}
	doc := &trustpolicy.OCIDocument{Version: "1.0", TrustPolicies: []trustpolicy.OCITrustPolicy{applicable}}
	if len(others) > 0 {
		other := trustpolicy.OCITrustPolicy{Name: "other", SignatureVerification: trustpolicy.SignatureVerification{VerificationLevel: "strict"}, TrustStores: others, TrustedIdentities: []string{"*"}, RegistryScopes: []string{"reg.io/team", "reg.io/team/app/sub", "reg.io/team/ap"}}
		wild := trustpolicy.OCITrustPolicy{Name: "wild", SignatureVerification: trustpolicy.SignatureVerification{VerificationLevel: "strict"}, TrustStores: others, TrustedIdentities: []string{"*"}, RegistryScopes: []string{"*"}}
		if (len(c.List)+c.Format)%2 == 0 {
			doc.TrustPolicies = []trustpolicy.OCITrustPolicy{applicable, other, wild}
		} else {
			doc.TrustPolicies = []trustpolicy.OCITrustPolicy{wild, other, applicable}
		}
	}
	ok := mocks.AllOK()
	vopts := verifier.VerifierOptions{OCITrustPolicy: doc, RevocationCodeSigningValidator: ok}
	var plug *mocks.VerifyPlugin
	if c.Plugin != plNone {
		plug = pluginOf(c.Plugin)
		mgr := mocks.NewManager()
		mgr.Plugins["p"] = plug
		vopts.PluginManager = mgr
	}
	v, err := verifier.NewVerifierWithOptions(ls, vopts)
	if err != nil {
		r.Infra("verifier: %v (%s)", err, c)
		return
	}
	env := w.envs[fmt.Sprintf("%d/%d/%d", c.Shape, c.Scheme, c.Format)]
	if c.Plugin != plNone {
		env = w.envs[fmt.Sprintf("%d/%d/%d/plugin", c.Shape, c.Scheme, c.Format)]
	}
	if c.Prior == 5 {
		r.Eval(1)
		_, _ = v.Verify(ctx, w.desc, env, notation.VerifierVerifyOptions{ArtifactReference: "reg.io/team@" + w.desc.Digest.String(), SignatureMediaType: forge.Formats[c.Format]})
		ls.Calls = nil
	} else if c.Prior > 0 {
		ps, pf := (c.Prior-1)/2, (c.Prior-1)%2
		r.Eval(1)
		_, _ = v.Verify(ctx, w.desc, w.envs[fmt.Sprintf("%d/%d/%d", c.Shape, ps, pf)], notation.VerifierVerifyOptions{ArtifactReference: "reg.io/team/app@" + w.desc.Digest.String(), SignatureMediaType: forge.Formats[pf]})
		ls.Calls = nil // the call log of the judged verification only
	}
	if cstore != nil {
		cstore.seen.Store(0) // count the answers of the judged verification only
	}
	if c.Cancel == 1 {
		cancel()
	}
	r.Eval(1)
	outcome, verr := v.Verify(ctx, w.desc, env, notation.VerifierVerifyOptions{ArtifactReference: "reg.io/team/app@" + w.desc.Digest.String(), SignatureMediaType: forge.Formats[c.Format]})
	bad := func(key, what string) {
		if c.Prior > 0 {
			key += ":after-earlier-verification-on-same-verifier"
		}
		if c.Store == 1 {
			key += ":shared-array-store"
		}
		if c.Names != 0 {
			key += ":near-miss-store-names=" + namePairs[c.Names].Label
		}
		if c.Level == 1 {
			key += ":authenticity-logged"
		}
		if c.Plugin != plNone {
			key += ":plugin=" + pluginNames[c.Plugin]
		}
		if c.Shape >= 2 || hasLookalike(c.Placement) {
			key += ":look-alike-certificates"
		}
		if c.Cancel != 0 {
			key += ":context-cancelled=" + cancelNames[c.Cancel]
		}
		r.Violation(key, what+" | "+c.String(), c)
	}
	// Without a plugin the outcome carries exactly one authenticity result (as before). With one, an implementation
	// may reasonably report the plugin's identity verdict separately or stop before the authenticity validation:
	// "the authenticity validation passes" then means at least one result and none of them failed.
	if outcome == nil && c.Plugin == plNone {
		bad("nil-outcome", fmt.Sprint(verr))
		return
	}
	rs := vt.ResultOf(outcome, trustpolicy.TypeAuthenticity)
	if len(rs) != 1 {
		if c.Plugin == plNone {
			bad("authenticity-result-count", fmt.Sprintf("%d results", len(rs)))
			return
		}
		r.Outcome("recorded:authenticity-result-count-differs-from-one-with-a-plugin")
	}
	// ---- reference ----
	reqType := []string{"ca", "signingAuthority"}[c.Scheme]
	var L []int // distinct listed stores of the required type, in list order
	seen := map[int]bool{}
	for _, i := range c.List {
		if strings.HasPrefix(storeRefs[i], reqType+":") && !seen[i] {
			seen[i] = true
			L = append(L, i)
		}
	}
	chain := w.chainOf(c.Shape)
	allLoad := true
	anchored := false
	firstFail := -1
	for pos, i := range L {
		certs := w.certsOf(c.Placement[i], c.Shape)
		if len(certs) == 0 {
			allLoad = false
			if firstFail < 0 {
				firstFail = pos
			}
			continue
		}
		for _, tc := range certs {
			for _, cc := range chain.X509() {
				if string(tc.Raw) == string(cc.Raw) {
					anchored = true
				}
			}
		}
	}
	want := len(L) > 0 && allLoad && anchored
	got := len(rs) > 0
	for _, x := range rs {
		if x.Error != nil {
			got = false
		}
	}
	class := "fails"
	if want {
		class = "passes"
	}
	why := ""
	switch {
	case len(L) == 0:
		why = "no-listed-store-of-required-type"
	case !allLoad:
		why = "listed-store-cannot-be-loaded"
	case !anchored:
		why = "no-chain-certificate-in-listed-stores"
	}
	if plug != nil && len(plug.VerifyCalls) > 0 {
		pluginExecuted.Add(1)
	}
	// Statement: passes ONLY IF anchored in a loadable listed store of the required type - judged in every cell of
	// level x plugin.
	if got && !want {
		bad("authenticity-passed/"+why, "authenticity passed")
	}
	// An unanchored signature must be rejected wherever the statement's failing authenticity is enforced.
	if !want && verr == nil && c.Level != 1 {
		bad("verification-succeeded/"+why, "authenticity is enforced and must fail")
	}
	if c.Cancel != 0 {
		// a verification whose context was cancelled may legitimately stop with an error: only the statement's
		// implication (above) is judged
		if want && (!got || verr != nil) {
			class = "anchored-but-cancelled-verification-stopped"
		}
	} else if c.Plugin == plNone {
		// verdict clauses as before (nothing but the trust stores decides here)
		if !got && want {
			bad("authenticity-failed-although-anchored", fmt.Sprintf("authenticity failed: %v", rs[0].Error))
		}
		if want && verr != nil {
			bad("verification-failed-although-anchored", verr.Error())
		}
	} else if want {
		// with a plugin the converse is a positive control: an anchored signature whose plugin agrees verifies
		if c.Plugin == plIdentityFail {
			class = "anchored-but-plugin-rejects-identity"
			if got {
				r.Outcome("recorded:authenticity-passed-although-the-plugin-rejects-the-identity")
			}
		} else {
			pluginControls.Add(1)
			if got && verr == nil {
				pluginControlsHeld.Add(1)
			} else {
				r.Outcome("recorded:anchored-signature-with-agreeing-plugin-did-not-verify")
			}
		}
	}
	// ---- call log ----
	var wantSeq []string
	for _, i := range L {
		wantSeq = append(wantSeq, storeRefs[i])
	}
	var gotSeq []string
	for _, cl := range ls.Calls {
		gotSeq = append(gotSeq, string(cl.Type)+":"+cl.Name)
	}
	for gi, g := range gotSeq {
		if !strings.HasPrefix(g, reqType+":") {
			// Consulting a store of another type (say, loading the listed tsa stores early) confers nothing by itself: the
			// statement forbids that its certificates confer TRUST, which the verdict clauses above judge with the chain
			// certificate placed in exactly such stores. Recorded, not judged (found over-specified by a property-
			// preserving change that resolves the whole trust-store configuration first, benign/C03-b2-3).
			r.Outcome("recorded:calls/store-of-other-type-loaded:" + strings.SplitN(g, ":", 2)[0])
			continue
		}
		idx := -1
		for i, s := range storeRefs {
			if s == g {
				idx = i
			}
		}
		if idx < 0 || !inList[idx] {
			r.Outcome("recorded:calls/unlisted-store-loaded") // same reasoning: what an unlisted store holds must not confer trust (verdict clauses)
			continue
		}
		_ = gi
	}
	// The statement fixes WHICH stores may be consulted and that an unloadable listed store must not be ignored; it
	// does not fix the order, the number of times a listed store is asked, or that stores are asked at all once the
	// verdict is already a failure. Those are recorded (evidence), not judged.
	asked := map[string]bool{}
	for _, g := range gotSeq {
		asked[g] = true
	}
	if strings.Join(gotSeq, ",") != strings.Join(wantSeq[:min(len(gotSeq), len(wantSeq))], ",") {
		r.Outcome("recorded:call-order-or-repetition-differs-from-list-order")
	}
	if want && got {
		// authenticity passed: every listed store of the required type must have been asked, otherwise the verdict
		// cannot depend on whether it loads
		for _, wstore := range wantSeq {
			if !asked[wstore] {
				bad("calls/listed-store-not-loaded", fmt.Sprintf("call log %v, authenticity passed without asking %s", gotSeq, wstore))
				break
			}
		}
	}
	switch {
	case c.Cancel != 0:
		class = "cancelled/" + class
	case c.Shape >= 2 || hasLookalike(c.Placement):
		class = "look-alikes/" + class
	case c.Level != 0 || c.Plugin != 0:
		class = "options/" + class
	case c.Names != 0:
		class = "near-miss-names/" + class
	}
	r.Outcome(class + ":" + why)
	if len(L) > 0 {
		r.Nontrivial(fmt.Sprintf("%v|%v|%d|%d|%d|%d|%d|%d", c.Placement, c.List, c.Scheme, c.Format, c.Shape, c.Names, c.Level, c.Plugin)+fmt.Sprint("|", c.Cancel))
	}
}

func hasLookalike(pl []int) bool {
	for _, k := range pl {
		if k == kTwinRoot || k == kTwinInter || k == kReissuedRoot {
			return true
		}
	}
	return false
}

// placementsOf: every assignment of a content kind to at most maxStores of the six stores.
func placementsOf(kinds []int, maxStores int) [][]int {
	var placements [][]int
	var prec func(i int, cur []int, used int)
	prec = func(i int, cur []int, used int) {
		if i == len(storeRefs) {
			placements = append(placements, append([]int(nil), cur...))
			return
		}
		prec(i+1, append(cur, absent), used)
		if used < maxStores {
			for _, k := range kinds {
				prec(i+1, append(cur, k), used+1)
			}
		}
	}
	prec(0, nil, 0)
	return placements
}

// aliasFamily: a caller-supplied trust store that answers with sub-slices of ONE backing array (every store
// holds one certificate; the slice of a store has spare capacity reaching into the following stores). One
// verifier first verifies under a statement listing an ordered pair of stores, then under a statement listing a
// single store: the second verdict must follow the content of that single store only. All root-holder
// positions x all ordered pairs x all single stores x both schemes for either call x both array orders.
type aliasCase struct {
	Kind    string `json:"kind"`
	Holder  int    `json:"root_holder"`
	PriorA  int    `json:"prior_first_store"`
	PriorB  int    `json:"prior_second_store"`
	PriorSc int    `json:"prior_scheme"`
	Judged  int    `json:"judged_store"`
	Scheme  int    `json:"judged_scheme"`
	Rev     bool   `json:"array_reversed"`
}

func (w *world) aliasFamily(r *hx.Run) {
	unrelated := make([]*x509.Certificate, len(storeRefs))
	for i := range unrelated {
		unrelated[i] = pki.Make(pki.Tmpl{Subject: pki.Name(fmt.Sprintf("alias unrelated %d", i)), CA: true, PathLen: -1}, pki.Key(pki.EC256, 120+i), nil).Cert
	}
	var cases []aliasCase
	for h := range storeRefs {
		for a := range storeRefs {
			for b := range storeRefs {
				if a == b {
					continue
				}
				for ps := 0; ps < 2; ps++ {
					for j := range storeRefs {
						for sc := 0; sc < 2; sc++ {
							for _, rev := range []bool{false, true} {
								if !r.Thorough() && (h+a+b+j+ps+sc)%2 == 1 && rev {
									continue
								}
								cases = append(cases, aliasCase{"alias", h, a, b, ps, j, sc, rev})
							}
						}
					}
				}
			}
		}
	}
	r.Extra["alias_cases"] = len(cases)
	onlyAuth := trustpolicy.SignatureVerification{VerificationLevel: "strict", Override: map[trustpolicy.ValidationType]trustpolicy.ValidationAction{
		trustpolicy.TypeAuthenticTimestamp: trustpolicy.ActionLog, trustpolicy.TypeExpiry: trustpolicy.ActionLog, trustpolicy.TypeRevocation: trustpolicy.ActionSkip}}
	r.Parallel(len(cases), func(i int) {
		c := cases[i]
		sa := &sharedArrayStore{span: map[string][2]int{}}
		order := []int{0, 1, 2, 3, 4, 5}
		if c.Rev {
			order = []int{5, 4, 3, 2, 1, 0}
		}
		for _, k := range order {
			cert := unrelated[k]
			if k == c.Holder {
				cert = w.chain3.Root().Cert
			}
			sa.span[storeRefs[k]] = [2]int{len(sa.all), len(sa.all) + 1}
			sa.all = append(sa.all, cert)
		}
		doc := &trustpolicy.OCIDocument{Version: "1.0", TrustPolicies: []trustpolicy.OCITrustPolicy{
			{Name: "pair", SignatureVerification: onlyAuth, TrustStores: []string{storeRefs[c.PriorA], storeRefs[c.PriorB]}, TrustedIdentities: []string{"*"}, RegistryScopes: []string{"reg.io/team"}},
			{Name: "single", SignatureVerification: onlyAuth, TrustStores: []string{storeRefs[c.Judged]}, TrustedIdentities: []string{"*"}, RegistryScopes: []string{"reg.io/team/app"}},
		}}
		v, err := verifier.NewVerifierWithOptions(sa, verifier.VerifierOptions{OCITrustPolicy: doc, RevocationCodeSigningValidator: mocks.AllOK()})
		if err != nil {
			r.Infra("alias verifier: %v", err)
			return
		}
		r.Eval(2)
		_, _ = v.Verify(ctx, w.desc, w.envs[fmt.Sprintf("0/%d/0", c.PriorSc)], notation.VerifierVerifyOptions{ArtifactReference: "reg.io/team@" + w.desc.Digest.String(), SignatureMediaType: forge.JWS})
		_, verr := v.Verify(ctx, w.desc, w.envs[fmt.Sprintf("0/%d/0", c.Scheme)], notation.VerifierVerifyOptions{ArtifactReference: "reg.io/team/app@" + w.desc.Digest.String(), SignatureMediaType: forge.JWS})
		req := []string{"ca", "signingAuthority"}[c.Scheme]
		want := strings.HasPrefix(storeRefs[c.Judged], req+":") && c.Judged == c.Holder
		what := fmt.Sprintf("root in %s; first verification (%s) under [%s,%s], then (%s) under [%s]; array reversed=%v: err=%v", storeRefs[c.Holder], []string{"x509", "signingAuthority"}[c.PriorSc], storeRefs[c.PriorA], storeRefs[c.PriorB], []string{"x509", "signingAuthority"}[c.Scheme], storeRefs[c.Judged], c.Rev, verr)
		switch {
		case verr == nil && !want:
			r.Violation("alias/verification-succeeded-without-anchor-in-the-listed-store:shared-array-store", what, c)
		case verr != nil && want:
			r.Violation("alias/verification-failed-although-anchored:shared-array-store", what, c)
		default:
			r.Outcome(fmt.Sprintf("alias:anchored=%v", want))
			r.Nontrivial(fmt.Sprintf("alias|%+v", c))
		}
		// the store itself must still hold what it held (the caller must not write into what it was handed)
		for _, k := range []int{0, 1, 2, 3, 4, 5} {
			sp := sa.span[storeRefs[k]]
			wantCert := unrelated[k]
			if k == c.Holder {
				wantCert = w.chain3.Root().Cert
			}
			if sa.all[sp[0]] != wantCert {
				r.Violation("alias/trust-store-content-overwritten-by-the-verifier:shared-array-store", fmt.Sprintf("store %s no longer holds its certificate | %s", storeRefs[k], what), c)
				break
			}
		}
	}, nil)
}

func main() {
	r := hx.New("C03")
	r.Rule = "every placement of {root, intermediate, unrelated CA, root+unrelated, leaf} into at most 2 (quick: 1) of the six named stores x every store list of length 1..3 (quick: 1..2) over the six references x scheme x format x chain shape; the other stores are listed by a second statement and a wildcard statement; one real verifier.Verify over the real on-disk trust store per case; non-trivial = cases whose list names at least one store of the required type"
	r.Rule += "; near-miss store names: each of the hand-labelled name pairs (trailing dot, letter case, extension, leading dot, dash/underscore, dotted suffix, inner dot, leading zero, long common prefix, trailing dash) replaces s1/s2 under every type x placements of {root, unrelated, empty directory} into at most 2 stores x every list of length 1 (thorough: 1..2) x scheme x format (quick: JWS) on the 3-certificate chain; options: every cell of {authenticity enforced, logged (audit), enforced with live revocation} x {no plugin, plugin with trusted-identity success / failure, revocation success, both} other than the plain one x placements into at most 1 (thorough: 2) stores x lists of length 1 x scheme x format x chain shape"
	r.Rule += "; look-alike certificates: the 3-certificate chain, its twin (same subjects, issuers, serial numbers and validity, other keys) and the chain under a re-issued root (same name and key, other serial number) as the signature's chain x placements of {the chain's root, intermediate, twin of root, twin of intermediate, re-issued root} into at most 1 (thorough: 2) stores x lists of length 1..2 x scheme x format - the oracle compares certificates byte for byte; context: {already cancelled, cancelled by the trust store when its first / second answer returns} x placements of {root, intermediate, unrelated, empty directory} into at most 1 (thorough: 2) stores x lists of length 1..2 x scheme x format on the 3-certificate chain - only 'passes only if' and 'enforced failure rejects' are judged there"
	r.Assumptions = []string{"trust stores are real directories under a scratch config root read through truststore.NewX509TrustStore (no permission faults: run as root)", "no timestamp path is exercised, so a tsa store must never be loaded",
		"the scratch file system keeps the two names of a near-miss pair apart (probed per pair; a pair it folds is skipped and recorded)",
		"verification plugins are scripted in-process plugin.Plugin values behind a scripted manager; they answer every capability they are asked"}
	w := &world{envs: map[string][]byte{}, root: filepath.Join(hx.Scratch(), "c03")}
	defer os.RemoveAll(w.root)
	w.chain3 = pki.NewChain(pki.ChainOpts{Len: 3, Prefix: "signer"})
	w.chain1 = pki.NewChain(pki.ChainOpts{Len: 1, Prefix: "selfsigned", LeafIdx: 4})
	w.unrelated = pki.NewChain(pki.ChainOpts{Len: 2, Prefix: "unrelated", CAIdx: 5, LeafIdx: 5})
	w.desc = ocispec.Descriptor{MediaType: "application/vnd.oci.image.manifest.v1+json", Digest: digest.FromString("c03"), Size: 3}
	w.lookalikes(r)
	for shape, ch := range []*pki.Chain{w.chain3, w.chain1, w.twin3, w.reissued3} {
		for s := 0; s < 2; s++ {
			for f := 0; f < 2; f++ {
				w.envs[fmt.Sprintf("%d/%d/%d", shape, s, f)] = forge.Build(forge.Spec{Format: forge.Formats[f], Chain: ch.X509(), Key: ch.Leaf().Key, Payload: forge.PayloadFor(w.desc), Scheme: []string{forge.SchemeX509, forge.SchemeSA}[s], SigningTime: time.Now().Add(-time.Hour)})
				// the same signature naming verification plugin "p"
				w.envs[fmt.Sprintf("%d/%d/%d/plugin", shape, s, f)] = forge.Build(forge.Spec{Format: forge.Formats[f], Chain: ch.X509(), Key: ch.Leaf().Key, Payload: forge.PayloadFor(w.desc), Scheme: []string{forge.SchemeX509, forge.SchemeSA}[s], SigningTime: time.Now().Add(-time.Hour),
					Ext: []forge.Attr{{Key: forge.HdrPlugin, Critical: true, Value: "p"}}})
			}
		}
	}
	if r.Replay != "" {
		var c caseT
		if err := r.LoadReplay(&c); err != nil {
			r.Infra("replay: %v", err)
		} else {
			w.run(r, c)
		}
		os.RemoveAll(w.root)
		r.Finish()
	}
	maxStores, maxList := 2, 2
	if r.Thorough() {
		maxStores, maxList = 2, 3
	}
	var lists [][]int
	var lrec func(cur []int)
	lrec = func(cur []int) {
		if len(cur) > 0 {
			lists = append(lists, append([]int(nil), cur...))
		}
		if len(cur) == maxList {
			return
		}
		for i := range storeRefs {
			lrec(append(cur, i))
		}
	}
	lrec(nil)
	var cases []caseT
	for shape := 0; shape < 2; shape++ {
		kinds := []int{kRoot, kInter, kUnrelated, kRootAndUnrelated, kEmptyDir}
		if shape == 1 {
			kinds = []int{kRoot, kUnrelated, kRootAndUnrelated, kLeaf, kEmptyDir} // root == leaf for the self-signed chain; kept for symmetry
		}
		if !r.Thorough() {
			kinds = append(kinds[:3:3], kEmptyDir) // quick: without the root+unrelated content kind
			if shape == 1 {
				kinds = []int{kRoot, kUnrelated, kLeaf, kEmptyDir}
			}
		}
		placements := placementsOf(kinds, maxStores)
		for _, pl := range placements {
			w.configDir(pl, shape, 0) // materialise sequentially
			for _, l := range lists {
				for s := 0; s < 2; s++ {
					for f := 0; f < 2; f++ {
						cases = append(cases, caseT{Placement: pl, List: l, Scheme: s, Format: f, Shape: shape})
						// histories on one verifier instance: quick = after a signature of the other scheme, thorough = after each of the four
						if r.Thorough() {
							for p := 1; p <= 4; p++ {
								cases = append(cases, caseT{Placement: pl, List: l, Scheme: s, Format: f, Shape: shape, Prior: p})
							}
						} else if f == 0 {
							cases = append(cases, caseT{Placement: pl, List: l, Scheme: s, Format: f, Shape: shape, Prior: 1 + (1-s)*2 + f})
						}
						// caller-supplied store with shared backing array: fresh, and after a verification under the other statement
						if f == 0 || r.Thorough() {
							cases = append(cases, caseT{Placement: pl, List: l, Scheme: s, Format: f, Shape: shape, Store: 1}, caseT{Placement: pl, List: l, Scheme: s, Format: f, Shape: shape, Store: 1, Prior: 5})
						}
					}
				}
			}
		}
		r.Extra[fmt.Sprintf("placements_shape%d", shape)] = len(placements)
	}
	r.Extra["lists"] = len(lists)
	// ---- near-miss store names ----
	{
		maxL, formats := 1, 1
		if r.Thorough() {
			maxL, formats = 2, 2
		}
		pls := placementsOf([]int{kRoot, kUnrelated, kEmptyDir}, 2)
		n0 := len(cases)
		pairs := 0
		for ni := 1; ni < len(namePairs); ni++ {
			np := namePairs[ni]
			probe := filepath.Join(w.root, fmt.Sprintf("probe-%d", ni))
			if err := os.MkdirAll(filepath.Join(probe, np.A), 0o755); err != nil {
				r.Infra("probe: %v", err)
				continue
			}
			if _, err := os.Stat(filepath.Join(probe, np.B)); err == nil || np.A == np.B {
				r.Outcome("recorded:scratch-file-system-folds-names:" + np.Label)
				continue
			}
			pairs++
			for _, pl := range pls {
				w.configDir(pl, 0, ni)
				for _, l := range lists {
					if len(l) > maxL {
						continue
					}
					for s := 0; s < 2; s++ {
						for f := 0; f < formats; f++ {
							cases = append(cases, caseT{Placement: pl, List: l, Scheme: s, Format: f, Names: ni})
						}
					}
				}
			}
		}
		r.Extra["near_miss_name_pairs"] = pairs
		r.Extra["near_miss_name_cases"] = len(cases) - n0
	}
	// ---- options: authenticity action x verification plugin ----
	{
		maxS := 1
		if r.Thorough() {
			maxS = 2
		}
		n0 := len(cases)
		for shape := 0; shape < 2; shape++ {
			kinds := []int{kRoot, kInter, kUnrelated, kEmptyDir}
			if shape == 1 {
				kinds = []int{kRoot, kUnrelated, kLeaf, kEmptyDir}
			}
			for _, pl := range placementsOf(kinds, maxS) {
				w.configDir(pl, shape, 0)
				for _, l := range lists {
					if len(l) > 1 {
						continue
					}
					for level := 0; level < len(levelNames); level++ {
						for plugin := 0; plugin < nPlugins; plugin++ {
							if level == 0 && plugin == plNone {
								continue // the plain cell is the main family
							}
							for s := 0; s < 2; s++ {
								for f := 0; f < 2; f++ {
									cases = append(cases, caseT{Placement: pl, List: l, Scheme: s, Format: f, Shape: shape, Level: level, Plugin: plugin})
								}
							}
						}
					}
				}
			}
		}
		r.Extra["option_cells"] = len(levelNames)*nPlugins - 1
		r.Extra["option_cases"] = len(cases) - n0
	}
	// ---- look-alike certificates (collisions by construction) and cancelled contexts ----
	{
		maxS := 1
		if r.Thorough() {
			maxS = 2
		}
		n0 := len(cases)
		for _, shape := range []int{0, 2, 3} {
			kinds := []int{kRoot, kInter, kTwinRoot, kTwinInter, kReissuedRoot}
			if shape == 2 {
				kinds = []int{kRoot, kInter, kTwinRoot, kTwinInter}
			} else if shape == 3 {
				kinds = []int{kRoot, kInter, kReissuedRoot}
			}
			for _, pl := range placementsOf(kinds, maxS) {
				if shape == 0 && !hasLookalike(pl) {
					continue // the main family
				}
				w.configDir(pl, shape, 0)
				for _, l := range lists {
					if len(l) > 2 {
						continue
					}
					for s := 0; s < 2; s++ {
						for f := 0; f < 2; f++ {
							cases = append(cases, caseT{Placement: pl, List: l, Scheme: s, Format: f, Shape: shape})
						}
					}
				}
			}
		}
		r.Extra["look_alike_cases"] = len(cases) - n0
		n0 = len(cases)
		for _, pl := range placementsOf([]int{kRoot, kInter, kUnrelated, kEmptyDir}, maxS) {
			w.configDir(pl, 0, 0)
			for _, l := range lists {
				if len(l) > 2 {
					continue
				}
				for s := 0; s < 2; s++ {
					for f := 0; f < 2; f++ {
						for cn := 1; cn < len(cancelNames); cn++ {
							cases = append(cases, caseT{Placement: pl, List: l, Scheme: s, Format: f, Cancel: cn})
						}
					}
				}
			}
		}
		r.Extra["cancelled_context_cases"] = len(cases) - n0
	}
	r.Extra["cases"] = len(cases)
	r.Parallel(len(cases), func(i int) {
		w.run(r, cases[i])
		if i%7919 == 0 {
			r.Sample(cases[i].String())
		}
	}, nil)
	w.aliasFamily(r)
	os.RemoveAll(w.root)
	r.Extra["plugin_controls"] = pluginControls.Load()
	r.Extra["plugin_controls_held"] = pluginControlsHeld.Load()
	r.Extra["cases_in_which_the_plugin_was_executed"] = pluginExecuted.Load()
	if pluginControls.Load() > 0 && pluginControlsHeld.Load() == 0 {
		r.Infra("plugin dimension: none of the %d anchored signatures with an agreeing plugin verified - the cells cannot be judged", pluginControls.Load())
	}
	if pluginControls.Load() > 0 && pluginExecuted.Load() == 0 {
		r.Infra("plugin dimension: the scripted plugin was never executed - the cells are vacuous")
	}
	r.Finish()
}
