// C03 — trust comes only from the stores the applicable policy names, typed by scheme.
//
// E3: placements of certificates into the six named stores (3 types x 2 names)
// x every trust-store list a statement can carry (length 1..3 over the six
// references, duplicates included) x a second statement with another scope that
// lists the other stores x scheme x format x chain shape. Real on-disk trust
// store behind a logging decorator; set-membership oracle + call-log clauses.
package main

import (
	"context"
	"crypto/x509"
	"fmt"
	"os"
	"path/filepath"
	"strings"
	"time"

	"github.com/notaryproject/notation-go"
	"github.com/notaryproject/notation-go/dir"
	"github.com/notaryproject/notation-go/verifier"
	"github.com/notaryproject/notation-go/verifier/trustpolicy"
	"github.com/notaryproject/notation-go/verifier/truststore"
	"github.com/notaryproject/notation-go/zzverif/lib/forge"
	"github.com/notaryproject/notation-go/zzverif/lib/hx"
	"github.com/notaryproject/notation-go/zzverif/lib/mocks"
	"github.com/notaryproject/notation-go/zzverif/lib/pki"
	"github.com/notaryproject/notation-go/zzverif/lib/vt"
	"github.com/opencontainers/go-digest"
	ocispec "github.com/opencontainers/image-spec/specs-go/v1"
)

var storeRefs = []string{"ca:s1", "ca:s2", "signingAuthority:s1", "signingAuthority:s2", "tsa:s1", "tsa:s2"}

// content kinds of a store
const (
	absent = iota
	kRoot
	kInter
	kUnrelated
	kRootAndUnrelated
	kLeaf     // only meaningful for the self-signed single-certificate chain
	kEmptyDir // the store directory exists but holds no file: it cannot be loaded
	nKinds
)

var kindNames = []string{"absent", "root", "intermediate", "unrelated", "root+unrelated", "leaf", "empty-directory"}

type caseT struct {
	Placement []int `json:"placement"` // per store reference: content kind
	List      []int `json:"list"`      // indices into storeRefs
	Scheme    int   `json:"scheme"`
	Format    int   `json:"format"`
	Shape     int   `json:"shape"` // 0: leaf<-inter<-root, 1: self-signed leaf
	// Prior > 0: the same verifier instance first verified another signature (scheme/format combination
	// Prior-1 of the same chain) - the judged verification must behave as on a fresh verifier.
	Prior int `json:"prior"`
	// Store 1: instead of the on-disk trust store a caller-supplied X509TrustStore whose answers are
	// sub-slices of ONE backing array (in store-reference order, each with spare capacity reaching into the
	// next store's certificates) - legal for an implementation, fatal for a caller that appends to what it got.
	// Prior 5 (with Store 1): the same verifier first verified the signature under the OTHER statement
	// (reference reg.io/team), which lists the complementary stores.
	Store int `json:"store"`
}

func (c caseT) String() string {
	var pl []string
	for i, k := range c.Placement {
		if k != absent {
			pl = append(pl, storeRefs[i]+"="+kindNames[k])
		}
	}
	var l []string
	for _, i := range c.List {
		l = append(l, storeRefs[i])
	}
	prior := "fresh verifier"
	if c.Prior > 0 {
		if c.Prior == 5 {
			prior = "same verifier verified the signature under the other statement before"
		} else {
			prior = fmt.Sprintf("same verifier verified a %s/%s signature before", []string{"x509", "signingAuthority"}[(c.Prior-1)/2], []string{"jws", "cose"}[(c.Prior-1)%2])
		}
	}
	if c.Store == 1 {
		prior += ", caller-supplied store answering with sub-slices of one array"
	}
	return fmt.Sprintf("stores{%s} list[%s] scheme=%s format=%s shape=%d (%s)", strings.Join(pl, ","), strings.Join(l, ","), []string{"x509", "signingAuthority"}[c.Scheme], []string{"jws", "cose"}[c.Format], c.Shape, prior)
}

type world struct {
	chain3, chain1, unrelated *pki.Chain
	desc                      ocispec.Descriptor
	envs                      map[string][]byte
	root                      string
}

func (w *world) certsOf(kind, shape int) []*x509.Certificate {
	ch := w.chain3
	if shape == 1 {
		ch = w.chain1
	}
	switch kind {
	case kRoot:
		return []*x509.Certificate{ch.Root().Cert}
	case kInter:
		if shape == 1 {
			return nil
		}
		return []*x509.Certificate{ch.Certs[1].Cert}
	case kUnrelated:
		return []*x509.Certificate{w.unrelated.Root().Cert}
	case kRootAndUnrelated:
		return []*x509.Certificate{w.unrelated.Root().Cert, ch.Root().Cert}
	case kLeaf:
		if shape == 0 {
			return nil
		}
		return []*x509.Certificate{ch.Leaf().Cert}
	}
	return nil
}

// configDir materialises a placement once; directories are read-only afterwards.
func (w *world) configDir(pl []int, shape int) string {
	name := fmt.Sprintf("p%d-%v", shape, pl)
	name = strings.NewReplacer(" ", "", "[", "", "]", "").Replace(name)
	d := filepath.Join(w.root, name)
	if _, err := os.Stat(d); err == nil {
		return d
	}
	for i, k := range pl {
		certs := w.certsOf(k, shape)
		tn := strings.SplitN(storeRefs[i], ":", 2)
		if k == kEmptyDir {
			if err := os.MkdirAll(filepath.Join(d, "truststore", "x509", tn[0], tn[1]), 0o755); err != nil {
				panic(err)
			}
			continue
		}
		if len(certs) == 0 {
			continue
		}
		sd := filepath.Join(d, "truststore", "x509", tn[0], tn[1])
		if err := os.MkdirAll(sd, 0o755); err != nil {
			panic(err)
		}
		for j, c := range certs {
			if err := os.WriteFile(filepath.Join(sd, fmt.Sprintf("c%d.pem", j)), pki.PEM(c), 0o644); err != nil {
				panic(err)
			}
		}
	}
	_ = os.MkdirAll(d, 0o755)
	return d
}

var ctx = context.Background()

// sharedArrayStore answers with sub-slices of one backing array.
type sharedArrayStore struct {
	all  []*x509.Certificate
	span map[string][2]int
}

func (s *sharedArrayStore) GetCertificates(ctx context.Context, t truststore.Type, name string) ([]*x509.Certificate, error) {
	sp, ok := s.span[string(t)+":"+name]
	if !ok || sp[0] == sp[1] {
		return nil, truststore.TrustStoreError{Msg: "mock: the trust store does not exist or is empty"}
	}
	return s.all[sp[0]:sp[1]], nil // capacity reaches to the end of the shared array
}

func (w *world) run(r *hx.Run, c caseT) {
	cfg := w.configDir(c.Placement, c.Shape)
	var inner truststore.X509TrustStore = truststore.NewX509TrustStore(dir.NewSysFS(cfg))
	if c.Store == 1 {
		sa := &sharedArrayStore{span: map[string][2]int{}}
		for i, k := range c.Placement {
			from := len(sa.all)
			sa.all = append(sa.all, w.certsOf(k, c.Shape)...)
			sa.span[storeRefs[i]] = [2]int{from, len(sa.all)}
		}
		inner = sa
	}
	ls := &mocks.LoggingStore{Inner: inner}
	var list, others []string
	inList := map[int]bool{}
	for _, i := range c.List {
		list = append(list, storeRefs[i])
		inList[i] = true
	}
	for i, s := range storeRefs {
		if !inList[i] {
			others = append(others, s)
		}
	}
	// only authenticity is enforced, so the overall verdict follows the authenticity validation alone
	// (a listed tsa store switches timestamp verification on, which fails for lack of a countersignature: logged)
	onlyAuth := trustpolicy.SignatureVerification{VerificationLevel: "strict", Override: map[trustpolicy.ValidationType]trustpolicy.ValidationAction{
		trustpolicy.TypeAuthenticTimestamp: trustpolicy.ActionLog, trustpolicy.TypeExpiry: trustpolicy.ActionLog, trustpolicy.TypeRevocation: trustpolicy.ActionSkip}}
	// the artifact lives in reg.io/team/app; the other statement is scoped to the enclosing and to a nested
	// repository path (never the artifact's own), and is placed before or after the applicable one
	applicable := trustpolicy.OCITrustPolicy{Name: "applicable", SignatureVerification: onlyAuth, TrustStores: list, TrustedIdentities: []string{"*"}, RegistryScopes: []string{"reg.io/team/app"}}
	doc := &trustpolicy.OCIDocument{Version: "1.0", TrustPolicies: []trustpolicy.OCITrustPolicy{applicable}}
	if len(others) > 0 {
		other := trustpolicy.OCITrustPolicy{Name: "other", SignatureVerification: trustpolicy.SignatureVerification{VerificationLevel: "strict"}, TrustStores: others, TrustedIdentities: []string{"*"}, RegistryScopes: []string{"reg.io/team", "reg.io/team/app/sub", "reg.io/team/ap"}}
		wild := trustpolicy.OCITrustPolicy{Name: "wild", SignatureVerification: trustpolicy.SignatureVerification{VerificationLevel: "strict"}, TrustStores: others, TrustedIdentities: []string{"*"}, RegistryScopes: []string{"*"}}
		if (len(c.List)+c.Format)%2 == 0 {
			doc.TrustPolicies = []trustpolicy.OCITrustPolicy{applicable, other, wild}
		} else {
			doc.TrustPolicies = []trustpolicy.OCITrustPolicy{wild, other, applicable}
		}
	}
	ok := mocks.AllOK()
	v, err := verifier.NewVerifierWithOptions(ls, verifier.VerifierOptions{OCITrustPolicy: doc, RevocationCodeSigningValidator: ok})
	if err != nil {
		r.Infra("verifier: %v (%s)", err, c)
		return
	}
	env := w.envs[fmt.Sprintf("%d/%d/%d", c.Shape, c.Scheme, c.Format)]
	if c.Prior == 5 {
		r.Eval(1)
		_, _ = v.Verify(ctx, w.desc, env, notation.VerifierVerifyOptions{ArtifactReference: "reg.io/team@" + w.desc.Digest.String(), SignatureMediaType: forge.Formats[c.Format]})
		ls.Calls = nil
	} else if c.Prior > 0 {
		ps, pf := (c.Prior-1)/2, (c.Prior-1)%2
		r.Eval(1)
		_, _ = v.Verify(ctx, w.desc, w.envs[fmt.Sprintf("%d/%d/%d", c.Shape, ps, pf)], notation.VerifierVerifyOptions{ArtifactReference: "reg.io/team/app@" + w.desc.Digest.String(), SignatureMediaType: forge.Formats[pf]})
		ls.Calls = nil // the call log of the judged verification only
	}
	r.Eval(1)
	outcome, verr := v.Verify(ctx, w.desc, env, notation.VerifierVerifyOptions{ArtifactReference: "reg.io/team/app@" + w.desc.Digest.String(), SignatureMediaType: forge.Formats[c.Format]})
	bad := func(key, what string) {
		if c.Prior > 0 {
			key += ":after-earlier-verification-on-same-verifier"
		}
		if c.Store == 1 {
			key += ":shared-array-store"
		}
		r.Violation(key, what+" | "+c.String(), c)
	}
	if outcome == nil {
		bad("nil-outcome", fmt.Sprint(verr))
		return
	}
	rs := vt.ResultOf(outcome, trustpolicy.TypeAuthenticity)
	if len(rs) != 1 {
		bad("authenticity-result-count", fmt.Sprintf("%d results", len(rs)))
		return
	}
	// ---- reference ----
	reqType := []string{"ca", "signingAuthority"}[c.Scheme]
	var L []int // distinct listed stores of the required type, in list order
	seen := map[int]bool{}
	for _, i := range c.List {
		if strings.HasPrefix(storeRefs[i], reqType+":") && !seen[i] {
			seen[i] = true
			L = append(L, i)
		}
	}
	chain := w.chain3
	if c.Shape == 1 {
		chain = w.chain1
	}
	allLoad := true
	anchored := false
	firstFail := -1
	for pos, i := range L {
		certs := w.certsOf(c.Placement[i], c.Shape)
		if len(certs) == 0 {
			allLoad = false
			if firstFail < 0 {
				firstFail = pos
			}
			continue
		}
		for _, tc := range certs {
			for _, cc := range chain.X509() {
				if string(tc.Raw) == string(cc.Raw) {
					anchored = true
				}
			}
		}
	}
	want := len(L) > 0 && allLoad && anchored
	got := rs[0].Error == nil
	class := "fails"
	if want {
		class = "passes"
	}
	why := ""
	switch {
	case len(L) == 0:
		why = "no-listed-store-of-required-type"
	case !allLoad:
		why = "listed-store-cannot-be-loaded"
	case !anchored:
		why = "no-chain-certificate-in-listed-stores"
	}
	if got && !want {
		bad("authenticity-passed/"+why, "authenticity passed")
	}
	if !got && want {
		bad("authenticity-failed-although-anchored", fmt.Sprintf("authenticity failed: %v", rs[0].Error))
	}
	if want && verr != nil {
		bad("verification-failed-although-anchored", verr.Error())
	}
	if !want && verr == nil {
		bad("verification-succeeded/"+why, "strict level, authenticity must fail")
	}
	// ---- call log ----
	var wantSeq []string
	for _, i := range L {
		wantSeq = append(wantSeq, storeRefs[i])
	}
	var gotSeq []string
	for _, cl := range ls.Calls {
		gotSeq = append(gotSeq, string(cl.Type)+":"+cl.Name)
	}
	for gi, g := range gotSeq {
		if !strings.HasPrefix(g, reqType+":") {
			bad("calls/store-of-other-type-loaded:"+strings.SplitN(g, ":", 2)[0], "loaded "+g)
			continue
		}
		idx := -1
		for i, s := range storeRefs {
			if s == g {
				idx = i
			}
		}
		if idx < 0 || !inList[idx] {
			bad("calls/unlisted-store-loaded", "loaded "+g+" which the applicable statement does not list")
			continue
		}
		_ = gi
	}
	// The statement fixes WHICH stores may be consulted and that an unloadable listed store must not be ignored; it
	// does not fix the order, the number of times a listed store is asked, or that stores are asked at all once the
	// verdict is already a failure. Those are recorded (evidence), not judged.
	asked := map[string]bool{}
	for _, g := range gotSeq {
		asked[g] = true
	}
	if strings.Join(gotSeq, ",") != strings.Join(wantSeq[:min(len(gotSeq), len(wantSeq))], ",") {
		r.Outcome("recorded:call-order-or-repetition-differs-from-list-order")
	}
	if want {
		// authenticity passed: every listed store of the required type must have been asked, otherwise the verdict
		// cannot depend on whether it loads
		for _, wstore := range wantSeq {
			if !asked[wstore] {
				bad("calls/listed-store-not-loaded", fmt.Sprintf("call log %v, authenticity passed without asking %s", gotSeq, wstore))
				break
			}
		}
	}
	r.Outcome(class + ":" + why)
	if len(L) > 0 {
		r.Nontrivial(fmt.Sprintf("%v|%v|%d|%d|%d", c.Placement, c.List, c.Scheme, c.Format, c.Shape))
	}
}

// aliasFamily: a caller-supplied trust store that answers with sub-slices of ONE backing array (every store
// holds one certificate; the slice of a store has spare capacity reaching into the following stores). One
// verifier first verifies under a statement listing an ordered pair of stores, then under a statement listing a
// single store: the second verdict must follow the content of that single store only. All root-holder
// positions x all ordered pairs x all single stores x both schemes for either call x both array orders.
type aliasCase struct {
	Kind    string `json:"kind"`
	Holder  int    `json:"root_holder"`
	PriorA  int    `json:"prior_first_store"`
	PriorB  int    `json:"prior_second_store"`
	PriorSc int    `json:"prior_scheme"`
	Judged  int    `json:"judged_store"`
	Scheme  int    `json:"judged_scheme"`
	Rev     bool   `json:"array_reversed"`
}

func (w *world) aliasFamily(r *hx.Run) {
	unrelated := make([]*x509.Certificate, len(storeRefs))
	for i := range unrelated {
		unrelated[i] = pki.Make(pki.Tmpl{Subject: pki.Name(fmt.Sprintf("alias unrelated %d", i)), CA: true, PathLen: -1}, pki.Key(pki.EC256, 120+i), nil).Cert
	}
	var cases []aliasCase
	for h := range storeRefs {
		for a := range storeRefs {
			for b := range storeRefs {
				if a == b {
					continue
				}
				for ps := 0; ps < 2; ps++ {
					for j := range storeRefs {
						for sc := 0; sc < 2; sc++ {
							for _, rev := range []bool{false, true} {
								if !r.Thorough() && (h+a+b+j+ps+sc)%2 == 1 && rev {
									continue
								}
								cases = append(cases, aliasCase{"alias", h, a, b, ps, j, sc, rev})
							}
						}
					}
				}
			}
		}
	}
	r.Extra["alias_cases"] = len(cases)
	onlyAuth := trustpolicy.SignatureVerification{VerificationLevel: "strict", Override: map[trustpolicy.ValidationType]trustpolicy.ValidationAction{
		trustpolicy.TypeAuthenticTimestamp: trustpolicy.ActionLog, trustpolicy.TypeExpiry: trustpolicy.ActionLog, trustpolicy.TypeRevocation: trustpolicy.ActionSkip}}
	r.Parallel(len(cases), func(i int) {
		c := cases[i]
		sa := &sharedArrayStore{span: map[string][2]int{}}
		order := []int{0, 1, 2, 3, 4, 5}
		if c.Rev {
			order = []int{5, 4, 3, 2, 1, 0}
		}
		for _, k := range order {
			cert := unrelated[k]
			if k == c.Holder {
				cert = w.chain3.Root().Cert
			}
			sa.span[storeRefs[k]] = [2]int{len(sa.all), len(sa.all) + 1}
			sa.all = append(sa.all, cert)
		}
		doc := &trustpolicy.OCIDocument{Version: "1.0", TrustPolicies: []trustpolicy.OCITrustPolicy{
			{Name: "pair", SignatureVerification: onlyAuth, TrustStores: []string{storeRefs[c.PriorA], storeRefs[c.PriorB]}, TrustedIdentities: []string{"*"}, RegistryScopes: []string{"reg.io/team"}},
			{Name: "single", SignatureVerification: onlyAuth, TrustStores: []string{storeRefs[c.Judged]}, TrustedIdentities: []string{"*"}, RegistryScopes: []string{"reg.io/team/app"}},
		}}
		v, err := verifier.NewVerifierWithOptions(sa, verifier.VerifierOptions{OCITrustPolicy: doc, RevocationCodeSigningValidator: mocks.AllOK()})
		if err != nil {
			r.Infra("alias verifier: %v", err)
			return
		}
		r.Eval(2)
		_, _ = v.Verify(ctx, w.desc, w.envs[fmt.Sprintf("0/%d/0", c.PriorSc)], notation.VerifierVerifyOptions{ArtifactReference: "reg.io/team@" + w.desc.Digest.String(), SignatureMediaType: forge.JWS})
		_, verr := v.Verify(ctx, w.desc, w.envs[fmt.Sprintf("0/%d/0", c.Scheme)], notation.VerifierVerifyOptions{ArtifactReference: "reg.io/team/app@" + w.desc.Digest.String(), SignatureMediaType: forge.JWS})
		req := []string{"ca", "signingAuthority"}[c.Scheme]
		want := strings.HasPrefix(storeRefs[c.Judged], req+":") && c.Judged == c.Holder
		what := fmt.Sprintf("root in %s; first verification (%s) under [%s,%s], then (%s) under [%s]; array reversed=%v: err=%v", storeRefs[c.Holder], []string{"x509", "signingAuthority"}[c.PriorSc], storeRefs[c.PriorA], storeRefs[c.PriorB], []string{"x509", "signingAuthority"}[c.Scheme], storeRefs[c.Judged], c.Rev, verr)
		switch {
		case verr == nil && !want:
			r.Violation("alias/verification-succeeded-without-anchor-in-the-listed-store:shared-array-store", what, c)
		case verr != nil && want:
			r.Violation("alias/verification-failed-although-anchored:shared-array-store", what, c)
		default:
			r.Outcome(fmt.Sprintf("alias:anchored=%v", want))
			r.Nontrivial(fmt.Sprintf("alias|%+v", c))
		}
		// the store itself must still hold what it held (the caller must not write into what it was handed)
		for _, k := range []int{0, 1, 2, 3, 4, 5} {
			sp := sa.span[storeRefs[k]]
			wantCert := unrelated[k]
			if k == c.Holder {
				wantCert = w.chain3.Root().Cert
			}
			if sa.all[sp[0]] != wantCert {
				r.Violation("alias/trust-store-content-overwritten-by-the-verifier:shared-array-store", fmt.Sprintf("store %s no longer holds its certificate | %s", storeRefs[k], what), c)
				break
			}
		}
	}, nil)
}

func main() {
	r := hx.New("C03")
	r.Rule = "every placement of {root, intermediate, unrelated CA, root+unrelated, leaf} into at most 2 (quick: 1) of the six named stores x every store list of length 1..3 (quick: 1..2) over the six references x scheme x format x chain shape; the other stores are listed by a second statement and a wildcard statement; one real verifier.Verify over the real on-disk trust store per case; non-trivial = cases whose list names at least one store of the required type"
	r.Assumptions = []string{"trust stores are real directories under a scratch config root read through truststore.NewX509TrustStore (no permission faults: run as root)", "no timestamp path is exercised, so a tsa store must never be loaded"}
	w := &world{envs: map[string][]byte{}, root: filepath.Join(hx.Scratch(), "c03")}
	defer os.RemoveAll(w.root)
	w.chain3 = pki.NewChain(pki.ChainOpts{Len: 3, Prefix: "signer"})
	w.chain1 = pki.NewChain(pki.ChainOpts{Len: 1, Prefix: "selfsigned", LeafIdx: 4})
	w.unrelated = pki.NewChain(pki.ChainOpts{Len: 2, Prefix: "unrelated", CAIdx: 5, LeafIdx: 5})
	w.desc = ocispec.Descriptor{MediaType: "application/vnd.oci.image.manifest.v1+json", Digest: digest.FromString("c03"), Size: 3}
	for shape, ch := range []*pki.Chain{w.chain3, w.chain1} {
		for s := 0; s < 2; s++ {
			for f := 0; f < 2; f++ {
				w.envs[fmt.Sprintf("%d/%d/%d", shape, s, f)] = forge.Build(forge.Spec{Format: forge.Formats[f], Chain: ch.X509(), Key: ch.Leaf().Key, Payload: forge.PayloadFor(w.desc), Scheme: []string{forge.SchemeX509, forge.SchemeSA}[s], SigningTime: time.Now().Add(-time.Hour)})
			}
		}
	}
	if r.Replay != "" {
		var c caseT
		if err := r.LoadReplay(&c); err != nil {
			r.Infra("replay: %v", err)
		} else {
			w.run(r, c)
		}
		os.RemoveAll(w.root)
		r.Finish()
	}
	maxStores, maxList := 2, 2
	if r.Thorough() {
		maxStores, maxList = 2, 3
	}
	var lists [][]int
	var lrec func(cur []int)
	lrec = func(cur []int) {
		if len(cur) > 0 {
			lists = append(lists, append([]int(nil), cur...))
		}
		if len(cur) == maxList {
			return
		}
		for i := range storeRefs {
			lrec(append(cur, i))
		}
	}
	lrec(nil)
	var cases []caseT
	for shape := 0; shape < 2; shape++ {
		kinds := []int{kRoot, kInter, kUnrelated, kRootAndUnrelated, kEmptyDir}
		if shape == 1 {
			kinds = []int{kRoot, kUnrelated, kRootAndUnrelated, kLeaf, kEmptyDir} // root == leaf for the self-signed chain; kept for symmetry
		}
		if !r.Thorough() {
			kinds = append(kinds[:3:3], kEmptyDir) // quick: without the root+unrelated content kind
			if shape == 1 {
				kinds = []int{kRoot, kUnrelated, kLeaf, kEmptyDir}
			}
		}
		var placements [][]int
		var prec func(i int, cur []int, used int)
		prec = func(i int, cur []int, used int) {
			if i == len(storeRefs) {
				placements = append(placements, append([]int(nil), cur...))
				return
			}
			prec(i+1, append(cur, absent), used)
			if used < maxStores {
				for _, k := range kinds {
					prec(i+1, append(cur, k), used+1)
				}
			}
		}
		prec(0, nil, 0)
		for _, pl := range placements {
			w.configDir(pl, shape) // materialise sequentially
			for _, l := range lists {
				for s := 0; s < 2; s++ {
					for f := 0; f < 2; f++ {
						cases = append(cases, caseT{Placement: pl, List: l, Scheme: s, Format: f, Shape: shape})
						// histories on one verifier instance: quick = after a signature of the other scheme, thorough = after each of the four
						if r.Thorough() {
							for p := 1; p <= 4; p++ {
								cases = append(cases, caseT{Placement: pl, List: l, Scheme: s, Format: f, Shape: shape, Prior: p})
							}
						} else if f == 0 {
							cases = append(cases, caseT{Placement: pl, List: l, Scheme: s, Format: f, Shape: shape, Prior: 1 + (1-s)*2 + f})
						}
						// caller-supplied store with shared backing array: fresh, and after a verification under the other statement
						if f == 0 || r.Thorough() {
							cases = append(cases, caseT{Placement: pl, List: l, Scheme: s, Format: f, Shape: shape, Store: 1}, caseT{Placement: pl, List: l, Scheme: s, Format: f, Shape: shape, Store: 1, Prior: 5})
						}
					}
				}
			}
		}
		r.Extra[fmt.Sprintf("placements_shape%d", shape)] = len(placements)
	}
	r.Extra["lists"] = len(lists)
	r.Extra["cases"] = len(cases)
	r.Parallel(len(cases), func(i int) {
		w.run(r, cases[i])
		if i%7919 == 0 {
			r.Sample(cases[i].String())
		}
	}, nil)
	w.aliasFamily(r)
	os.RemoveAll(w.root)
	r.Finish()
}
