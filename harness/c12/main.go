// C12 — no untrusted input or unusual configuration crashes the library.
//
// E3, the model-checking reading of "arbitrary input":
//
//	(a) the complete configuration matrix: verifier construction x plugin
//	    manager x revocation option x level x statement placement x entry point
//	    x signature x plugin demand x reference;
//	(b) the exhaustive Hamming-1 byte neighbourhood (every byte x {^1, ^0x80, =0},
//	    every truncation) and the one-node structural neighbourhood (every JSON
//	    node x 7 replacement values, numeric extremes on numbers, duplicate and
//	    case-variant member names, every truncation) of valid inputs: JWS / COSE
//	    envelopes, trust policy files, signingkeys.json, config.json, a CRL cache
//	    entry, the manifests and index.json of an OCI layout, plugin stdout / stderr.
//
// Every case runs in a worker subprocess (this binary re-executed with
// --worker) under RLIMIT_AS, single-threaded, each exported call inside
// recover() with the runtime's TotalAlloc delta measured around it.
// Oracle: no panic escapes, the worker survives, <= 256 MiB allocated per call
// for inputs <= 64 KiB, and (outcome, error) consistency of the verification
// entry points.
package main

import (
	"bufio"
	"bytes"
	"encoding/json"
	"fmt"
	"os"
	"os/exec"
	"path/filepath"
	"runtime"
	"runtime/debug"
	"sort"
	"strconv"
	"strings"
	"sync"
	"sync/atomic"
	"syscall"
	"time"

	"github.com/notaryproject/notation-go/zzverif/lib/hx"
)

const (
	workerASLimit = 8 << 30 // RLIMIT_AS of a worker
	hangTimeout   = 300 * time.Second // no case takes more than a few seconds even on a loaded machine; quick is capped by its own deadline long before
)

// replayCase is what a violation stores: the case (mutated bytes / tuple) and the fixture it ran against.
type replayCase struct {
	Case    Case     `json:"case"`
	Fixture *Fixture `json:"fixture"`
}

// ---------------------------------------------------------------------------
// worker side

func workerMain(args []string) {
	if len(args) < 4 {
		fmt.Fprintln(os.Stderr, "usage: --worker <fixture> <shard> <scratch> <skip>")
		os.Exit(3)
	}
	lim := syscall.Rlimit{Cur: workerASLimit, Max: workerASLimit}
	if err := syscall.Setrlimit(syscall.RLIMIT_AS, &lim); err != nil {
		fmt.Fprintf(os.Stderr, "setrlimit: %v\n", err)
		os.Exit(3)
	}
	debug.SetGCPercent(400)
	skip, _ := strconv.Atoi(args[3])
	isolated := len(args) > 4 && args[4] == "isolated"
	fb, err := os.ReadFile(args[0])
	if err != nil {
		fmt.Fprintf(os.Stderr, "fixture: %v\n", err)
		os.Exit(3)
	}
	var fx Fixture
	if err := json.Unmarshal(fb, &fx); err != nil {
		fmt.Fprintf(os.Stderr, "fixture: %v\n", err)
		os.Exit(3)
	}
	x, err := newWctx(&fx, args[2])
	if err != nil {
		fmt.Fprintf(os.Stderr, "worker scratch: %v\n", err)
		os.Exit(3)
	}
	f, err := os.Open(args[1])
	if err != nil {
		fmt.Fprintf(os.Stderr, "shard: %v\n", err)
		os.Exit(3)
	}
	defer f.Close()
	in := bufio.NewReaderSize(f, 1<<20)
	out := os.Stdout
	for n := 0; ; n++ {
		line, err := in.ReadBytes('\n')
		if len(line) == 0 && err != nil {
			break
		}
		if n < skip {
			continue
		}
		var c Case
		if err := json.Unmarshal(line, &c); err != nil {
			fmt.Fprintf(out, "E -1 bad shard line %d: %v\n", n, err)
			continue
		}
		fmt.Fprintf(out, "B %d\n", c.I)
		res, rerr := x.runSettled(&c, isolated)
		if rerr != nil {
			fmt.Fprintf(out, "E %d %s\n", c.I, strings.ReplaceAll(rerr.Error(), "\n", " "))
			continue
		}
		b, _ := json.Marshal(res)
		out.Write(append(append([]byte("R "), b...), '\n'))
	}
	fmt.Fprintln(out, "DONE")
}

// ---------------------------------------------------------------------------
// main side

type pool struct {
	r       *hx.Run
	fx      *Fixture
	fxPath  string
	cases   []Case
	results []*Result
	mu      sync.Mutex
	deaths  int
	capped  bool
	workers int
	isoDeadline time.Time
}

type tail struct {
	mu sync.Mutex
	b  []byte
}

func (t *tail) Write(p []byte) (int, error) {
	t.mu.Lock()
	t.b = append(t.b, p...)
	if len(t.b) > 16384 {
		t.b = t.b[len(t.b)-16384:]
	}
	t.mu.Unlock()
	return len(p), nil
}

func (t *tail) String() string { t.mu.Lock(); defer t.mu.Unlock(); return string(t.b) }

// workerEnd is how one worker process ended.
type workerEnd struct {
	finished  bool // printed DONE and exited 0
	current   int  // case in progress when it ended, -1 none
	completed []int
	results   map[int]*Result
	hung      bool
	expired   bool
	stderr    string
	werr      error
}

func (w *workerEnd) died() bool { return !w.finished || w.werr != nil }

// external: killed without a word from the Go runtime (the machine's OOM killer, an operator)
func (w *workerEnd) external() bool {
	st := w.stderr
	return !w.hung && !strings.Contains(st, "fatal error") && !strings.Contains(st, "panic: ") && !strings.Contains(st, "runtime:") && !strings.Contains(st, "cannot allocate memory")
}

// runWorker starts one worker process over a shard file and collects what it reports.
func (p *pool) runWorker(tag, shardPath string, skip int, isolated bool) *workerEnd {
	we := &workerEnd{current: -1, results: map[int]*Result{}}
	isExpired := p.r.Expired
	if isolated {
		// re-examining a suspect alone is only needed when something was flagged; it has an allowance of its own
		// beyond the run's deadline, so that a flagged case is neither dropped nor reported unconfirmed
		isExpired = p.isoExpired
	}
	scratch := filepath.Join(hx.Scratch(), tag)
	_ = os.MkdirAll(scratch, 0o755)
	defer os.RemoveAll(scratch)
	exe, _ := os.Executable()
	args := []string{"--worker", p.fxPath, shardPath, scratch, strconv.Itoa(skip)}
	if isolated {
		args = append(args, "isolated")
	}
	cmd := exec.Command(exe, args...)
	cmd.Env = append(os.Environ(), "GOMAXPROCS=2", "VERIF_SCRATCH="+scratch)
	stderr := &tail{}
	cmd.Stderr = stderr
	stdout, err := cmd.StdoutPipe()
	if err != nil {
		p.r.Infra("worker pipe: %v", err)
		we.finished = true
		return we
	}
	if err := cmd.Start(); err != nil {
		p.r.Infra("worker start: %v", err)
		we.finished = true
		return we
	}
	var lastLine sync.Mutex
	last := time.Now()
	stop := make(chan struct{})
	var hung, expired atomic.Bool
	go func() {
		t := time.NewTicker(2 * time.Second)
		defer t.Stop()
		for {
			select {
			case <-stop:
				return
			case <-t.C:
				lastLine.Lock()
				idle := time.Since(last)
				lastLine.Unlock()
				if isExpired() {
					expired.Store(true)
					_ = cmd.Process.Kill()
					return
				}
				if idle > hangTimeout {
					hung.Store(true)
					_ = cmd.Process.Kill()
					return
				}
			}
		}
	}()
	sc := bufio.NewScanner(stdout)
	sc.Buffer(make([]byte, 1<<20), 64<<20)
	for sc.Scan() {
		if isExpired() {
			expired.Store(true)
			_ = cmd.Process.Kill()
			break
		}
		lastLine.Lock()
		last = time.Now()
		lastLine.Unlock()
		line := sc.Text()
		switch {
		case strings.HasPrefix(line, "B "):
			we.current, _ = strconv.Atoi(line[2:])
		case strings.HasPrefix(line, "R "):
			var res Result
			if err := json.Unmarshal([]byte(line[2:]), &res); err != nil {
				p.r.Infra("worker result: %v", err)
			} else {
				we.results[res.I] = &res
				we.completed = append(we.completed, res.I)
			}
			we.current = -1
		case strings.HasPrefix(line, "E "):
			p.r.Infra("worker: %s", line[2:])
			if we.current >= 0 {
				we.completed = append(we.completed, we.current)
			}
			we.current = -1
		case line == "DONE":
			we.finished = true
		}
	}
	we.werr = cmd.Wait()
	close(stop)
	we.hung, we.expired, we.stderr = hung.Load(), expired.Load(), stderr.String()
	return we
}

var isoSeq atomic.Int64

// isoExpired: the allowance of isolated re-runs ends isoAllowance (stretched under load) after the run's own deadline.
func (p *pool) isoExpired() bool {
	return time.Now().After(p.isoDeadline)
}

// isolate runs exactly one case in a fresh worker process that waits for stray goroutines before it reports.
func (p *pool) isolate(i int) *workerEnd {
	n := isoSeq.Add(1)
	path := filepath.Join(hx.Scratch(), fmt.Sprintf("iso-%d.jsonl", n))
	c := p.cases[i]
	b, err := json.Marshal(&c)
	if err != nil {
		p.r.Infra("case marshal: %v", err)
		return &workerEnd{finished: true, current: -1, results: map[int]*Result{}}
	}
	_ = os.WriteFile(path, append(b, '\n'), 0o644)
	defer os.Remove(path)
	return p.runWorker(fmt.Sprintf("iso-%d", n), path, 0, true)
}

// deathResult turns the death of a worker that ran ONLY case i into the case's result.
func (p *pool) deathResult(i int, we *workerEnd) *Result {
	c := &p.cases[i]
	c.materialise(p.fx)
	st := we.stderr
	res := &Result{I: i, Evals: 1, Isolated: true}
	switch {
	case we.hung:
		res.viol("no-return/hang:"+c.Family+":"+c.Kind, "worker made no progress for %v inside case: %s", hangTimeout, c.describe())
		res.class("%s:%s:worker-hung", c.Family, c.Kind)
	case strings.Contains(st, "out of memory") || strings.Contains(st, "cannot allocate memory") || strings.Contains(st, "runtime: cannot map pages"):
		res.viol(allocKey(c), "worker (RLIMIT_AS %d GiB) was killed by an allocation it could not satisfy (%v) | case: %s | %s", workerASLimit>>30, we.werr, c.describe(), lastLines(fatalPart(st), 8))
		res.class("%s:%s:worker-out-of-memory", c.Family, c.Kind)
	case strings.Contains(st, "\npanic: ") || strings.HasPrefix(st, "panic: "):
		// a panic on a goroutine the library (or a dependency) started: no caller can recover it
		res.viol("crash/panic-outside-recover:"+c.Family+":"+c.Kind+":"+c.Class, "the process was killed by a panic on a goroutine started below the entry point (not recoverable by the caller) | case (alone in a fresh process): %s | %s", c.describe(), lastLines(fatalPart(st), 8))
		res.class("%s:%s:process-killed-by-panic-on-inner-goroutine", c.Family, c.Kind)
	default:
		res.viol("worker-died:"+c.Family+":"+c.Kind+":"+c.Class, "worker died (%v) running only this case: %s | %s", we.werr, c.describe(), lastLines(fatalPart(st), 8))
		res.class("%s:%s:worker-died", c.Family, c.Kind)
	}
	return res
}

const isolateBack = 8 // completed cases of the dead worker that are re-run alone besides the one in progress

// attribute finds the case(s) that kill a worker when run ALONE. The case in progress is tried first; a goroutine
// left behind by an earlier case can kill the process later, so the cases completed just before are tried next.
// It stores the results of everything it re-ran and returns the number of cases that reproduce alone.
func (p *pool) attribute(we *workerEnd) int {
	found := 0
	try := func(i int) (ok bool) {
		iso := p.isolate(i)
		if iso.expired {
			return false
		}
		if iso.died() {
			if iso.current != i && len(iso.completed) == 0 {
				return false // died before it began the case
			}
			if iso.external() {
				return false
			}
			p.mu.Lock()
			p.results[i] = p.deathResult(i, iso)
			p.deaths++
			p.mu.Unlock()
			found++
			return true
		}
		if r := iso.results[i]; r != nil {
			p.mu.Lock()
			p.results[i] = r
			p.mu.Unlock()
		}
		return false
	}
	if we.current >= 0 && try(we.current) {
		return found
	}
	for k := len(we.completed) - 1; k >= 0 && k >= len(we.completed)-isolateBack; k-- {
		try(we.completed[k])
	}
	return found
}

// runShard drives one shard file through (re-started) workers.
func (p *pool) runShard(k int, shardPath string, idxs []int) {
	skip := 0
	unexplained := 0
	for attempt := 0; skip < len(idxs); attempt++ {
		we := p.runWorker(fmt.Sprintf("w%d-%d", k, attempt), shardPath, skip, false)
		p.mu.Lock()
		for i, r := range we.results {
			p.results[i] = r
		}
		p.mu.Unlock()
		if we.expired {
			p.mu.Lock()
			p.capped = true
			p.mu.Unlock()
			return
		}
		if !we.died() {
			return
		}
		// The worker died. "The case in progress" is only a suspect: the death is attributed to the case(s)
		// that reproduce it alone in a fresh process.
		advance := len(we.completed)
		if we.current >= 0 {
			advance++
		}
		if n := p.attribute(we); n > 0 {
			skip += advance // the case in progress got its result from its isolated run
			unexplained = 0
			continue
		}
		if p.r.Expired() {
			p.mu.Lock()
			p.capped = true
			p.mu.Unlock()
			return
		}
		// nothing reproduces alone: run the same stretch once more in order; a second unexplained death is an
		// infrastructure problem, never a violation
		unexplained++
		if unexplained < 2 {
			continue
		}
		cur := "none"
		if we.current >= 0 {
			cur = p.cases[we.current].describe()
		}
		p.r.Infra("worker %d died twice (%v) and no case reproduces the death alone; case in progress: %s; %s", k, we.werr, cur, lastLines(fatalPart(we.stderr), 6))
		skip += advance
		unexplained = 0
	}
}

// confirmAllocations: a TotalAlloc delta over the ceiling can stem from a goroutine an earlier case left behind.
// Every runaway-allocation report of a batch worker is therefore re-examined alone; it stands only if the
// isolated run (which also meters the grace period after the calls) reports it again or dies of memory.
func (p *pool) confirmAllocations() {
	var suspects []int
	for i, r := range p.results {
		if r == nil {
			continue
		}
		for _, v := range r.Viols {
			if strings.HasPrefix(v.Key, "runaway-allocation") && !r.Isolated {
				suspects = append(suspects, i)
				break
			}
		}
	}
	if len(suspects) == 0 {
		return
	}
	runIso := func(list []int) {
		sem := make(chan struct{}, p.workers)
		var wg sync.WaitGroup
		for _, i := range list {
			wg.Add(1)
			sem <- struct{}{}
			go func(i int) {
				defer wg.Done()
				defer func() { <-sem }()
				if p.isoExpired() {
					return
				}
				iso := p.isolate(i)
				p.mu.Lock()
				defer p.mu.Unlock()
				if os.Getenv("C12_DEBUG") != "" {
					fmt.Fprintf(os.Stderr, "DEBUG iso %d: finished=%v werr=%v current=%d completed=%v expired=%v ext=%v stderr=%s\n", i, iso.finished, iso.werr, iso.current, iso.completed, iso.expired, iso.external(), lastLines(iso.stderr, 3))
				}
				switch {
				case iso.expired:
				case iso.died():
					if !iso.external() && (iso.current == i || len(iso.completed) > 0) {
						p.results[i] = p.deathResult(i, iso)
						p.deaths++
					}
				case iso.results[i] != nil:
					p.results[i] = iso.results[i]
				}
			}(i)
		}
		wg.Wait()
	}
	runIso(suspects)
	// suspects that are clean when alone: the allocation came from somewhere else - look at the cases dealt to
	// the same worker just before them (same residue modulo the worker count)
	prev := map[int]bool{}
	for _, i := range suspects {
		r := p.results[i]
		if r == nil || !r.Isolated || len(r.Viols) > 0 {
			continue
		}
		for k, j := 0, i-p.workers; k < isolateBack && j >= 0; k, j = k+1, j-p.workers {
			if q := p.results[j]; q != nil && !q.Isolated {
				prev[j] = true
			}
		}
	}
	var list []int
	for i := range prev {
		list = append(list, i)
	}
	sort.Ints(list)
	runIso(list)
	// a suspect that was not re-run (deadline) keeps no unconfirmed allocation report
	for _, i := range suspects {
		if r := p.results[i]; r != nil && !r.Isolated {
			var keep []Viol
			for _, v := range r.Viols {
				if !strings.HasPrefix(v.Key, "runaway-allocation") {
					keep = append(keep, v)
				}
			}
			if len(keep) != len(r.Viols) {
				r.Viols = keep
				p.r.Capped("internal deadline: an allocation report could not be re-examined in isolation and was dropped")
			}
		}
	}
}

func fatalPart(s string) string {
	if i := strings.Index(s, "fatal error:"); i >= 0 {
		return s[i:]
	}
	if i := strings.Index(s, "panic: "); i >= 0 {
		return s[i:]
	}
	if i := strings.Index(s, "runtime:"); i >= 0 {
		return s[i:]
	}
	return s
}

func lastLines(s string, n int) string {
	ls := strings.Split(strings.TrimSpace(s), "\n")
	var keep []string
	for _, l := range ls {
		l = strings.TrimSpace(l)
		if l == "" || strings.HasPrefix(l, "goroutine ") {
			continue
		}
		keep = append(keep, l)
		if len(keep) == n {
			break
		}
	}
	return strings.Join(keep, " / ")
}

func (p *pool) execute() {
	workers := runtime.GOMAXPROCS(0)
	if w := os.Getenv("VERIF_WORKERS"); w != "" {
		if n, err := strconv.Atoi(w); err == nil && n > 0 {
			workers = n
		}
	}
	if workers > len(p.cases) {
		workers = len(p.cases)
	}
	if workers == 0 {
		return
	}
	p.workers = workers
	p.results = make([]*Result, len(p.cases))
	// shards: round robin, so that every worker sees every family
	files := make([]*bufio.Writer, workers)
	handles := make([]*os.File, workers)
	paths := make([]string, workers)
	idxs := make([][]int, workers)
	for k := 0; k < workers; k++ {
		paths[k] = filepath.Join(hx.Scratch(), fmt.Sprintf("shard-%d.jsonl", k))
		f, err := os.Create(paths[k])
		if err != nil {
			p.r.Infra("shard file: %v", err)
			return
		}
		handles[k] = f
		files[k] = bufio.NewWriterSize(f, 1<<20)
	}
	for i := range p.cases {
		p.cases[i].I = i
		k := i % workers
		b, err := json.Marshal(&p.cases[i])
		if err != nil {
			p.r.Infra("case marshal: %v", err)
			return
		}
		files[k].Write(b)
		files[k].WriteByte('\n')
		idxs[k] = append(idxs[k], i)
	}
	for k := 0; k < workers; k++ {
		files[k].Flush()
		handles[k].Close()
	}
	var wg sync.WaitGroup
	for k := 0; k < workers; k++ {
		wg.Add(1)
		go func(k int) {
			defer wg.Done()
			p.runShard(k, paths[k], idxs[k])
			_ = os.Remove(paths[k])
		}(k)
	}
	wg.Wait()
	p.confirmAllocations()
}

type famStat struct {
	Cases, Evals, Nontrivial, Violating int
	MaxAllocMiB                          uint64
}

func (p *pool) report() {
	r := p.r
	stats := map[string]*famStat{}
	controls, controlsOK, missing := 0, 0, 0
	for i := range p.cases {
		c := &p.cases[i]
		fam := c.Family
		if c.Family != "config-matrix" && c.Family != "nil-arguments" && c.Family != "crl-der-byte-mutation" && c.Family != "reader-seam" && c.Family != "hostile-repository" {
			fam += ":" + c.Kind
		}
		s := stats[fam]
		if s == nil {
			s = &famStat{}
			stats[fam] = s
		}
		s.Cases++
		res := p.results[i]
		if res == nil {
			missing++
			continue
		}
		r.Eval(res.Evals)
		s.Evals += res.Evals
		for _, cl := range res.Classes {
			r.Outcome(cl)
		}
		if res.Nontrivial {
			r.Nontrivial(strconv.Itoa(i) + "|" + c.Family + "|" + c.Kind + "|" + c.Label)
			s.Nontrivial++
		}
		if a := res.MaxAlloc >> 20; a > s.MaxAllocMiB {
			s.MaxAllocMiB = a
		}
		controls += res.Controls
		controlsOK += res.ControlsOK
		if len(res.Viols) > 0 {
			s.Violating++
			c.materialise(p.fx)
			for _, v := range res.Viols {
				if os.Getenv("C12_DEBUG") != "" {
					fmt.Fprintf(os.Stderr, "DEBUG viol %d %s %s iso=%v\n", i, c.Label, v.Key, res.Isolated)
				}
				r.Violation(v.Key, v.What, replayCase{Case: *c, Fixture: p.fx})
			}
		}
	}
	if missing > 0 {
		if p.capped {
			r.Capped(fmt.Sprintf("internal deadline: %d of %d cases not run (cases are dealt round-robin to the workers, so the unfinished ones are the tail of the case list: see space_per_family)", missing, len(p.cases)))
		} else {
			r.Infra("%d cases have no result", missing)
		}
	}
	names := make([]string, 0, len(stats))
	for k := range stats {
		names = append(names, k)
	}
	sort.Strings(names)
	space := map[string]any{}
	for _, k := range names {
		s := stats[k]
		space[k] = map[string]any{"cases": s.Cases, "real_calls": s.Evals, "nontrivial": s.Nontrivial, "violating_cases": s.Violating, "max_alloc_per_call_MiB": s.MaxAllocMiB}
		fmt.Printf("  family %-45s cases=%-6d calls=%-7d nontrivial=%-6d violating=%-5d max-alloc/call=%d MiB\n", k, s.Cases, s.Evals, s.Nontrivial, s.Violating, s.MaxAllocMiB)
	}
	r.Extra["space_per_family"] = space
	r.Extra["worker_deaths"] = p.deaths
	r.Extra["positive_controls"] = controls
	r.Extra["positive_controls_accepted"] = controlsOK
	if r.Replay == "" && !p.capped && controlsOK == 0 {
		r.Infra("positive controls: %d of %d honest configurations accepted", controlsOK, controls)
	}
}

func sampleCases(r *hx.Run, cases []Case) {
	seen := map[string]int{}
	for i := range cases {
		c := &cases[i]
		k := c.Family + ":" + c.Kind
		seen[k]++
		if seen[k] == 7 {
			in := ""
			if len(c.Input) > 0 {
				in = fmt.Sprintf("%d bytes", len(c.Input))
			}
			r.Sample(map[string]any{"family": c.Family, "kind": c.Kind, "label": c.Label, "class": c.Class, "entries": c.Entries, "variant": c.Variant, "matrix": c.Matrix, "input": in})
		}
	}
}

func main() {
	if len(os.Args) > 1 && os.Args[1] == "--worker" {
		workerMain(os.Args[2:])
		return
	}
	r := hx.New("C12")
	r.Rule = "every cell of the configuration matrix and every element of the Hamming-1 byte neighbourhood / one-node JSON neighbourhood of the valid fixtures is executed once per listed entry point inside a worker subprocess (recover + TotalAlloc delta per call, RLIMIT_AS per worker); non-trivial = the case got past the first gate: matrix - the verifier was constructed; envelopes - the mutated envelope still parsed and passed the integrity check; documents - the loader accepted the mutated file; layout - the layout opened; plugin - the mutated output was accepted by the command / the composite path succeeded"
	r.Assumptions = []string{
		"'arbitrary input' is read as: the complete configuration matrix plus every input at byte distance 1 (values ^1, ^0x80, =0, every truncation) or JSON-node distance 1 (7 replacement values, numeric extremes on numbers, duplicate / case-variant member names) from a valid input; inputs at distance >= 2 are outside",
		"clause 2 (error after statement selection => outcome with Error) is judged on verifier.Verify and verifier.VerifyBlob; notation.VerifyBlob documents that it returns only the successful outcome and notation.Verify's outcome slice on failure is not fixed: their failure side is recorded, not judged; 'a statement was selected' is decided by asking the policy document the verifier was built from (its exported GetApplicableTrustPolicy / GetGlobalTrustPolicy) with the call's reference / name - not by error text; an error of type ErrorNoApplicableTrustPolicy is exempt as well",
		"clause 1 for notation.Verify: no error => at least one non-nil outcome without Error (further entries are not excluded by the statement); observations the statement does not fix are kept as outcome classes 'recorded:...' (no error for nil/empty arguments, constructor accepting a document Validate refuses, verdict depending on how a reader delivers the blob, nil SignerInfo, bundle without base CRL)",
		"allocation ceiling: runtime.MemStats.TotalAlloc delta of one call <= 256 MiB for inputs <= 64 KiB, measured in single-threaded workers; a worker killed by the runtime for memory (RLIMIT_AS 8 GiB) counts as runaway allocation",
		"matrix: extended attribute (none / string / COSE integer label, critical or not) x presented artifact (signed / another one) x UserMetadata (none / satisfied / unsatisfied) are crossed with every other dimension under the digest reference for the signatures that parse (jws, cose); quick crosses them with one revocation option, thorough with all three; the other signature kinds and references keep the default of these three",
		"one verifier instance per configuration and worker serves all cells dealt to that worker (calls after other calls on the same instance); reader-seam: notation.VerifyBlob must give the verdict of a plain reader however the caller's reader delivers the same bytes, and must not accept when the reader fails after half of the blob",
		"structural alphabet also holds: the value the same member has in a sibling object of the same path class (a valid value in the wrong place); descriptors handed to FetchSignatureBlob also carry the media type of the other manifest format, an index media type, a negative size and a malformed digest; hostile-repository: a scripted registry.Repository answers notation.Verify with malformed descriptors (digest alphabet without separator / empty / unknown algorithm), empty and several pages and errors at every step; signingkeys: Remove / UpdateDefault / GetDefault with every argument list of up to 3 names (the file's names in any order, repeated, empty, unknown) on freshly loaded instances",
		"timestamp product (its own family of matrix cells): construction x revocation option x timestamping revocation validator (default / supplied) x level x tsa trust store in the statement x verifyTimestamp x countersignature (none / valid / unrelated TSA / wrong imprint / garbage; forged by lib/tsa) x format x entry point",
		"oversized plugin output: 'never runaway allocation' is judged relatively for outputs of 160 MiB and 480 MiB (valid answer followed by blanks): at most half of the additional 320 MiB may turn up as additional allocation of the call; the library's own cap is not assumed",
		"the mutated envelopes of the byte / node families carry no RFC 3161 timestamp; COSE envelopes get the byte neighbourhood only",
		"a static plugin cannot produce a valid raw signature (the signed bytes contain the signing time): generate-signature outputs are exercised up to the library's own verification of the result",
	}
	var cases []Case
	p := &pool{r: r}
	if r.Thorough() {
		r.SetDeadline(10 * time.Minute)
		p.isoDeadline = time.Now().Add(hx.Budget(15 * time.Minute))
	} else {
		r.SetDeadline(35 * time.Second)
		p.isoDeadline = time.Now().Add(hx.Budget(35*time.Second) + hx.Budget(3*time.Minute))
	}
	if r.Replay != "" {
		var rc replayCase
		if err := r.LoadReplay(&rc); err != nil || rc.Fixture == nil {
			r.Infra("replay: %v", err)
			r.Finish()
		}
		p.fx = rc.Fixture
		cases = []Case{rc.Case}
	} else {
		w, created := loadOrBuildWorld()
		r.Extra["fixture_created"] = created.UTC().Format(time.RFC3339)
		p.fx = &w.Fixture
		cases = append(cases, readerCases()...)
		for _, l := range nilArgCases {
			cases = append(cases, Case{Family: "nil-arguments", Kind: "api", Label: l, Class: l})
		}
		cases = append(cases, envelopeByteCases(w, r.Thorough())...)
		cases = append(cases, envelopeNodeCases(w)...)
		cases = append(cases, documentCases(w, r.Thorough())...)
		cases = append(cases, layoutCases(w, r.Thorough())...)
		cases = append(cases, pluginCases(w, r.Thorough())...)
		cases = append(cases, oversizedPluginCases()...)
		cases = append(cases, hostileRepoCases()...)
		cases = append(cases, timestampCases()...)
		// the matrix last, its originally stated product before the three extra dimensions: when the internal
		// deadline stops a run on a loaded machine, what is cut is the tail of the largest family, not whole families
		var wide []Case
		for _, c := range matrixCases(r.Thorough()) {
			if t := c.Matrix; t.Attr == "none" && t.Artifact == "matching" && t.Meta == "none" {
				cases = append(cases, c)
			} else {
				wide = append(wide, c)
			}
		}
		cases = append(cases, wide...)
		r.Extra["matrix_dimensions"] = map[string]any{"construction": constructions, "plugin_manager": managers, "revocation": revocations, "level": levels, "placement": placements,
			"entry": append(append([]string{}, ociEntries...), blobEntries...), "signature": append(append([]string{}, envelopeSigs...), bareSigs...), "plugin_demanded": []bool{false, true}, "reference": references,
			"crossed under the digest reference for jws/cose": map[string]any{"extended_attribute": attrKinds, "artifact": artifacts, "user_metadata": metadatas}}
		r.Extra["envelope_bytes"] = map[string]int{"jws": len(w.Bases["jws"]), "cose": len(w.Bases["cose"])}
		var rn []string
		for _, x := range append(append([]repl{}, replacements...), numberExtremes...) {
			rn = append(rn, x.Name)
		}
		r.Extra["replacement_values"] = rn
		sampleCases(r, cases)
	}
	p.cases = cases
	p.fxPath = filepath.Join(hx.Scratch(), "fixture.json")
	fb, err := json.Marshal(p.fx)
	if err != nil {
		r.Infra("fixture: %v", err)
		r.Finish()
	}
	if err := os.WriteFile(p.fxPath, fb, 0o644); err != nil {
		r.Infra("fixture: %v", err)
		r.Finish()
	}
	p.execute()
	p.report()
	if r.Replay != "" && len(p.results) == 1 && p.results[0] != nil {
		var b bytes.Buffer
		_ = json.NewEncoder(&b).Encode(p.results[0])
		fmt.Print("replay result: ", b.String())
	}
	r.Finish()
}
