package main

import (
	"encoding/base64"
	"encoding/json"
	"fmt"
	"strings"

	"github.com/notaryproject/notation-go/zzverif/lib/forge"
)

// Case is one element of the explored space; it is also the replay case
// (Input holds the mutated bytes, base64 in JSON; Matrix the configuration tuple).
type Case struct {
	I      int    `json:"i"`
	Family string `json:"family"` // config-matrix | nil-arguments | envelope-byte-mutation | envelope-json-node | json-node | crl-der-byte-mutation | oci-layout | plugin-output
	Kind   string `json:"kind,omitempty"`
	Label  string `json:"label,omitempty"`
	Class  string `json:"class,omitempty"` // stable class (JSON path class, "truncation", byte op)
	// derived byte mutation (Input is filled by materialise)
	Base string `json:"base,omitempty"`
	Op   string `json:"op,omitempty"`
	Off  int    `json:"off,omitempty"`
	// explicit input
	Input   []byte   `json:"input_b64,omitempty"`
	Entries []string `json:"entries,omitempty"`
	Variant string   `json:"variant,omitempty"` // layout: consistent | stale-digest ; plugin: stdout | stderr ; envelope: signed | resigned
	Matrix  *Tuple   `json:"matrix,omitempty"`
	// BigInput: the untrusted input of the case is larger than 64 KiB although Input is not (the plugin produces it):
	// the absolute allocation ceiling of small inputs does not apply
	BigInput bool `json:"big_input,omitempty"`
}

// Tuple is one cell of the configuration matrix.
type Tuple struct {
	Cons  string `json:"construction"` // oci | blob | both
	PM    string `json:"plugin_manager"`
	Rev   string `json:"revocation"`
	Level string `json:"level"`
	Place string `json:"placement"` // blob-named | blob-global | oci-scope | oci-wildcard
	Entry string `json:"entry"`
	Sig   string `json:"signature"` // jws cose jws-as-cose cose-as-jws garbage empty nil
	Plug  bool   `json:"plugin_demanded"`
	Ref   string `json:"reference"` // digest | tag | out-of-scope
	// dimensions crossed under the digest reference for the signatures that parse (jws, cose)
	Attr     string `json:"extended_attribute"` // none | str-crit | str-noncrit | int-crit | int-noncrit
	Artifact string `json:"artifact"`           // matching | mismatching (the presented descriptor / blob is not the signed one)
	Meta     string `json:"user_metadata"`      // none | satisfied | unsatisfied
	// timestamp dimensions (their own product, see timestampCases)
	TS       string `json:"timestamp,omitempty"`                       // none | valid | unrelated-tsa | wrong-imprint | garbage
	TSAStore bool   `json:"tsa_trust_store,omitempty"`                 // the statement lists a tsa: trust store
	TSVal    string `json:"timestamping_revocation_validator,omitempty"` // default | supplied
	VerifyTS string `json:"verify_timestamp,omitempty"`                // "" | always | afterCertExpiry
}

func (t Tuple) String() string {
	s := fmt.Sprintf("%s/%s/%s/%s@%s/%s/%s/plugin=%v/attr=%s/%s/artifact=%s/metadata=%s", t.Cons, t.PM, t.Rev, t.Level, t.Place, t.Entry, t.Sig, t.Plug, t.Attr, t.Ref, t.Artifact, t.Meta)
	if t.TS != "" {
		s += fmt.Sprintf("/timestamp=%s/tsa-store=%v/ts-validator=%s/verifyTimestamp=%s", t.TS, t.TSAStore, t.TSVal, t.VerifyTS)
	}
	return s
}

var (
	constructions = []string{"oci", "blob", "both"}
	managers      = []string{"nil", "cli-empty", "scripted"}
	revocations   = []string{"default", "validator", "client"}
	levels        = []string{"strict", "permissive", "audit", "skip"}
	placements    = []string{"blob-named", "blob-global", "oci-scope", "oci-wildcard"}
	ociEntries    = []string{"verifier.Verify", "notation.Verify"}
	blobEntries   = []string{"verifier.VerifyBlob", "notation.VerifyBlob"}
	envelopeSigs  = []string{"jws", "cose", "jws-as-cose", "cose-as-jws"}
	bareSigs      = []string{"garbage", "empty", "nil"}
	references    = []string{"digest", "tag", "out-of-scope"}
	artifacts     = []string{"matching", "mismatching"}
	metadatas     = []string{"none", "satisfied", "unsatisfied"}
	readerKinds   = []string{"one-byte-at-a-time", "data-together-with-EOF", "two-halves", "failing-after-half", "failing-after-all-data"}
	protoCommands = []string{"get-plugin-metadata", "describe-key", "generate-signature", "generate-envelope", "verify-signature"}
)

func matrixCases(thorough bool) []Case {
	var out []Case
	add := func(t Tuple) {
		tt := t
		out = append(out, Case{Family: "config-matrix", Kind: t.Entry, Label: t.String(), Class: t.Entry + ":" + t.Cons + ":" + t.Level + "@" + t.Place, Matrix: &tt})
	}
	for _, c := range constructions {
		for _, pm := range managers {
			for _, rv := range revocations {
				for _, lv := range levels {
					for _, pl := range placements {
						// full: every signature kind x plugin demand with the default (no attribute, matching artifact, no metadata);
						// wide: under the digest reference the parsing signatures additionally x attribute x artifact x metadata
						cells := func(e, ref string, wide bool) {
							for _, s := range envelopeSigs {
								for _, plug := range []bool{false, true} {
									// quick crosses the three extra dimensions with one revocation option (they do not meet: revocation
									// is decided on the certificate chain alone); thorough with all three
									if !wide || (s != "jws" && s != "cose") || (!thorough && rv != "validator") {
										add(Tuple{Cons: c, PM: pm, Rev: rv, Level: lv, Place: pl, Entry: e, Sig: s, Plug: plug, Ref: ref, Attr: "none", Artifact: "matching", Meta: "none"})
										continue
									}
									for _, at := range attrKinds {
										if s == "jws" && strings.HasPrefix(at, "int-") {
											continue
										}
										for _, art := range artifacts {
											for _, md := range metadatas {
												add(Tuple{Cons: c, PM: pm, Rev: rv, Level: lv, Place: pl, Entry: e, Sig: s, Plug: plug, Ref: ref, Attr: at, Artifact: art, Meta: md})
											}
										}
									}
								}
							}
							for _, s := range bareSigs {
								add(Tuple{Cons: c, PM: pm, Rev: rv, Level: lv, Place: pl, Entry: e, Sig: s, Plug: false, Ref: ref, Attr: "none", Artifact: "matching", Meta: "none"})
							}
						}
						for _, e := range ociEntries {
							for _, ref := range references {
								cells(e, ref, ref == "digest")
							}
						}
						for _, e := range blobEntries {
							cells(e, "", true)
						}
					}
				}
			}
		}
	}
	return out
}

var nilArgCases = []string{
	"notation.Verify:nil-verifier", "notation.Verify:nil-repository", "notation.Verify:max-attempts-0", "notation.Verify:empty-reference", "notation.Verify:reference-without-tag-or-digest",
	"notation.Verify:foreign-verifier-returning-nil-outcome-with-error",
	"notation.VerifyBlob:nil-verifier", "notation.VerifyBlob:nil-reader", "notation.VerifyBlob:nil-signature", "notation.VerifyBlob:empty-signature", "notation.VerifyBlob:bad-content-media-type", "notation.VerifyBlob:bad-signature-media-type",
	"notation.VerifyBlob:failing-reader",
	"verifier.NewVerifierWithOptions:nil-trust-store", "verifier.NewVerifierWithOptions:no-policy", "verifier.NewVerifierWithOptions:invalid-policy", "verifier.New:nil-policy", "verifier.NewWithOptions:nil-policy",
	"verifier.NewOCIVerifierFromConfig:empty-config-dir", "verifier.NewBlobVerifierFromConfig:empty-config-dir",
	"verifier.Verify:zero-descriptor", "verifier.VerifyBlob:failing-descriptor-generator", "verifier.Verify:nil-maps-and-empty-options",
	"VerificationOutcome.UserMetadata:zero-outcome", "VerificationOutcome.UserMetadata:non-json-payload", "VerificationOutcome.UserMetadata:null-payload",
	"signer.NewPluginSigner:nil-plugin", "signer.NewPluginSigner:empty-key-id",
	"plugin.NewCLIPlugin:missing-file", "plugin.NewCLIPlugin:directory", "plugin.CLIManager.Get:empty-name", "plugin.CLIManager.List:missing-directory",
	"crl.NewFileCache:get-missing", "crl.FileCache.Set:nil-bundle", "crl.FileCache.Get:directory-at-entry",
	"registry.NewOCIRepository:missing-path", "registry.NewOCIRepository:file-path", "registry.NewOCIRepository:empty-directory",
	"registry.Repository.FetchSignatureBlob:zero-descriptor", "registry.Repository.ListSignatures:zero-descriptor",
}

// timestampCases: options that each work alone must work together. Revocation option x timestamping revocation
// validator (default / supplied) x tsa trust store in the statement x verifyTimestamp option x countersignature kind,
// crossed with construction, level, entry point and format.
func timestampCases() []Case {
	var out []Case
	for _, c := range constructions {
		for _, rv := range revocations {
			for _, tv := range []string{"default", "supplied"} {
				for _, lv := range levels {
					for _, store := range []bool{false, true} {
						for _, vt := range []string{"", "always", "afterCertExpiry"} {
							for _, ts := range timestampKinds {
								for _, s := range []string{"jws", "cose"} {
									for _, e := range append(append([]string{}, ociEntries...), blobEntries...) {
										ref, place := "digest", "oci-wildcard"
										if e == "verifier.VerifyBlob" || e == "notation.VerifyBlob" {
											ref, place = "", "blob-named"
										}
										t := Tuple{Cons: c, PM: "nil", Rev: rv, Level: lv, Place: place, Entry: e, Sig: s, Ref: ref, Attr: "none", Artifact: "matching", Meta: "none",
											TS: ts, TSAStore: store, TSVal: tv, VerifyTS: vt}
										out = append(out, Case{Family: "config-matrix", Kind: e, Label: t.String(), Class: e + ":" + c + ":" + lv + "@" + place, Matrix: &t})
									}
								}
							}
						}
					}
				}
			}
		}
	}
	return out
}

// oversizedPluginCases: a plugin whose stdout / stderr is far larger than any answer, delivered through the pipe in
// the usual pieces. The allocation of the call must not keep growing with the size of the output.
func oversizedPluginCases() []Case {
	var out []Case
	for _, cmd := range protoCommands {
		for _, ch := range []string{"stdout", "stderr"} {
			out = append(out, Case{Family: "oversized-plugin-output", Kind: cmd, Variant: ch, Label: cmd + "/" + ch, Class: ch, BigInput: true})
		}
	}
	return out
}

// hostile-repository: the answers of a foreign registry.Repository implementation (a remote registry's referrers
// API, any implementation of the interface) are untrusted registry content: descriptors with malformed digests,
// negative sizes, empty media types, empty / several pages, errors at every step.
var (
	hostileDigests = []string{"", "deadbeef", "sha256", "sha256:", ":abcd", "sha256:zz", "nosuchalg:abcd", "SHA256:" + "0000000000000000000000000000000000000000000000000000000000000000"}
	resolveAnswers = []string{"ok", "error", "zero-descriptor", "negative-size", "empty-media-type"}
	listAnswers    = []string{"one", "none", "nil-page", "error", "two-pages", "good-then-odd", "odd-then-good", "odd-only", "callback-error-ignored"}
	fetchAnswers   = []string{"signature", "error", "nil-blob", "empty-media-type", "odd-digest-in-descriptor", "garbage"}
)

func hostileRepoCases() []Case {
	var out []Case
	add := func(resolve, list, fetch, dg string) {
		l := fmt.Sprintf("resolve=%s/list=%s/fetch=%s/odd-digest=%q", resolve, list, fetch, dg)
		out = append(out, Case{Family: "hostile-repository", Kind: "notation.Verify", Label: l, Class: "resolve=" + resolve + ",list=" + list + ",fetch=" + fetch, Variant: dg, Entries: []string{resolve, list, fetch}})
	}
	for _, rs := range resolveAnswers {
		for _, ls := range listAnswers {
			for _, fs := range fetchAnswers {
				odd := strings.Contains(ls, "odd") || fs == "odd-digest-in-descriptor"
				if !odd {
					add(rs, ls, fs, "-")
					continue
				}
				for _, dg := range hostileDigests {
					add(rs, ls, fs, dg)
				}
			}
		}
	}
	for _, dg := range hostileDigests {
		add("odd-digest", "one", "signature", dg)
	}
	return out
}

// readerCases: the way the caller's reader delivers the blob to notation.VerifyBlob must not matter.
func readerCases() []Case {
	var out []Case
	for _, rk := range readerKinds {
		for _, lv := range []string{"strict", "audit", "skip"} {
			for _, s := range []string{"jws", "cose"} {
				for _, art := range artifacts {
					for _, md := range metadatas {
						t := Tuple{Cons: "both", PM: "scripted", Rev: "validator", Level: lv, Place: "blob-named", Entry: "notation.VerifyBlob", Sig: s, Plug: false, Ref: "", Attr: "none", Artifact: art, Meta: md}
						out = append(out, Case{Family: "reader-seam", Kind: rk, Label: rk + "/" + t.String(), Class: rk, Matrix: &t})
					}
				}
			}
		}
	}
	return out
}

// envelopeCases: Hamming-1 neighbourhood and truncations of the valid JWS / COSE envelope.
func envelopeByteCases(w *world, thorough bool) []Case {
	var out []Case
	entries := []string{"verifier.Verify@strict", "verifier.Verify@audit"}
	truncStep := 3
	if thorough {
		entries = append(entries, "verifier.VerifyBlob@strict", "PluginSigner.Sign")
		truncStep = 1
	}
	for _, f := range []string{"jws", "cose"} {
		base := w.Bases[f]
		for off := 0; off < len(base); off++ {
			for _, op := range byteOps {
				if _, ok := applyByteOp(base, op, off); !ok {
					continue
				}
				out = append(out, Case{Family: "envelope-byte-mutation", Kind: f, Label: fmt.Sprintf("%s[%d]%s", f, off, op), Class: op, Base: f, Op: op, Off: off, Entries: entries})
			}
		}
		for l := 0; l < len(base); l += truncStep {
			out = append(out, Case{Family: "envelope-byte-mutation", Kind: f, Label: fmt.Sprintf("%s[:%d]", f, l), Class: "truncation", Base: f, Op: "trunc", Off: l, Entries: entries})
		}
	}
	return out
}

// envelopeNodeCases: one-node neighbourhood of the JWS envelope on three layers
// (the JWS JSON serialisation, the decoded protected header, the decoded
// payload). Inner layers are re-encoded; each inner mutation exists with the
// original signature value and re-signed with the leaf key (so that it passes
// the integrity check and reaches the code behind it).
func envelopeNodeCases(w *world) []Case {
	var out []Case
	entries := []string{"verifier.Verify@strict", "verifier.Verify@audit", "verifier.VerifyBlob@strict", "PluginSigner.Sign"}
	for _, baseName := range []string{"oci/jws", "oci/jws+plugin"} {
		base := w.Sigs[baseName]
		kind := "jws"
		if baseName == "oci/jws+plugin" {
			kind = "jws+plugin"
		}
		for _, m := range append(nodeMutations(base, ""), truncations(base, "", 1)...) {
			if m.Op == "trunc" && kind == "jws" {
				continue // the byte family has every truncation of this envelope
			}
			out = append(out, Case{Family: "envelope-json-node", Kind: kind, Label: m.Label, Class: m.Class, Input: m.Bytes, Entries: entries, Variant: "signed"})
		}
		parts := forge.SplitJWS(base)
		prot, err := b64url.DecodeString(parts.Protected)
		if err != nil {
			panic(err)
		}
		payload, err := b64url.DecodeString(parts.Payload)
		if err != nil {
			panic(err)
		}
		for _, layer := range []string{"protected", "payload"} {
			doc := prot
			if layer == "payload" {
				doc = payload
			}
			for _, m := range append(nodeMutations(doc, layer+">"), truncations(doc, layer+">", 1)...) {
				p := parts
				if layer == "protected" {
					p.Protected = b64url.EncodeToString(m.Bytes)
				} else {
					p.Payload = b64url.EncodeToString(m.Bytes)
				}
				out = append(out, Case{Family: "envelope-json-node", Kind: kind, Label: m.Label, Class: m.Class, Input: p.Bytes(), Entries: entries, Variant: "signed"})
				p.Signature = w.signJWS(p.Protected, p.Payload)
				out = append(out, Case{Family: "envelope-json-node", Kind: kind, Label: m.Label + "/resigned", Class: m.Class, Input: p.Bytes(), Entries: entries, Variant: "resigned"})
			}
		}
	}
	return out
}

// documentCases: one-node neighbourhood and truncations of the configuration / cache documents.
func documentCases(w *world, thorough bool) []Case {
	var out []Case
	for _, kind := range []string{"oci-policy", "blob-policy", "signingkeys", "config", "crl-cache"} {
		doc := w.Docs[kind]
		var extra func(string) []member
		if kind == "oci-policy" || kind == "blob-policy" {
			extra = policyInsertions
		}
		ms := append(append(nodeMutations(doc, ""), insertionMutations(doc, "", extra)...), siblingSwaps(doc, "")...)
		for _, m := range append(ms, truncations(doc, "", 1)...) {
			out = append(out, Case{Family: "json-node", Kind: kind, Label: m.Label, Class: m.Class, Input: m.Bytes})
		}
		if thorough {
			out = append(out, byteNeighbourhood("document-byte-mutation", kind, doc)...)
		}
	}
	// the DER of the cached base CRL, Hamming-1 + truncations, wrapped into the cache entry
	der := w.Bases["crl-der"]
	var cache map[string][]byte
	_ = json.Unmarshal(w.Docs["crl-cache"], &cache)
	wrap := func(b []byte) []byte {
		return mustJSON(map[string]any{"baseCRL": b, "deltaCRL": cache["deltaCRL"]})
	}
	for off := 0; off < len(der); off++ {
		for _, op := range byteOps {
			if b, ok := applyByteOp(der, op, off); ok {
				out = append(out, Case{Family: "crl-der-byte-mutation", Kind: "crl-cache", Label: fmt.Sprintf("baseCRL[%d]%s", off, op), Class: op, Input: wrap(b)})
			}
		}
		b, _ := applyByteOp(der, "trunc", off)
		out = append(out, Case{Family: "crl-der-byte-mutation", Kind: "crl-cache", Label: fmt.Sprintf("baseCRL[:%d]", off), Class: "truncation", Input: wrap(b)})
	}
	return out
}

// layoutCases: one-node neighbourhood and truncations of index.json, the
// signature manifest and the legacy artifact manifest of an OCI layout.
// consistent: the mutated manifest is stored under its own digest and index.json names it;
// stale-digest: the mutated bytes sit at the path of the original digest.
func layoutCases(w *world, thorough bool) []Case {
	var out []Case
	for _, kind := range []string{"index.json", "signature-manifest", "legacy-artifact-manifest"} {
		doc := w.Docs[kind]
		if thorough {
			for _, c := range byteNeighbourhood("oci-layout-byte-mutation", kind, doc) {
				c.Variant = "consistent"
				out = append(out, c)
			}
		}
		for _, m := range append(append(append(nodeMutations(doc, ""), insertionMutations(doc, "", nil)...), siblingSwaps(doc, "")...), truncations(doc, "", 1)...) {
			out = append(out, Case{Family: "oci-layout", Kind: kind, Label: m.Label, Class: m.Class, Input: m.Bytes, Variant: "consistent"})
			if kind != "index.json" && m.Op != "trunc" {
				out = append(out, Case{Family: "oci-layout", Kind: kind, Label: m.Label + "/stale-digest", Class: m.Class, Input: m.Bytes, Variant: "stale-digest"})
			}
		}
	}
	return out
}

// pluginCases: one-node neighbourhood and truncations of the plugin's stdout
// (exit 0) and stderr (exit 1) for the five protocol commands.
func pluginCases(w *world, thorough bool) []Case {
	var out []Case
	step := 16
	if thorough {
		step = 1
	}
	for _, cmd := range protoCommands {
		doc := []byte(w.PluginOut[cmd])
		for _, m := range append(append(append(nodeMutations(doc, ""), insertionMutations(doc, "", nil)...), siblingSwaps(doc, "")...), truncations(doc, "", step)...) {
			out = append(out, Case{Family: "plugin-output", Kind: cmd, Label: m.Label, Class: m.Class, Input: m.Bytes, Variant: "stdout", Entries: []string{"direct", "composite"}})
		}
		doc = []byte(w.PluginOut["stderr"])
		for _, m := range append(nodeMutations(doc, ""), truncations(doc, "", step)...) {
			out = append(out, Case{Family: "plugin-output", Kind: cmd, Label: m.Label, Class: m.Class, Input: m.Bytes, Variant: "stderr", Entries: []string{"direct", "composite"}})
		}
	}
	return out
}

// byteNeighbourhood: every byte x {^1, ^0x80, =0} of a document (truncations are part of the node families).
func byteNeighbourhood(family, kind string, doc []byte) []Case {
	var out []Case
	for off := 0; off < len(doc); off++ {
		for _, op := range byteOps {
			if b, ok := applyByteOp(doc, op, off); ok {
				out = append(out, Case{Family: family, Kind: kind, Label: fmt.Sprintf("%s[%d]%s", kind, off, op), Class: op, Input: b})
			}
		}
	}
	return out
}

// materialise fills Input of a derived case (for replay files).
func (c *Case) materialise(f *Fixture) {
	if c.Input == nil && c.Base != "" {
		c.Input, _ = applyByteOp(f.Bases[c.Base], c.Op, c.Off)
	}
}

func (c Case) describe() string {
	s := c.Family + " " + c.Kind + " " + c.Label
	if len(c.Input) > 0 && len(c.Input) <= 120 {
		s += " input=" + base64.StdEncoding.EncodeToString(c.Input)
	}
	return s
}
