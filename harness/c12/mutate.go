package main

import (
	"bytes"
	"fmt"
	"strings"
	"unicode"
)

// ---------------------------------------------------------------------------
// one-node structural neighbourhood of a JSON text and Hamming-1 neighbourhood
// of a byte string. The generators work on the raw text of a VALID document
// (the harness's own fixtures), so every byte outside the mutated node is kept.

// jnode is one value of a JSON text.
type jnode struct {
	Start, End       int // span of the value
	Path, Class      string
	Kind             byte // o a s n t f z
	KeyStart, KeyEnd int  // span of the member name (with quotes) when the value is an object member, else -1
	Key              string
	Parent           int // index of the enclosing node, -1 for the root
}

type jscanner struct {
	b     []byte
	p     int
	nodes []jnode
}

func (s *jscanner) ws() {
	for s.p < len(s.b) && (s.b[s.p] == ' ' || s.b[s.p] == '\n' || s.b[s.p] == '\t' || s.b[s.p] == '\r') {
		s.p++
	}
}

func (s *jscanner) str() (start, end int) {
	start = s.p
	if s.b[s.p] != '"' {
		panic(fmt.Sprintf("fixture JSON: string expected at %d", s.p))
	}
	s.p++
	for s.b[s.p] != '"' {
		if s.b[s.p] == '\\' {
			s.p++
		}
		s.p++
	}
	s.p++
	return start, s.p
}

func (s *jscanner) value(path, class string, ks, ke int, key string, parent int) {
	s.ws()
	n := jnode{Start: s.p, Path: path, Class: class, KeyStart: ks, KeyEnd: ke, Key: key, Parent: parent}
	idx := len(s.nodes)
	s.nodes = append(s.nodes, n)
	switch c := s.b[s.p]; {
	case c == '{':
		n.Kind = 'o'
		s.p++
		s.ws()
		for s.b[s.p] != '}' {
			s.ws()
			a, e := s.str()
			k := string(s.b[a+1 : e-1])
			s.ws()
			if s.b[s.p] != ':' {
				panic("fixture JSON: ':' expected")
			}
			s.p++
			s.value(path+"."+k, class+"."+k, a, e, k, idx)
			s.ws()
			if s.b[s.p] == ',' {
				s.p++
			}
			s.ws()
		}
		s.p++
	case c == '[':
		n.Kind = 'a'
		s.p++
		s.ws()
		for i := 0; s.b[s.p] != ']'; i++ {
			s.value(fmt.Sprintf("%s[%d]", path, i), class+"[]", -1, -1, "", idx)
			s.ws()
			if s.b[s.p] == ',' {
				s.p++
			}
			s.ws()
		}
		s.p++
	case c == '"':
		n.Kind = 's'
		s.str()
	case c == 't':
		n.Kind = 't'
		s.p += 4
	case c == 'f':
		n.Kind = 'f'
		s.p += 5
	case c == 'n':
		n.Kind = 'z'
		s.p += 4
	default:
		n.Kind = 'n'
		for s.p < len(s.b) && strings.IndexByte("+-0123456789.eE", s.b[s.p]) >= 0 {
			s.p++
		}
		if s.p == n.Start {
			panic(fmt.Sprintf("fixture JSON: value expected at %d", s.p))
		}
	}
	n.End = s.p
	s.nodes[idx] = n
}

func scanJSON(b []byte) []jnode {
	s := &jscanner{b: b}
	s.value("$", "$", -1, -1, "", -1)
	return s.nodes
}

// the replacement alphabet of the statement (DESIGN.md C12)
var longString = `"` + strings.Repeat("A", 100*1000) + `"`

type repl struct{ Name, Text string }

var replacements = []repl{
	{"null", "null"}, {"0", "0"}, {"emptystring", `""`}, {"emptyarray", "[]"}, {"emptyobject", "{}"}, {"true", "true"}, {"string100k", longString},
}

// numeric extremes, applied to number nodes only (declared sizes, schema versions ...)
var numberExtremes = []repl{
	{"minus1", "-1"}, {"2pow31", "2147483648"}, {"cap32MiBplus1", "33554433"}, {"2pow40", "1099511627776"}, {"maxint64", "9223372036854775807"}, {"2pow64", "18446744073709551616"}, {"1e400", "1e400"}, {"half", "0.5"},
}

// mut is one mutated document.
type mut struct {
	Label string // human readable: path=replacement
	Class string // stable class for violation keys: path class
	Op    string // node | dupkey | casekey | trunc
	Bytes []byte
}

func splice(doc []byte, start, end int, with string) []byte {
	out := make([]byte, 0, len(doc)-(end-start)+len(with))
	out = append(out, doc[:start]...)
	out = append(out, with...)
	out = append(out, doc[end:]...)
	return out
}

func titleKey(k string) string {
	r := []rune(k)
	if len(r) == 0 {
		return k
	}
	r[0] = unicode.ToUpper(r[0])
	return string(r)
}

// nodeMutations returns the one-node neighbourhood of doc: every value replaced
// by each element of the alphabet, numbers additionally by the extremes, every
// object member duplicated (with null / with itself) and renamed to its
// case variants.
func nodeMutations(doc []byte, prefix string) []mut {
	var out []mut
	for _, n := range scanJSON(doc) {
		orig := string(doc[n.Start:n.End])
		rs := replacements
		if n.Kind == 'n' {
			rs = append(append([]repl{}, replacements...), numberExtremes...)
		}
		for _, r := range rs {
			if r.Text == orig {
				continue
			}
			out = append(out, mut{Label: prefix + n.Path + "=" + r.Name, Class: prefix + n.Class, Op: "node", Bytes: splice(doc, n.Start, n.End, r.Text)})
		}
		if n.KeyStart >= 0 {
			keyLit := string(doc[n.KeyStart:n.KeyEnd])
			out = append(out,
				mut{Label: prefix + n.Path + "+duplicate-null", Class: prefix + n.Class, Op: "dupkey", Bytes: splice(doc, n.End, n.End, ","+keyLit+":null")},
				mut{Label: prefix + n.Path + "+duplicate-same", Class: prefix + n.Class, Op: "dupkey", Bytes: splice(doc, n.End, n.End, ","+keyLit+":"+orig)},
				mut{Label: prefix + n.Path + "+duplicate-null-first", Class: prefix + n.Class, Op: "dupkey", Bytes: splice(doc, n.KeyStart, n.KeyStart, keyLit+":null,")},
			)
			for _, v := range []string{strings.ToUpper(n.Key), titleKey(n.Key)} {
				if v == n.Key {
					continue
				}
				out = append(out, mut{Label: prefix + n.Path + "~key:" + v, Class: prefix + n.Class, Op: "casekey", Bytes: splice(doc, n.KeyStart+1, n.KeyEnd-1, v)})
			}
		}
	}
	return out
}

// member is a member to insert into objects of a path class where it is absent.
type member struct{ Key, Value, Name string }

// the legal (type, action) vocabulary of a policy's override map, hand-written
var (
	policyTypes   = []string{"integrity", "authenticity", "authenticTimestamp", "expiry", "revocation"}
	policyActions = []string{"enforce", "log", "skip"}
)

// policyInsertions: optional members of a trust policy statement that node replacement cannot create.
func policyInsertions(class string) []member {
	var out []member
	switch class {
	case "$.trustPolicies[].signatureVerification":
		for _, t := range policyTypes {
			for _, a := range policyActions {
				out = append(out, member{"override", `{"` + t + `":"` + a + `"}`, "override{" + t + ":" + a + "}"})
			}
		}
		out = append(out, member{"override", `{}`, "override{}"}, member{"verifyTimestamp", `"always"`, "verifyTimestamp:always"}, member{"verifyTimestamp", `"afterCertExpiry"`, "verifyTimestamp:afterCertExpiry"})
	case "$.trustPolicies[].signatureVerification.override":
		for _, t := range policyTypes {
			for _, a := range policyActions {
				out = append(out, member{t, `"` + a + `"`, t + ":" + a})
			}
		}
	case "$.trustPolicies[]":
		out = append(out, member{"globalPolicy", "true", "globalPolicy:true"}, member{"trustStores", `["ca:s"]`, "trustStores"}, member{"trustedIdentities", `["*"]`, "trustedIdentities"},
			member{"registryScopes", `["*"]`, "registryScopes:*"})
	}
	return out
}

// insertionMutations creates members where they are absent: (i) every member that a sibling object of
// the same path class has (with the sibling's value), (ii) the members named by extra for the class.
func insertionMutations(doc []byte, prefix string, extra func(class string) []member) []mut {
	nodes := scanJSON(doc)
	has := map[int]map[string]bool{}
	byClass := map[string][]int{}
	var classOrder []string
	for i, n := range nodes {
		if n.Kind == 'o' {
			has[i] = map[string]bool{}
			if _, ok := byClass[n.Class]; !ok {
				classOrder = append(classOrder, n.Class)
			}
			byClass[n.Class] = append(byClass[n.Class], i)
		}
	}
	type kv struct{ k, v string }
	schema := map[string][]kv{}
	for _, n := range nodes {
		if n.Parent >= 0 && n.KeyStart >= 0 {
			has[n.Parent][n.Key] = true
			cl := nodes[n.Parent].Class
			dup := false
			for _, e := range schema[cl] {
				if e.k == n.Key {
					dup = true
				}
			}
			if !dup {
				schema[cl] = append(schema[cl], kv{n.Key, string(doc[n.Start:n.End])})
			}
		}
	}
	var out []mut
	ins := func(i int, k, v, name, tag string) {
		n := nodes[i]
		text := `"` + k + `":` + v
		if len(has[i]) > 0 {
			text += ","
		}
		out = append(out, mut{Label: prefix + n.Path + "+insert(" + tag + "):" + name, Class: prefix + n.Class + "." + k, Op: "insert", Bytes: splice(doc, n.Start+1, n.Start+1, text)})
	}
	for _, cl := range classOrder {
		for _, i := range byClass[cl] {
			for _, e := range schema[cl] {
				if !has[i][e.k] {
					ins(i, e.k, e.v, e.k, "sibling")
				}
			}
			if extra != nil {
				for _, m := range extra(cl) {
					if !has[i][m.Key] {
						ins(i, m.Key, m.Value, m.Name, "optional")
					}
				}
			}
		}
	}
	return out
}

// siblingSwaps replaces the value of a member by the value the same member has in each sibling object of the same
// path class (another list entry's media type, digest, size, name ...): a value that is valid, only in the wrong place.
func siblingSwaps(doc []byte, prefix string) []mut {
	nodes := scanJSON(doc)
	type kv struct{ class, key string }
	values := map[kv][]string{}
	for _, n := range nodes {
		if n.Parent >= 0 && n.KeyStart >= 0 {
			k := kv{nodes[n.Parent].Class, n.Key}
			v := string(doc[n.Start:n.End])
			dup := false
			for _, e := range values[k] {
				if e == v {
					dup = true
				}
			}
			if !dup {
				values[k] = append(values[k], v)
			}
		}
	}
	var out []mut
	for _, n := range nodes {
		if n.Parent < 0 || n.KeyStart < 0 {
			continue
		}
		orig := string(doc[n.Start:n.End])
		for i, v := range values[kv{nodes[n.Parent].Class, n.Key}] {
			if v == orig || len(v) > 4096 {
				continue
			}
			out = append(out, mut{Label: fmt.Sprintf("%s%s=value-of-sibling#%d", prefix, n.Path, i), Class: prefix + n.Class, Op: "swap", Bytes: splice(doc, n.Start, n.End, v)})
		}
	}
	return out
}

// truncations returns doc[:L] for L = 0, step, 2*step ... < len(doc).
func truncations(doc []byte, prefix string, step int) []mut {
	var out []mut
	for l := 0; l < len(doc); l += step {
		out = append(out, mut{Label: fmt.Sprintf("%strunc@%d", prefix, l), Class: prefix + "truncation", Op: "trunc", Bytes: append([]byte(nil), doc[:l]...)})
	}
	return out
}

// byteOps of the Hamming-1 neighbourhood
var byteOps = []string{"xor01", "xor80", "zero"}

// applyByteOp derives the mutated bytes; ok=false when the mutation is the identity.
func applyByteOp(base []byte, op string, off int) ([]byte, bool) {
	switch op {
	case "trunc":
		return append([]byte(nil), base[:off]...), true
	}
	b := append([]byte(nil), base...)
	switch op {
	case "xor01":
		b[off] ^= 1
	case "xor80":
		b[off] ^= 0x80
	case "zero":
		b[off] = 0
	default:
		panic("unknown byte op " + op)
	}
	return b, !bytes.Equal(b, base)
}
