package main

import (
	"crypto/ecdsa"
	"crypto/rand"
	"crypto/sha256"
	"crypto/x509"
	"encoding/base64"
	"encoding/json"
	"fmt"
	"math/big"
	"os"
	"path/filepath"
	"strings"
	"time"

	"github.com/notaryproject/notation-go/zzverif/lib/forge"
	"github.com/notaryproject/notation-go/zzverif/lib/hx"
	"github.com/notaryproject/notation-go/zzverif/lib/pki"
	"github.com/notaryproject/notation-go/zzverif/lib/tsa"
	"github.com/opencontainers/go-digest"
	ocispec "github.com/opencontainers/image-spec/specs-go/v1"
)

// hand-written constants
const (
	mtJWS        = "application/jose+json"
	mtCOSE       = "application/cose"
	mtImage      = "application/vnd.oci.image.manifest.v1+json"
	mtLegacy     = "application/vnd.oci.artifact.manifest.v1+json"
	mtIndex      = "application/vnd.oci.image.index.v1+json"
	typeNotation = "application/vnd.cncf.notary.signature"
	pluginName   = "p"
	keyID        = "k1"
	critAttr     = "com.example.attr"
	crlURL       = "http://crl.example/verif-ca0.crl"
	refRepo      = "reg.io/r"
	refTag       = "v1"
)

// Fixture is everything a worker needs; main builds it once and writes it to the scratch directory.
type Fixture struct {
	RootDER []byte             `json:"root_der"`
	Desc    ocispec.Descriptor `json:"desc"` // the OCI artifact (the subject manifest of the layout)
	Blob    []byte             `json:"blob"` // the blob of the blob entry points
	// the artifact / blob that no signature covers
	OtherDesc ocispec.Descriptor `json:"other_desc"`
	OtherBlob []byte             `json:"other_blob"`
	TSARootDER []byte            `json:"tsa_root_der"`
	// Sigs: "<oci|blob>/<jws|cose>[+plugin]" valid envelopes
	Sigs map[string][]byte `json:"sigs"`
	// Bases: base inputs of the derived byte mutations ("jws", "cose", "crl-der")
	Bases map[string][]byte `json:"bases"`
	// PluginOut: the valid output per protocol command (and "stderr")
	PluginOut map[string]string `json:"plugin_out"`
	// Layout: blobs of the OCI layout by digest, index.json, and the names of the mutated documents
	LayoutBlobs map[string][]byte             `json:"layout_blobs"`
	LayoutIndex []byte                        `json:"layout_index"`
	LayoutDocs  map[string]ocispec.Descriptor `json:"layout_docs"` // "signature-manifest", "legacy-artifact-manifest", "subject-manifest"
	CRLIssuer   []byte                        `json:"crl_issuer_der"`
}

// world is main's side: the fixture plus the base documents; the leaf key (for re-signing) is pki's cached key.
type world struct {
	Fixture
	Docs    map[string][]byte `json:"docs"` // base documents by kind
	Created time.Time         `json:"created"`
	Version string            `json:"version"`
	chain   *pki.Chain
}

const fixtureVersion = "c12-fixture-7"

// loadOrBuildWorld reuses the fixture of an earlier run while it is younger than 12 h, so that
// the case list (byte offsets, lengths) and the class histogram are the same from run to run:
// freshly issued certificates differ in the length of their DER signatures.
func loadOrBuildWorld() (*world, time.Time) {
	path := filepath.Join(hx.VerifDir(), "build", fixtureVersion+".json")
	if b, err := os.ReadFile(path); err == nil {
		var w world
		if json.Unmarshal(b, &w) == nil && w.Version == fixtureVersion && time.Since(w.Created) >= 0 && time.Since(w.Created) < 12*time.Hour && len(w.Sigs) > 0 {
			return &w, w.Created
		}
	}
	w := buildWorld()
	w.Created = time.Now()
	w.Version = fixtureVersion
	if b, err := json.Marshal(w); err == nil {
		_ = os.MkdirAll(filepath.Dir(path), 0o755)
		tmp := fmt.Sprintf("%s.%d", path, os.Getpid())
		if os.WriteFile(tmp, b, 0o644) == nil {
			_ = os.Rename(tmp, path)
		}
	}
	return w, w.Created
}

// attrKinds: the extended signed attribute a matrix signature carries besides the plugin headers
var attrKinds = []string{"none", "str-crit", "str-noncrit", "int-crit", "int-noncrit"}

// timestampKinds: the RFC 3161 countersignature a matrix signature carries
var timestampKinds = []string{"none", "valid", "unrelated-tsa", "wrong-imprint", "garbage"}

func timestampSigName(kind, format, ts string) string {
	return fmt.Sprintf("m:%s/%s/timestamp=%s", kind, format, ts)
}

func matrixSigName(kind, format string, plug bool, attr string) string {
	return fmt.Sprintf("m:%s/%s/plugin=%v/%s", kind, format, plug, attr)
}

func descOf(mt string, b []byte) ocispec.Descriptor {
	return ocispec.Descriptor{MediaType: mt, Digest: digest.FromBytes(b), Size: int64(len(b))}
}

var b64url = base64.RawURLEncoding

// signES256 signs protected.payload the JWS way with the leaf key (P-256).
func (w *world) signJWS(protectedB64, payloadB64 string) string {
	k := pki.Key(pki.EC256, 0).(*ecdsa.PrivateKey) // the leaf key of buildWorld's chain
	d := sha256.Sum256([]byte(protectedB64 + "." + payloadB64))
	r, s, err := ecdsa.Sign(rand.Reader, k, d[:])
	if err != nil {
		panic(err)
	}
	out := make([]byte, 64)
	r.FillBytes(out[:32])
	s.FillBytes(out[32:])
	return b64url.EncodeToString(out)
}

func mustJSON(v any) []byte {
	b, err := json.Marshal(v)
	if err != nil {
		panic(err)
	}
	return b
}

func buildWorld() *world {
	w := &world{Docs: map[string][]byte{}}
	w.chain = pki.NewChain(pki.ChainOpts{Len: 3, LeafSpec: pki.EC256, Prefix: "c12"})
	w.RootDER = w.chain.Root().Cert.Raw
	w.Blob = []byte("c12 blob content: the quick brown fox jumps over the lazy dog")
	w.Sigs = map[string][]byte{}
	w.Bases = map[string][]byte{}
	w.PluginOut = map[string]string{}
	w.LayoutBlobs = map[string][]byte{}
	w.LayoutDocs = map[string]ocispec.Descriptor{}

	// ---- the layout's subject image
	put := func(mt string, b []byte) ocispec.Descriptor {
		d := descOf(mt, b)
		w.LayoutBlobs[d.Digest.String()] = b
		return d
	}
	cfg := put("application/vnd.oci.image.config.v1+json", []byte(`{"architecture":"amd64","os":"linux","rootfs":{"type":"layers","diff_ids":[]}}`))
	layer := put("application/vnd.oci.image.layer.v1.tar", []byte("layer-of-the-c12-subject"))
	subjM := mustJSON(map[string]any{"schemaVersion": 2, "mediaType": mtImage, "config": cfg, "layers": []ocispec.Descriptor{layer}})
	w.Desc = put(mtImage, subjM)
	w.LayoutDocs["subject-manifest"] = w.Desc

	// ---- signatures
	blobDesc := ocispec.Descriptor{MediaType: "application/octet-stream", Digest: digest.FromBytes(w.Blob), Size: int64(len(w.Blob))}
	ociPayload := forge.PayloadFor(ocispec.Descriptor{MediaType: w.Desc.MediaType, Digest: w.Desc.Digest, Size: w.Desc.Size, Annotations: map[string]string{"k": "v"}})
	blobDesc.Annotations = map[string]string{"k": "v"}
	blobPayload := forge.PayloadFor(blobDesc)
	plug := []forge.Attr{{Key: forge.HdrPlugin, Critical: true, Value: pluginName}, {Key: forge.HdrPluginMinVer, Critical: true, Value: "1.0.0"}, {Key: critAttr, Critical: true, Value: "must-understand"}}
	for _, f := range forge.Formats {
		sf := "jws"
		if f == forge.COSE {
			sf = "cose"
		}
		for kind, payload := range map[string][]byte{"oci": ociPayload, "blob": blobPayload} {
			w.Sigs[kind+"/"+sf] = forge.Build(forge.Spec{Format: f, Chain: w.chain.X509(), Key: w.chain.Leaf().Key, Payload: payload, Agent: "c12/1.0"})
			w.Sigs[kind+"/"+sf+"+plugin"] = forge.Build(forge.Spec{Format: f, Chain: w.chain.X509(), Key: w.chain.Leaf().Key, Payload: payload, Agent: "c12/1.0", Ext: plug, Expiry: time.Now().Add(240 * time.Hour)})
		}
	}
	w.Bases["jws"] = w.Sigs["oci/jws"]
	w.Bases["cose"] = w.Sigs["oci/cose"]
	// the matrix's signature kinds: format x plugin demanded x extended attribute
	for _, f := range forge.Formats {
		sf := "jws"
		if f == forge.COSE {
			sf = "cose"
		}
		for _, kind := range []string{"oci", "blob"} {
			payload := ociPayload
			if kind == "blob" {
				payload = blobPayload
			}
			for _, pl := range []bool{false, true} {
				for _, at := range attrKinds {
					if f == forge.JWS && strings.HasPrefix(at, "int-") {
						continue // integer labels exist in COSE only
					}
					var ext []forge.Attr
					if pl {
						ext = append(ext, forge.Attr{Key: forge.HdrPlugin, Critical: true, Value: pluginName}, forge.Attr{Key: forge.HdrPluginMinVer, Critical: true, Value: "1.0.0"})
					}
					switch at {
					case "str-crit":
						ext = append(ext, forge.Attr{Key: critAttr, Critical: true, Value: "must-understand"})
					case "str-noncrit":
						ext = append(ext, forge.Attr{Key: critAttr, Critical: false, Value: "may-ignore"})
					case "int-crit":
						ext = append(ext, forge.Attr{Key: int64(-70001), Critical: true, Value: "must-understand"})
					case "int-noncrit":
						ext = append(ext, forge.Attr{Key: int64(-70001), Critical: false, Value: "may-ignore"})
					}
					w.Sigs[matrixSigName(kind, sf, pl, at)] = forge.Build(forge.Spec{Format: f, Chain: w.chain.X509(), Key: w.chain.Leaf().Key, Payload: payload, Agent: "c12/1.0", Ext: ext})
				}
			}
		}
	}
	// timestamped signatures: RFC 3161 countersignature from the trusted TSA, from an unrelated TSA, and garbage
	nb, na := pki.DefaultWindow()
	trusted := tsa.New("c12", 0, tsa.LeafProper, nb, na)
	other := tsa.New("c12-unrelated", 1, tsa.LeafProper, nb, na)
	w.TSARootDER = trusted.Root.Cert.Raw
	gen := time.Now().Add(-2 * time.Hour)
	for _, f := range forge.Formats {
		sf := "jws"
		if f == forge.COSE {
			sf = "cose"
		}
		for _, kind := range []string{"oci", "blob"} {
			payload := ociPayload
			if kind == "blob" {
				payload = blobPayload
			}
			for _, tk := range timestampKinds {
				if tk == "none" {
					continue
				}
				tk := tk
				w.Sigs[timestampSigName(kind, sf, tk)] = forge.Build(forge.Spec{Format: f, Chain: w.chain.X509(), Key: w.chain.Leaf().Key, Payload: payload, Agent: "c12/1.0", SigningTime: gen.Add(-time.Minute),
					Timestamp: func(sig []byte) []byte {
						switch tk {
						case "valid":
							return trusted.Token(tsa.Opts{Message: sig, GenTime: gen})
						case "unrelated-tsa":
							return other.Token(tsa.Opts{Message: sig, GenTime: gen})
						case "wrong-imprint":
							return trusted.Token(tsa.Opts{Message: sig, GenTime: gen, WrongImprint: true})
						}
						return []byte("\x30\x03not a time-stamp token")
					}})
			}
		}
	}
	// the artifact / blob that was NOT signed
	w.OtherBlob = []byte("c12 another blob: pack my box with five dozen liquor jugs")
	w.OtherDesc = ocispec.Descriptor{MediaType: w.Desc.MediaType, Digest: digest.FromString("c12 another artifact"), Size: w.Desc.Size}

	// ---- the layout's signature manifests
	emptyCfg := put(typeNotation, []byte("{}"))
	sigBlob := put(mtJWS, w.Sigs["oci/jws"])
	sigM := mustJSON(map[string]any{"schemaVersion": 2, "mediaType": mtImage, "config": emptyCfg, "layers": []ocispec.Descriptor{sigBlob},
		"subject": w.Desc, "annotations": map[string]string{"io.cncf.notary.x509chain.thumbprint#S256": `["00"]`, "org.opencontainers.image.created": "2001-02-03T04:05:06Z"}})
	sigMD := put(mtImage, sigM)
	w.LayoutDocs["signature-manifest"] = sigMD
	sigBlob2 := put(mtCOSE, w.Sigs["oci/cose"])
	legM := mustJSON(map[string]any{"mediaType": mtLegacy, "artifactType": typeNotation, "blobs": []ocispec.Descriptor{sigBlob2}, "subject": w.Desc,
		"annotations": map[string]string{"io.cncf.notary.x509chain.thumbprint#S256": `["00"]`}})
	legMD := put(mtLegacy, legM)
	w.LayoutDocs["legacy-artifact-manifest"] = legMD
	tagged := w.Desc
	tagged.Annotations = map[string]string{"org.opencontainers.image.ref.name": refTag}
	w.LayoutIndex = mustJSON(map[string]any{"schemaVersion": 2, "mediaType": mtIndex, "manifests": []ocispec.Descriptor{tagged, sigMD, legMD}})

	// ---- documents
	w.Docs["oci-policy"] = []byte(`{"version":"1.0","trustPolicies":[{"name":"p","registryScopes":["reg.io/r","reg.io/other"],"signatureVerification":{"level":"strict","override":{"revocation":"log"},"verifyTimestamp":"afterCertExpiry"},"trustStores":["ca:s"],"trustedIdentities":["x509.subject:C=US,ST=WA,O=Verif"]},{"name":"rest","registryScopes":["*"],"signatureVerification":{"level":"skip"}}]}`)
	w.Docs["blob-policy"] = []byte(`{"version":"1.0","trustPolicies":[{"name":"p","signatureVerification":{"level":"strict","override":{"revocation":"skip"},"verifyTimestamp":"always"},"trustStores":["ca:s"],"trustedIdentities":["x509.subject:C=US,ST=WA,O=Verif"]},{"name":"g","signatureVerification":{"level":"audit"},"trustStores":["ca:s"],"trustedIdentities":["*"],"globalPolicy":true},{"name":"s","signatureVerification":{"level":"skip"}}]}`)
	w.Docs["signingkeys"] = []byte(`{"default":"k1","keys":[{"name":"k1","keyPath":"/k/k1.key","certPath":"/k/k1.crt"},{"name":"k2","id":"kid","pluginName":"p","pluginConfig":{"a":"b"}},{"name":"k3","keyPath":"/k/k3.key","certPath":"/k/k3.crt"}]}`)
	w.Docs["config"] = []byte(`{"insecureRegistries":["localhost:5000"],"credsStore":"pass","credHelpers":{"reg.io":"helper"},"signatureFormat":"cose"}`)
	issuer := w.chain.Certs[1]
	w.CRLIssuer = issuer.Cert.Raw
	now := time.Now()
	base := pki.CRL(issuer, 7, now.Add(-2*time.Hour), now.Add(240*time.Hour), []*big.Int{big.NewInt(4711)}, 0)
	delta := pki.CRL(issuer, 8, now.Add(-2*time.Hour), now.Add(240*time.Hour), []*big.Int{big.NewInt(4712)}, 7)
	w.Bases["crl-der"] = base.Raw
	w.Docs["crl-cache"] = mustJSON(map[string]any{"baseCRL": base.Raw, "deltaCRL": delta.Raw})
	w.Docs["index.json"] = w.LayoutIndex
	w.Docs["signature-manifest"] = sigM
	w.Docs["legacy-artifact-manifest"] = legM

	// ---- plugin outputs
	var chainB64 []string
	for _, c := range w.chain.X509() {
		chainB64 = append(chainB64, base64.StdEncoding.EncodeToString(c.Raw))
	}
	w.PluginOut["get-plugin-metadata"] = `{"name":"p","description":"plugbin","version":"1.0.0","url":"https://example.com/plugbin","supportedContractVersions":["1.0"],"capabilities":["SIGNATURE_GENERATOR.RAW","SIGNATURE_VERIFIER.TRUSTED_IDENTITY","SIGNATURE_VERIFIER.REVOCATION_CHECK"]}`
	w.PluginOut["get-plugin-metadata/envelope"] = `{"name":"p","description":"plugbin","version":"1.0.0","url":"https://example.com/plugbin","supportedContractVersions":["1.0"],"capabilities":["SIGNATURE_GENERATOR.ENVELOPE"]}`
	w.PluginOut["describe-key"] = `{"keyId":"k1","keySpec":"EC-256"}`
	w.PluginOut["generate-signature"] = string(mustJSON(map[string]any{"keyId": keyID, "signature": make([]byte, 64), "signingAlgorithm": "ECDSA-SHA-256", "certificateChain": chainB64}))
	// the envelope an envelope-generating plugin returns for Desc (PluginSigner signs Desc without annotations)
	genEnv := forge.Build(forge.Spec{Format: forge.JWS, Chain: w.chain.X509(), Key: w.chain.Leaf().Key, Payload: forge.PayloadFor(w.Desc), Agent: "plugbin/1.0"})
	w.Sigs["signer/jws"] = genEnv
	w.Sigs["signer/cose"] = forge.Build(forge.Spec{Format: forge.COSE, Chain: w.chain.X509(), Key: w.chain.Leaf().Key, Payload: forge.PayloadFor(w.Desc), Agent: "plugbin/1.0"})
	w.PluginOut["generate-envelope"] = string(mustJSON(map[string]any{"signatureEnvelope": genEnv, "signatureEnvelopeType": mtJWS, "annotations": map[string]string{"k": "v"}}))
	w.PluginOut["verify-signature"] = `{"verificationResults":{"SIGNATURE_VERIFIER.TRUSTED_IDENTITY":{"success":true,"reason":"ok"},"SIGNATURE_VERIFIER.REVOCATION_CHECK":{"success":true}},"processedAttributes":["` + critAttr + `"]}`
	w.PluginOut["stderr"] = `{"errorCode":"VALIDATION_ERROR","errorMessage":"plugbin says no","errorMetadata":{"k":"v"}}`
	return w
}

func (f *Fixture) root() *x509.Certificate {
	c, err := x509.ParseCertificate(f.RootDER)
	if err != nil {
		panic(fmt.Sprintf("fixture root: %v", err))
	}
	return c
}
