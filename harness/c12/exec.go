package main

import (
	"bytes"
	"context"
	"crypto/x509"
	"encoding/json"
	"errors"
	"fmt"
	"io"
	"os"
	"path/filepath"
	"runtime"
	"runtime/debug"
	"sort"
	"strings"
	"time"

	"github.com/notaryproject/notation-core-go/signature"
	"github.com/notaryproject/notation-go"
	"github.com/notaryproject/notation-go/config"
	"github.com/notaryproject/notation-go/dir"
	"github.com/notaryproject/notation-go/plugin"
	"github.com/notaryproject/notation-go/plugin/proto"
	"github.com/notaryproject/notation-go/registry"
	"github.com/notaryproject/notation-go/signer"
	"github.com/notaryproject/notation-go/verifier"
	"github.com/notaryproject/notation-go/verifier/crl"
	"github.com/notaryproject/notation-go/verifier/trustpolicy"
	"github.com/notaryproject/notation-go/zzverif/lib/mocks"
	fw "github.com/notaryproject/notation-plugin-framework-go/plugin"
	"github.com/opencontainers/go-digest"
	ocispec "github.com/opencontainers/image-spec/specs-go/v1"
)

const (
	allocCeiling   = 256 << 20 // TotalAlloc delta of one call
	smallInput     = 64 << 10  // ... for inputs up to this size
	judgeNVBFailed = false     // notation.VerifyBlob documents "returns the successful outcome": its failure side is recorded, not judged
)

var ctx = context.Background()

// Viol is one oracle failure of a case.
type Viol struct {
	Key  string `json:"k"`
	What string `json:"w"`
}

// Result is what a worker reports per case.
type Result struct {
	I          int      `json:"i"`
	Classes    []string `json:"c"`
	Viols      []Viol   `json:"v,omitempty"`
	Evals      int      `json:"e"`
	Nontrivial bool     `json:"n,omitempty"`
	Controls   int      `json:"pc,omitempty"` // positive controls seen
	ControlsOK int      `json:"pk,omitempty"`
	MaxAlloc   uint64   `json:"a,omitempty"`
	Isolated   bool     `json:"iso,omitempty"` // the case ran alone in its process, with the grace period metered
}

func (r *Result) class(format string, a ...any) { r.Classes = append(r.Classes, fmt.Sprintf(format, a...)) }
func (r *Result) viol(key, format string, a ...any) {
	r.Viols = append(r.Viols, Viol{strings.ReplaceAll(key, " ", "_"), fmt.Sprintf(format, a...)})
}

type bothVerifier interface {
	notation.Verifier
	notation.BlobVerifier
}

// wctx is the state of one worker process.
type wctx struct {
	fx        *Fixture
	dir       string
	cfgDir    string
	emptyDir  string
	plugRoot  string // plugin manager root: <plugRoot>/p/notation-p
	plugExe   string
	cacheDir  string
	ts        *mocks.TrustStore
	envV      map[string]bothVerifier
	matrixV   map[string]cachedVerifier
	lastAlloc uint64 // TotalAlloc delta of the most recent protected call
	layoutSeq int
}

func newWctx(fx *Fixture, scratch string) (*wctx, error) {
	x := &wctx{fx: fx, dir: scratch, envV: map[string]bothVerifier{}, matrixV: map[string]cachedVerifier{}}
	x.cfgDir = filepath.Join(scratch, "config")
	x.emptyDir = filepath.Join(scratch, "empty-plugins")
	x.plugRoot = filepath.Join(scratch, "plugins")
	x.cacheDir = filepath.Join(scratch, "crlcache")
	for _, d := range []string{x.cfgDir, x.emptyDir, filepath.Join(x.plugRoot, pluginName), x.cacheDir} {
		if err := os.MkdirAll(d, 0o755); err != nil {
			return nil, err
		}
	}
	dir.UserConfigDir = x.cfgDir
	dir.UserLibexecDir = filepath.Join(scratch, "libexec")
	dir.UserCacheDir = filepath.Join(scratch, "cache")
	x.ts = mocks.NewTrustStore().Put("ca", "s", fx.root())
	if tsaRoot, err := x509.ParseCertificate(fx.TSARootDER); err == nil {
		x.ts.Put("tsa", "t", tsaRoot)
	}
	x.ts.NoLog = true
	return x, nil
}

func (x *wctx) installPlugin() error {
	if x.plugExe != "" {
		return nil
	}
	b, err := os.ReadFile(plugbinPath())
	if err != nil {
		return err
	}
	exe := filepath.Join(x.plugRoot, pluginName, "notation-"+pluginName)
	if err := os.WriteFile(exe, b, 0o755); err != nil {
		return err
	}
	x.plugExe = exe
	return nil
}

func plugbinPath() string {
	if p := os.Getenv("VERIF_PLUGBIN"); p != "" {
		return p
	}
	return "/verif/build/bin/plugbin"
}

func okValidator() *mocks.Validator { v := mocks.AllOK(); v.NoLog = true; return v }

func scriptedManager() *mocks.Manager {
	m := mocks.NewManager()
	m.NoLog = true
	m.Plugins[pluginName] = &mocks.VerifyPlugin{Name: pluginName, Version: "1.0.0", ProcessAll: true, NoLog: true,
		Capabilities: []fw.Capability{fw.CapabilityTrustedIdentityVerifier, fw.CapabilityRevocationCheckVerifier}}
	return m
}

// ---------------------------------------------------------------------------
// protected call: recover + TotalAlloc delta

// call runs f; stage is updated by f so that a panic is attributed to the exported function that was running.
func (x *wctx) call(res *Result, c *Case, entry string, f func(stage *string)) (panicked bool) {
	var m0, m1 runtime.MemStats
	stage := entry
	runtime.ReadMemStats(&m0)
	func() {
		defer func() {
			if v := recover(); v != nil {
				panicked = true
				res.viol(panicKey(c, stage), "panic in %s: %v | case: %s | stack: %s", stage, v, c.describe(), stackTop(string(debug.Stack())))
			}
		}()
		f(&stage)
	}()
	runtime.ReadMemStats(&m1)
	res.Evals++
	d := m1.TotalAlloc - m0.TotalAlloc
	if d > res.MaxAlloc {
		res.MaxAlloc = d
	}
	x.lastAlloc = d
	if d > allocCeiling && len(c.Input) <= smallInput && !c.BigInput {
		res.viol(allocKey(c), "%s allocated %d MiB (ceiling %d MiB) for an input of %d bytes | case: %s", stage, d>>20, allocCeiling>>20, len(c.Input), c.describe())
	}
	return panicked
}

func entryName(e string) string {
	if i := strings.IndexByte(e, '@'); i >= 0 {
		return e[:i]
	}
	return e
}

func panicKey(c *Case, stage string) string {
	switch c.Family {
	case "config-matrix":
		t := c.Matrix
		return "panic/config-matrix:" + stage + ":" + t.Cons + ":" + t.Level + "@" + t.Place
	case "reader-seam":
		return "panic/reader-seam:" + c.Kind
	case "nil-arguments":
		return "panic/nil-arguments:" + c.Label
	case "envelope-byte-mutation":
		return "panic/envelope-byte-mutation:" + c.Kind + ":" + entryName(stage)
	case "envelope-json-node":
		return "panic/json-node:jws-envelope:" + c.Class + ":" + entryName(stage)
	case "json-node":
		return "panic/json-node:" + c.Kind + ":" + c.Class
	case "crl-der-byte-mutation":
		return "panic/crl-der-byte-mutation:crl-cache"
	case "document-byte-mutation":
		return "panic/document-byte-mutation:" + c.Kind
	case "oci-layout-byte-mutation":
		return "panic/oci-layout-byte-mutation:" + c.Kind + ":" + stage
	case "oci-layout":
		return "panic/json-node:" + c.Kind + ":" + c.Class + ":" + stage
	case "oversized-plugin-output":
		return "panic/oversized-plugin-output:" + c.Kind + ":" + c.Variant
	case "hostile-repository":
		return "panic/hostile-repository:" + c.Class
	case "plugin-output":
		return "panic/plugin-output:" + c.Kind + ":" + c.Variant + ":" + c.Class + ":" + stage
	}
	return "panic/" + c.Family
}

func allocKey(c *Case) string {
	switch c.Family {
	case "config-matrix", "reader-seam", "hostile-repository":
		return "runaway-allocation:" + c.Family
	case "oversized-plugin-output":
		return "runaway-allocation:oversized-plugin-output:" + c.Kind + ":" + c.Variant
	case "nil-arguments":
		return "runaway-allocation:nil-arguments:" + c.Label
	case "envelope-byte-mutation", "crl-der-byte-mutation", "document-byte-mutation", "oci-layout-byte-mutation":
		return "runaway-allocation:" + c.Family + ":" + c.Kind
	}
	return "runaway-allocation:" + c.Family + ":" + c.Kind + ":" + c.Class
}

// stackTop keeps the frames of the code under test nearest to the panic.
func stackTop(st string) string {
	lines := strings.Split(st, "\n")
	var keep []string
	seenPanic := false
	for i := 0; i < len(lines); i++ {
		l := lines[i]
		if strings.HasPrefix(l, "panic(") {
			seenPanic = true
			i++
			continue
		}
		if !seenPanic || strings.HasPrefix(l, "\t") {
			continue
		}
		loc := ""
		if i+1 < len(lines) {
			loc = strings.TrimSpace(lines[i+1])
			if j := strings.Index(loc, " +0x"); j >= 0 {
				loc = loc[:j]
			}
		}
		if j := strings.LastIndex(l, "("); j > 0 {
			l = l[:j]
		}
		keep = append(keep, l+" "+loc)
		if len(keep) == 6 {
			break
		}
	}
	return strings.Join(keep, " <- ")
}

// ---------------------------------------------------------------------------
// the consistency oracle

// looksLikeSelectionFailure is used for outcome CLASS names only (statistics), never for a verdict.
func looksLikeSelectionFailure(err error) bool {
	var na notation.ErrorNoApplicableTrustPolicy
	if errors.As(err, &na) {
		return true
	}
	return strings.Contains(err.Error(), "PolicyDoc is nil")
}

// selectableOCI / selectableBlob: does the policy document the verifier was built from select a statement
// for this call? Decided by the document's own exported selection functions (no re-implementation), so the
// exemption "failures before a statement is selected" does not depend on error wording or error types.
func selectableOCI(doc *trustpolicy.OCIDocument, ref string) bool {
	if doc == nil {
		return false
	}
	p, err := doc.GetApplicableTrustPolicy(ref)
	return err == nil && p != nil
}

func selectableBlob(doc *trustpolicy.BlobDocument, name string) bool {
	if doc == nil {
		return false
	}
	var p *trustpolicy.BlobTrustPolicy
	var err error
	if name == "" {
		p, err = doc.GetGlobalTrustPolicy()
	} else {
		p, err = doc.GetApplicableTrustPolicy(name)
	}
	return err == nil && p != nil
}

func failedType(o *notation.VerificationOutcome) string {
	if o == nil {
		return "nil-outcome"
	}
	for i := len(o.VerificationResults) - 1; i >= 0; i-- {
		if r := o.VerificationResults[i]; r != nil && r.Error != nil && r.Action == trustpolicy.ActionEnforce {
			return string(r.Type)
		}
	}
	if o.EnvelopeContent != nil {
		return "after-validations"
	}
	return "other"
}

func touchOutcome(o *notation.VerificationOutcome, stage *string) {
	if o == nil {
		return
	}
	prev := *stage
	*stage = "VerificationOutcome.UserMetadata"
	_, _ = o.UserMetadata()
	*stage = prev
	if o.Error != nil {
		_ = o.Error.Error()
	}
	for _, r := range o.VerificationResults {
		if r != nil && r.Error != nil {
			_ = r.Error.Error()
		}
	}
}

// judgeVerifier applies both clauses to a (outcome, error) pair of verifier.Verify / verifier.VerifyBlob.
func judgeVerifier(res *Result, entry string, c *Case, o *notation.VerificationOutcome, err error, selectable bool) string {
	e := entryName(entry)
	if err == nil {
		switch {
		case o == nil:
			res.viol("consistency/success-with-nil-outcome:"+e, "%s returned no error and a nil outcome | case: %s", e, c.describe())
			return "violation"
		case o.Error != nil:
			res.viol("consistency/success-with-outcome-error:"+e, "%s returned no error but outcome.Error = %v | case: %s", e, o.Error, c.describe())
			return "violation"
		}
		if o.VerificationLevel != nil && o.VerificationLevel.Name == "skip" {
			return "skipped"
		}
		return "accepted"
	}
	_ = err.Error()
	var na notation.ErrorNoApplicableTrustPolicy
	if !selectable || errors.As(err, &na) {
		// the statement's second clause speaks about failures after policy selection only
		return "no-statement-selected"
	}
	if o == nil || o.Error == nil {
		res.viol("consistency/error-without-outcome-error:"+e, "%s returned error %q after a statement was selected, outcome nil: %v, outcome.Error nil: %v | case: %s", e, err, o == nil, o != nil && o.Error == nil, c.describe())
		return "violation"
	}
	return "rejected:" + failedType(o)
}

func blobDescGen(blob []byte) notation.BlobDescriptorGenerator {
	return func(alg digest.Algorithm) (ocispec.Descriptor, error) {
		if !alg.Available() {
			return ocispec.Descriptor{}, fmt.Errorf("digest algorithm %q not available", alg)
		}
		return ocispec.Descriptor{MediaType: "application/octet-stream", Digest: alg.FromBytes(blob), Size: int64(len(blob))}, nil
	}
}

// ---------------------------------------------------------------------------
// family: configuration matrix

type mockRepo struct {
	desc ocispec.Descriptor
	sig  []byte
	mt   string
}

func (m *mockRepo) Resolve(_ context.Context, ref string) (ocispec.Descriptor, error) {
	if ref == m.desc.Digest.String() || ref == refTag {
		return m.desc, nil
	}
	return ocispec.Descriptor{}, fmt.Errorf("mock repository: %q not found", ref)
}
func (m *mockRepo) ListSignatures(_ context.Context, _ ocispec.Descriptor, fn func([]ocispec.Descriptor) error) error {
	return fn([]ocispec.Descriptor{{MediaType: mtImage, Digest: digest.FromString("signature manifest"), Size: 18}})
}
func (m *mockRepo) FetchSignatureBlob(_ context.Context, _ ocispec.Descriptor) ([]byte, ocispec.Descriptor, error) {
	return m.sig, ocispec.Descriptor{MediaType: m.mt, Digest: digest.FromBytes(m.sig), Size: int64(len(m.sig))}, nil
}
func (m *mockRepo) PushSignature(context.Context, string, []byte, ocispec.Descriptor, map[string]string) (ocispec.Descriptor, ocispec.Descriptor, error) {
	return ocispec.Descriptor{}, ocispec.Descriptor{}, errors.New("mock repository: read-only")
}

func (x *wctx) matrixOptions(t *Tuple) verifier.VerifierOptions {
	sv := trustpolicy.SignatureVerification{VerificationLevel: t.Level}
	sv.VerifyTimestamp = trustpolicy.TimestampOption(t.VerifyTS)
	stores, ids := []string{"ca:s"}, []string{"*"}
	if t.TSAStore {
		stores = append(stores, "tsa:t")
	}
	if t.Level == "skip" {
		stores, ids = nil, nil
	}
	var o verifier.VerifierOptions
	if t.TSVal == "supplied" {
		o.RevocationTimestampingValidator = okValidator()
	}
	if t.Cons == "oci" || t.Cons == "both" {
		scopes := []string{"*"}
		if t.Place == "oci-scope" {
			scopes = []string{refRepo}
		}
		o.OCITrustPolicy = &trustpolicy.OCIDocument{Version: "1.0", TrustPolicies: []trustpolicy.OCITrustPolicy{{Name: "p", RegistryScopes: scopes, SignatureVerification: sv, TrustStores: stores, TrustedIdentities: ids}}}
	}
	if t.Cons == "blob" || t.Cons == "both" {
		o.BlobTrustPolicy = &trustpolicy.BlobDocument{Version: "1.0", TrustPolicies: []trustpolicy.BlobTrustPolicy{{Name: "p", SignatureVerification: sv, TrustStores: stores, TrustedIdentities: ids, GlobalPolicy: t.Place == "blob-global"}}}
	}
	switch t.PM {
	case "cli-empty":
		o.PluginManager = plugin.NewCLIManager(dir.NewSysFS(x.emptyDir))
	case "scripted":
		o.PluginManager = scriptedManager()
	}
	switch t.Rev {
	case "validator":
		o.RevocationCodeSigningValidator = okValidator()
	case "client":
		o.RevocationClient = okValidator().Client()
	}
	return o
}

func (x *wctx) matrixSig(t *Tuple, kind string) ([]byte, string) {
	at := t.Attr
	if at == "" {
		at = "none"
	}
	name := func(f string) []byte {
		if t.TS != "" && t.TS != "none" {
			return x.fx.Sigs[timestampSigName(kind, f, t.TS)]
		}
		return x.fx.Sigs[matrixSigName(kind, f, t.Plug, at)]
	}
	switch t.Sig {
	case "jws":
		return name("jws"), mtJWS
	case "cose":
		return name("cose"), mtCOSE
	case "jws-as-cose":
		return name("jws"), mtCOSE
	case "cose-as-jws":
		return name("cose"), mtJWS
	case "garbage":
		return []byte("\x00\xffgarbage{[\"not an envelope"), mtJWS
	case "empty":
		return []byte{}, mtJWS
	}
	return nil, mtJWS
}

type cachedVerifier struct {
	v    bothVerifier
	err  error
	oci  *trustpolicy.OCIDocument
	blob *trustpolicy.BlobDocument
}

// matrixVerifier constructs the verifier of a cell inside a protected call; one instance per configuration is
// kept per worker, so most cells run on an instance that has already served other calls (a history on one instance).
func (x *wctx) matrixVerifier(res *Result, c *Case, t *Tuple) (cachedVerifier, bool) {
	key := t.Cons + "/" + t.PM + "/" + t.Rev + "/" + t.Level + "/" + t.Place + fmt.Sprintf("/%v/%s/%s", t.TSAStore, t.TSVal, t.VerifyTS)
	if cv, ok := x.matrixV[key]; ok {
		return cv, false
	}
	var cv cachedVerifier
	if x.call(res, c, "verifier.NewVerifierWithOptions", func(*string) {
		opts := x.matrixOptions(t)
		vv, err := verifier.NewVerifierWithOptions(x.ts, opts)
		if err != nil {
			cv.err = err
			_ = err.Error()
			return
		}
		cv.v, cv.oci, cv.blob = vv, opts.OCITrustPolicy, opts.BlobTrustPolicy
	}) {
		return cachedVerifier{}, true
	}
	x.matrixV[key] = cv
	return cv, false
}

func metadataOf(t *Tuple) map[string]string {
	switch t.Meta {
	case "satisfied":
		return map[string]string{"k": "v"}
	case "unsatisfied":
		return map[string]string{"k": "something else"}
	}
	return nil
}

// matrixCall runs the entry point of a cell and returns the outcome class.
func (x *wctx) matrixCall(res *Result, c *Case, t *Tuple, cv cachedVerifier, blobReader func([]byte) io.Reader) string {
	v := cv.v
	var class string
	desc, blob := x.fx.Desc, x.fx.Blob
	if t.Artifact == "mismatching" {
		desc, blob = x.fx.OtherDesc, x.fx.OtherBlob
	}
	ref := refRepo + "@" + desc.Digest.String()
	switch t.Ref {
	case "tag":
		ref = refRepo + ":" + refTag
	case "out-of-scope":
		ref = "other.example/x@" + desc.Digest.String()
	}
	name := "p"
	if t.Place == "blob-global" {
		name = ""
	}
	meta := metadataOf(t)
	switch t.Entry {
	case "verifier.Verify":
		sig, mt := x.matrixSig(t, "oci")
		x.call(res, c, t.Entry, func(stage *string) {
			o, err := v.Verify(ctx, desc, sig, notation.VerifierVerifyOptions{ArtifactReference: ref, SignatureMediaType: mt, UserMetadata: meta})
			touchOutcome(o, stage)
			class = judgeVerifier(res, t.Entry, c, o, err, selectableOCI(cv.oci, ref))
		})
	case "verifier.VerifyBlob", "verifier.VerifyBlob(reader)":
		sig, mt := x.matrixSig(t, "blob")
		x.call(res, c, "verifier.VerifyBlob", func(stage *string) {
			gen := blobDescGen(blob)
			if t.Entry == "verifier.VerifyBlob(reader)" {
				gen = readerDescGen(blobReader(blob))
			}
			o, err := v.VerifyBlob(ctx, gen, sig, notation.BlobVerifierVerifyOptions{SignatureMediaType: mt, TrustPolicyName: name, UserMetadata: meta})
			touchOutcome(o, stage)
			class = judgeVerifier(res, "verifier.VerifyBlob", c, o, err, selectableBlob(cv.blob, name))
		})
	case "notation.Verify":
		sig, mt := x.matrixSig(t, "oci")
		x.call(res, c, t.Entry, func(stage *string) {
			class = x.judgeNotationVerifyMeta(res, c, stage, v, &mockRepo{desc: desc, sig: sig, mt: mt}, ref, meta)
		})
	case "notation.VerifyBlob":
		sig, mt := x.matrixSig(t, "blob")
		x.call(res, c, t.Entry, func(stage *string) {
			_, o, err := notation.VerifyBlob(ctx, v, blobReader(blob), sig, notation.VerifyBlobOptions{BlobVerifierVerifyOptions: notation.BlobVerifierVerifyOptions{SignatureMediaType: mt, TrustPolicyName: name, UserMetadata: meta}})
			touchOutcome(o, stage)
			class = judgeNotationVerifyBlob(res, c, o, err)
			if err == nil && (t.Sig == "empty" || t.Sig == "nil") {
				// the statement does not say that an empty signature is an error (under a skip-level statement the
				// skip outcome is a normal return): evidence only
				res.class("recorded:guard/no-error-for-empty-signature:notation.VerifyBlob")
			}
		})
	}
	if class == "" {
		class = "panicked"
	}
	return class
}

func wholeReader(b []byte) io.Reader { return bytes.NewReader(b) }

func coarse(class string) string {
	if i := strings.IndexAny(class, ":("); i > 0 {
		return class[:i]
	}
	return class
}

func (x *wctx) runMatrix(c *Case, res *Result) {
	t := c.Matrix
	pre := "config-matrix:" + t.Entry + ":" + t.Level + ":"
	cv, panicked := x.matrixVerifier(res, c, t)
	if panicked {
		return
	}
	if cv.err != nil {
		res.class("config-matrix:construction-refused(%s@%s)", t.Level, t.Place)
		return
	}
	res.Nontrivial = true
	class := x.matrixCall(res, c, t, cv, wholeReader)
	res.class("%s%s", pre, class)
	if t.TS != "" {
		res.class("config-matrix/timestamp:%s,tsa-store=%v,verifyTimestamp=%s:%s", t.TS, t.TSAStore, t.VerifyTS, coarse(class))
	}
	if t.Attr != "none" || t.Artifact != "matching" || t.Meta != "none" {
		kind := "oci"
		if t.Ref == "" {
			kind = "blob"
		}
		if t.Attr != "none" {
			res.class("config-matrix/extended-attribute:%s,plugin-demanded=%v,scripted-manager=%v:%s", t.Attr, t.Plug, t.PM == "scripted", coarse(class))
		}
		if t.Artifact != "matching" || t.Meta != "none" {
			res.class("config-matrix/artifact-metadata:%s:artifact=%s,metadata=%s:%s", kind, t.Artifact, t.Meta, coarse(class))
		}
	}
	if t.TS == "" && t.Cons == "both" && t.Level == "strict" && t.Sig == "jws" && !t.Plug && (t.Ref == "digest" || t.Ref == "") && t.Attr == "none" && t.Artifact == "matching" && t.Meta != "unsatisfied" {
		res.Controls++
		if class == "accepted" {
			res.ControlsOK++
		}
	}
}

// ---------------------------------------------------------------------------
// family: reader seam. The blob reaches notation.VerifyBlob through a caller-supplied io.Reader: however the
// reader delivers the same bytes, the verdict must be the one of a plain reader; a failing reader must neither
// crash the call nor break the consistency clause.

type seamReader struct {
	data []byte
	kind string
	pos  int
}

func (r *seamReader) Read(p []byte) (int, error) {
	if len(p) == 0 {
		return 0, nil
	}
	rest := r.data[r.pos:]
	switch r.kind {
	case "one-byte-at-a-time":
		if len(rest) == 0 {
			return 0, io.EOF
		}
		p[0] = rest[0]
		r.pos++
		return 1, nil
	case "data-together-with-EOF":
		if len(rest) == 0 {
			return 0, io.EOF
		}
		n := copy(p, rest)
		r.pos += n
		if r.pos == len(r.data) {
			return n, io.EOF
		}
		return n, nil
	case "two-halves":
		if len(rest) == 0 {
			return 0, io.EOF
		}
		lim := len(rest)
		if r.pos == 0 {
			lim = len(r.data) / 2
		}
		n := copy(p, rest[:lim])
		r.pos += n
		return n, nil
	case "failing-after-half":
		if r.pos >= len(r.data)/2 {
			return 0, errors.New("harness: reader fails after half of the data")
		}
		n := copy(p, r.data[r.pos:len(r.data)/2])
		r.pos += n
		return n, nil
	case "failing-after-all-data":
		if len(rest) == 0 {
			return 0, errors.New("harness: reader fails instead of reporting EOF")
		}
		n := copy(p, rest)
		r.pos += n
		return n, nil
	}
	panic("unknown reader kind " + r.kind)
}

// readerDescGen is a descriptor generator that hashes what the caller's reader delivers (what notation.VerifyBlob
// builds internally), so that verifier.VerifyBlob - whose failure side is judged - meets the reader's behaviour too.
func readerDescGen(r io.Reader) notation.BlobDescriptorGenerator {
	return func(alg digest.Algorithm) (ocispec.Descriptor, error) {
		if !alg.Available() {
			return ocispec.Descriptor{}, fmt.Errorf("digest algorithm %q not available", alg)
		}
		dg := alg.Digester()
		n, err := io.Copy(dg.Hash(), r)
		if err != nil {
			return ocispec.Descriptor{}, err
		}
		return ocispec.Descriptor{MediaType: "application/octet-stream", Digest: dg.Digest(), Size: n}, nil
	}
}

func (x *wctx) runReaderSeam(c *Case, res *Result) error {
	t := c.Matrix
	cv, panicked := x.matrixVerifier(res, c, t)
	if panicked {
		return nil
	}
	if cv.err != nil {
		return fmt.Errorf("verifier for the reader seam could not be built: %w", cv.err)
	}
	res.Nontrivial = true
	seamReaderOf := func(b []byte) io.Reader { return &seamReader{data: b, kind: c.Kind} }
	// judged: no panic, allocation ceiling, both consistency clauses (through verifier.VerifyBlob fed from the reader)
	plain := x.matrixCall(res, c, t, cv, wholeReader)
	seam := x.matrixCall(res, c, t, cv, seamReaderOf)
	tv := *t
	tv.Entry = "verifier.VerifyBlob(reader)"
	vseam := x.matrixCall(res, c, &tv, cv, seamReaderOf)
	// evidence only: whether the verdict depends on the delivery is a matter of blob verification's correctness
	// (C01), the statement of C12 speaks about returning normally and consistently
	failing := strings.HasPrefix(c.Kind, "failing")
	switch {
	case !failing && coarse(seam) != coarse(plain):
		res.class("recorded:reader-seam/verdict-depends-on-delivery:%s", c.Kind)
	case c.Kind == "failing-after-half" && t.Level != "skip" && coarse(seam) == "accepted":
		res.class("recorded:reader-seam/accepted-with-truncated-blob")
	}
	res.class("reader-seam:%s:%s:plain=%s,seam=%s,verifier.VerifyBlob=%s", c.Kind, t.Level, coarse(plain), coarse(seam), coarse(vseam))
	return nil
}

func (x *wctx) judgeNotationVerify(res *Result, c *Case, stage *string, v notation.Verifier, repo registry.Repository, ref string) string {
	return x.judgeNotationVerifyMeta(res, c, stage, v, repo, ref, nil)
}

func (x *wctx) judgeNotationVerifyMeta(res *Result, c *Case, stage *string, v notation.Verifier, repo registry.Repository, ref string, meta map[string]string) string {
	_, outcomes, err := notation.Verify(ctx, v, repo, notation.VerifyOptions{ArtifactReference: ref, MaxSignatureAttempts: 3, UserMetadata: meta})
	for _, o := range outcomes {
		touchOutcome(o, stage)
	}
	if err != nil {
		_ = err.Error()
		if looksLikeSelectionFailure(err) {
			return "no-statement-selected"
		}
		var rf notation.ErrorSignatureRetrievalFailed
		if errors.As(err, &rf) {
			return "retrieval-failed"
		}
		return fmt.Sprintf("rejected(%d outcomes; failure side not judged)", len(outcomes))
	}
	// "no error means an outcome without error": at least one outcome that is non-nil and error-free.
	// Further entries (e.g. the outcomes of signatures that failed before the good one) are not excluded by the statement.
	good, skipped, extra := 0, false, 0
	for _, o := range outcomes {
		if o == nil || o.Error != nil {
			extra++
			continue
		}
		good++
		if o.VerificationLevel != nil && o.VerificationLevel.Name == "skip" {
			skipped = true
		}
	}
	if good == 0 {
		res.viol("consistency/success-without-error-free-outcome:notation.Verify", "notation.Verify returned no error and %d outcomes, none of them non-nil and without Error | case: %s", len(outcomes), c.describe())
		return "violation"
	}
	if extra > 0 {
		res.class("recorded:notation.Verify/success-with-additional-nil-or-failed-outcomes")
	}
	if skipped {
		return "skipped"
	}
	return "accepted"
}

func judgeNotationVerifyBlob(res *Result, c *Case, o *notation.VerificationOutcome, err error) string {
	if err == nil {
		switch {
		case o == nil:
			res.viol("consistency/success-with-nil-outcome:notation.VerifyBlob", "notation.VerifyBlob returned no error and a nil outcome | case: %s", c.describe())
			return "violation"
		case o.Error != nil:
			res.viol("consistency/success-with-outcome-error:notation.VerifyBlob", "notation.VerifyBlob returned no error but outcome.Error = %v | case: %s", o.Error, c.describe())
			return "violation"
		}
		if o.VerificationLevel != nil && o.VerificationLevel.Name == "skip" {
			return "skipped"
		}
		return "accepted"
	}
	_ = err.Error()
	if looksLikeSelectionFailure(err) {
		return "no-statement-selected"
	}
	if strings.HasPrefix(err.Error(), "signature cannot be nil or empty") || strings.HasPrefix(err.Error(), "invalid signature media-type") {
		return "argument-refused"
	}
	if o == nil || o.Error == nil {
		if judgeNVBFailed {
			res.viol("consistency/error-without-outcome:notation.VerifyBlob", "notation.VerifyBlob returned error %q after a statement was selected, with a nil outcome | case: %s", err, c.describe())
			return "violation"
		}
		return "rejected(nil outcome: only the successful outcome is returned; failure side not judged)"
	}
	return "rejected:" + failedType(o)
}

// ---------------------------------------------------------------------------
// family: envelopes

// envPlugin is an in-process envelope-generating plugin that answers with a fixed envelope.
type envPlugin struct {
	env []byte
}

func (p *envPlugin) GetMetadata(context.Context, *fw.GetMetadataRequest) (*fw.GetMetadataResponse, error) {
	return &fw.GetMetadataResponse{Name: pluginName, Description: "in-process", Version: "1.0.0", URL: "http://x", SupportedContractVersions: []string{"1.0"}, Capabilities: []fw.Capability{fw.CapabilityEnvelopeGenerator}}, nil
}
func (p *envPlugin) DescribeKey(context.Context, *fw.DescribeKeyRequest) (*fw.DescribeKeyResponse, error) {
	return &fw.DescribeKeyResponse{KeyID: keyID, KeySpec: fw.KeySpecEC256}, nil
}
func (p *envPlugin) GenerateSignature(context.Context, *fw.GenerateSignatureRequest) (*fw.GenerateSignatureResponse, error) {
	return nil, errors.New("not a raw signer")
}
func (p *envPlugin) GenerateEnvelope(_ context.Context, req *fw.GenerateEnvelopeRequest) (*fw.GenerateEnvelopeResponse, error) {
	return &fw.GenerateEnvelopeResponse{SignatureEnvelope: p.env, SignatureEnvelopeType: req.SignatureEnvelopeType, Annotations: map[string]string{"k": "v"}}, nil
}

func (x *wctx) envVerifier(level string) (bothVerifier, error) {
	if v, ok := x.envV[level]; ok {
		return v, nil
	}
	sv := trustpolicy.SignatureVerification{VerificationLevel: level}
	v, err := verifier.NewVerifierWithOptions(x.ts, verifier.VerifierOptions{
		OCITrustPolicy:                 &trustpolicy.OCIDocument{Version: "1.0", TrustPolicies: []trustpolicy.OCITrustPolicy{{Name: "p", RegistryScopes: []string{"*"}, SignatureVerification: sv, TrustStores: []string{"ca:s"}, TrustedIdentities: []string{"*"}}}},
		BlobTrustPolicy:                &trustpolicy.BlobDocument{Version: "1.0", TrustPolicies: []trustpolicy.BlobTrustPolicy{{Name: "p", SignatureVerification: sv, TrustStores: []string{"ca:s"}, TrustedIdentities: []string{"*"}, GlobalPolicy: true}}},
		PluginManager:                  scriptedManager(),
		RevocationCodeSigningValidator: okValidator(),
	})
	if err != nil {
		return nil, err
	}
	x.envV[level] = v
	return v, nil
}

func parseFailed(o *notation.VerificationOutcome) bool {
	return o != nil && o.EnvelopeContent == nil
}

func (x *wctx) runEnvelope(c *Case, res *Result) error {
	mt := mtJWS
	if c.Kind == "cose" {
		mt = mtCOSE
	}
	ref := refRepo + "@" + x.fx.Desc.Digest.String()
	for _, entry := range c.Entries {
		class := "panicked"
		switch entryName(entry) {
		case "verifier.Verify", "verifier.VerifyBlob":
			level := entry[strings.IndexByte(entry, '@')+1:]
			v, err := x.envVerifier(level)
			if err != nil {
				return fmt.Errorf("envelope verifier: %w", err)
			}
			x.call(res, c, entry, func(stage *string) {
				var o *notation.VerificationOutcome
				var err error
				if entryName(entry) == "verifier.Verify" {
					o, err = v.Verify(ctx, x.fx.Desc, c.Input, notation.VerifierVerifyOptions{ArtifactReference: ref, SignatureMediaType: mt})
				} else {
					o, err = v.VerifyBlob(ctx, blobDescGen(x.fx.Blob), c.Input, notation.BlobVerifierVerifyOptions{SignatureMediaType: mt, TrustPolicyName: "p"})
				}
				touchOutcome(o, stage)
				class = judgeVerifier(res, entry, c, o, err, true) // wildcard scope, digest reference, statement "p" exists
				if !parseFailed(o) {
					res.Nontrivial = true
				}
			})
		case "PluginSigner.Sign":
			x.call(res, c, entry, func(*string) {
				ps, err := signer.NewPluginSigner(&envPlugin{env: c.Input}, keyID, nil)
				if err != nil {
					class = "signer-refused"
					return
				}
				sig, si, err := ps.Sign(ctx, x.fx.Desc, notation.SignerSignOptions{SignatureMediaType: mt})
				if err != nil {
					_ = err.Error()
					class = "sign-error"
					if strings.Contains(err.Error(), "descriptor subject has changed") || strings.Contains(err.Error(), "unknown attributes") {
						class = "sign-error(after envelope verification)"
						res.Nontrivial = true
					}
					return
				}
				if len(sig) == 0 {
					// "a result or an error": neither
					res.viol("consistency/sign-success-without-result:PluginSigner.Sign", "PluginSigner.Sign returned no error and no signature | case: %s", c.describe())
					class = "violation"
					return
				}
				if si == nil {
					res.class("recorded:PluginSigner.Sign/success-with-nil-signer-info")
				}
				_ = ps.PluginAnnotations()
				class = "signed"
				res.Nontrivial = true
			})
		default:
			return fmt.Errorf("unknown envelope entry %q", entry)
		}
		fam := c.Family
		if c.Family == "envelope-json-node" {
			fam += "(" + c.Variant + ")"
		}
		res.class("%s:%s:%s:%s", fam, c.Kind, entry, class)
	}
	return nil
}

// ---------------------------------------------------------------------------
// family: documents read from the configuration / cache directories

func (x *wctx) cleanConfig() {
	for _, n := range []string{dir.PathOCITrustPolicy, dir.PathTrustPolicy, dir.PathBlobTrustPolicy, dir.PathSigningKeys, dir.PathConfigFile} {
		_ = os.Remove(filepath.Join(x.cfgDir, n))
	}
}

func (x *wctx) runDocument(c *Case, res *Result) error {
	x.cleanConfig()
	defer x.cleanConfig()
	write := func(name string) error { return os.WriteFile(filepath.Join(x.cfgDir, name), c.Input, 0o600) }
	pre := c.Family + ":" + c.Kind + ":"
	ref := refRepo + "@" + x.fx.Desc.Digest.String()
	switch c.Kind {
	case "oci-policy":
		for _, path := range []string{dir.PathOCITrustPolicy, dir.PathTrustPolicy} {
			x.cleanConfig()
			if err := write(path); err != nil {
				return err
			}
			class := "panicked"
			x.call(res, c, "trustpolicy.LoadOCIDocument", func(stage *string) {
				doc, err := trustpolicy.LoadOCIDocument()
				if err != nil {
					_ = err.Error()
					class = "load-error"
					return
				}
				res.Nontrivial = true
				*stage = "OCIDocument.GetApplicableTrustPolicy"
				if p, err := doc.GetApplicableTrustPolicy(ref); err == nil && p != nil {
					*stage = "SignatureVerification.GetVerificationLevel"
					_, _ = p.SignatureVerification.GetVerificationLevel()
				}
				for i := range doc.TrustPolicies {
					_, _ = doc.TrustPolicies[i].SignatureVerification.GetVerificationLevel()
				}
				*stage = "OCIDocument.Validate"
				if err := doc.Validate(); err != nil {
					_ = err.Error()
					class = "loaded-invalid"
					// the constructor must refuse it too
					*stage = "verifier.NewVerifierWithOptions"
					if v, err := verifier.NewVerifierWithOptions(x.ts, verifier.VerifierOptions{OCITrustPolicy: doc}); err == nil || v != nil {
						res.class("recorded:invalid-policy-accepted-by-constructor:oci-policy")
					}
					return
				}
				*stage = "verifier.NewVerifierWithOptions"
				v, err := verifier.NewVerifierWithOptions(x.ts, verifier.VerifierOptions{OCITrustPolicy: doc, PluginManager: scriptedManager(), RevocationCodeSigningValidator: okValidator()})
				if err != nil {
					_ = err.Error()
					class = "loaded-valid-constructor-refused"
					return
				}
				// an accepted document must never crash verification: every statement, all entry points
				refs := []string{ref}
				for i := range doc.TrustPolicies {
					for _, sc := range doc.TrustPolicies[i].RegistryScopes {
						r := sc + "@" + x.fx.Desc.Digest.String()
						if sc == "*" {
							r = "unlisted.example/x@" + x.fx.Desc.Digest.String()
						}
						if len(refs) < 6 && !contains(refs, r) {
							refs = append(refs, r)
						}
					}
				}
				class = "loaded-valid:" + x.exerciseOCI(res, c, stage, v, doc, refs)
			})
			res.class("%s%s:%s", pre, path, class)
		}
	case "blob-policy":
		if err := write(dir.PathBlobTrustPolicy); err != nil {
			return err
		}
		class := "panicked"
		x.call(res, c, "trustpolicy.LoadBlobDocument", func(stage *string) {
			doc, err := trustpolicy.LoadBlobDocument()
			if err != nil {
				_ = err.Error()
				class = "load-error"
				return
			}
			res.Nontrivial = true
			*stage = "BlobDocument.GetApplicableTrustPolicy"
			_, _ = doc.GetApplicableTrustPolicy("p")
			*stage = "BlobDocument.GetGlobalTrustPolicy"
			_, _ = doc.GetGlobalTrustPolicy()
			for i := range doc.TrustPolicies {
				_, _ = doc.TrustPolicies[i].SignatureVerification.GetVerificationLevel()
			}
			*stage = "BlobDocument.Validate"
			if err := doc.Validate(); err != nil {
				_ = err.Error()
				class = "loaded-invalid"
				*stage = "verifier.NewVerifierWithOptions"
				if v, err := verifier.NewVerifierWithOptions(x.ts, verifier.VerifierOptions{BlobTrustPolicy: doc}); err == nil || v != nil {
					res.class("recorded:invalid-policy-accepted-by-constructor:blob-policy")
				}
				return
			}
			*stage = "verifier.NewVerifierWithOptions"
			v, err := verifier.NewVerifierWithOptions(x.ts, verifier.VerifierOptions{BlobTrustPolicy: doc, PluginManager: scriptedManager(), RevocationCodeSigningValidator: okValidator()})
			if err != nil {
				_ = err.Error()
				class = "loaded-valid-constructor-refused"
				return
			}
			names := []string{"p", ""}
			for i := range doc.TrustPolicies {
				if n := doc.TrustPolicies[i].Name; len(names) < 7 && !contains(names, n) {
					names = append(names, n)
				}
			}
			class = "loaded-valid:" + x.exerciseBlob(res, c, stage, v, doc, names)
		})
		res.class("%s%s", pre, class)
	case "signingkeys":
		if err := write(dir.PathSigningKeys); err != nil {
			return err
		}
		class := "panicked"
		x.call(res, c, "config.LoadSigningKeys", func(stage *string) {
			keys, err := config.LoadSigningKeys()
			if err != nil {
				_ = err.Error()
				class = "load-error"
				return
			}
			if keys == nil {
				res.viol("consistency/nil-result-without-error:config.LoadSigningKeys", "LoadSigningKeys returned nil, nil | case: %s", c.describe())
				class = "violation"
				return
			}
			res.Nontrivial = true
			class = "loaded"
			*stage = "SigningKeys.GetDefault"
			if k, err := keys.GetDefault(); err == nil {
				_ = k.Is("k1")
			}
			*stage = "SigningKeys.Get"
			for _, n := range []string{"k1", "k2", "", "nope"} {
				if k, err := keys.Get(n); err == nil {
					_ = k.Is(n)
					if k.ExternalKey != nil {
						_ = k.ExternalKey.PluginConfig["a"]
					}
				}
			}
			*stage = "SigningKeys.UpdateDefault"
			_ = keys.UpdateDefault("k2")
			*stage = "SigningKeys.Save"
			_ = keys.Save()
			*stage = "SigningKeys.Remove"
			_, _ = keys.Remove("k1", "k2")
			*stage = "config.LoadSigningKeys(after Save)"
			_, _ = config.LoadSigningKeys()
			// every argument list of up to 3 names (the document's own names in any order, repeated, empty, unknown)
			// for the variadic / name-taking operations, each on a freshly loaded instance
			names := []string{"", "nope"}
			if again, err := config.LoadSigningKeys(); err == nil && again != nil {
				for i := range again.Keys {
					if n := again.Keys[i].Name; len(names) < 6 && !contains(names, n) {
						names = append(names, n)
					}
				}
			}
			var args [][]string
			for _, a := range names {
				args = append(args, []string{a})
				for _, b := range names {
					args = append(args, []string{a, b})
					for _, d := range names {
						args = append(args, []string{a, b, d})
					}
				}
			}
			for _, a := range args {
				fresh, err := config.LoadSigningKeys()
				if err != nil || fresh == nil {
					break
				}
				*stage = "SigningKeys.Remove"
				_, _ = fresh.Remove(a...)
				*stage = "SigningKeys.UpdateDefault"
				_ = fresh.UpdateDefault(a[len(a)-1])
				*stage = "SigningKeys.GetDefault"
				_, _ = fresh.GetDefault()
				*stage = "SigningKeys.Remove"
				_, _ = fresh.Remove(a[0])
				res.Evals++
			}
		})
		res.class("%s%s", pre, class)
	case "config":
		if err := write(dir.PathConfigFile); err != nil {
			return err
		}
		class := "panicked"
		x.call(res, c, "config.LoadConfig", func(stage *string) {
			cfg, err := config.LoadConfig()
			if err != nil {
				_ = err.Error()
				class = "load-error"
				return
			}
			if cfg == nil {
				res.viol("consistency/nil-result-without-error:config.LoadConfig", "LoadConfig returned nil, nil | case: %s", c.describe())
				class = "violation"
				return
			}
			res.Nontrivial = true
			class = "loaded"
			_ = cfg.CredentialHelpers["reg.io"]
			_ = len(cfg.InsecureRegistries)
			*stage = "Config.Save"
			_ = cfg.Save()
		})
		res.class("%s%s", pre, class)
	case "crl-cache":
		class := "panicked"
		var fc *crl.FileCache
		var err error
		if fc, err = crl.NewFileCache(x.cacheDir); err != nil {
			return err
		}
		sum := digest.FromString(crlURL).Encoded() // file name = hex sha256 of the URL
		p := filepath.Join(x.cacheDir, sum)
		if err := os.WriteFile(p, c.Input, 0o600); err != nil {
			return err
		}
		defer os.Remove(p)
		x.call(res, c, "crl.FileCache.Get", func(stage *string) {
			b, err := fc.Get(ctx, crlURL)
			if err != nil {
				_ = err.Error()
				class = "get-error"
				return
			}
			if b == nil {
				res.viol("consistency/nil-result-without-error:crl.FileCache.Get", "FileCache.Get returned neither a bundle nor an error | case: %s", c.describe())
				class = "violation"
				return
			}
			if b.BaseCRL == nil {
				res.class("recorded:crl.FileCache.Get/bundle-without-base-crl")
				class = "bundle-returned"
				return
			}
			res.Nontrivial = true
			class = "bundle-returned"
			_ = b.BaseCRL.Number
			if iss, err := x509.ParseCertificate(x.fx.CRLIssuer); err == nil {
				_ = b.BaseCRL.CheckSignatureFrom(iss)
			}
			*stage = "crl.FileCache.Set"
			_ = fc.Set(ctx, crlURL, b)
		})
		res.class("%s%s", pre, class)
	default:
		return fmt.Errorf("unknown document kind %q", c.Kind)
	}
	return nil
}

func contains(l []string, s string) bool {
	for _, e := range l {
		if e == s {
			return true
		}
	}
	return false
}

type sigCase struct {
	name string
	sig  []byte
	mt   string
}

func (x *wctx) sigCases(kind string) []sigCase {
	return []sigCase{{"jws", x.fx.Sigs[kind+"/jws"], mtJWS}, {"cose", x.fx.Sigs[kind+"/cose"], mtCOSE}, {"garbage", []byte("\x00\xffgarbage{[\"not an envelope"), mtJWS}, {"empty", []byte{}, mtJWS}}
}

func summarise(seen map[string]bool) string {
	var ks []string
	for k := range seen {
		ks = append(ks, k)
	}
	sort.Strings(ks)
	return strings.Join(ks, "|")
}

// exerciseOCI calls verifier.Verify and notation.Verify with every signature kind under every reference
// (one per registry scope of the accepted document) and judges each call. Runs inside the caller's protected region.
func (x *wctx) exerciseOCI(res *Result, c *Case, stage *string, v bothVerifier, doc *trustpolicy.OCIDocument, refs []string) string {
	seen := map[string]bool{}
	for _, ref := range refs {
		for _, sc := range x.sigCases("oci") {
			*stage = "verifier.Verify"
			o, err := v.Verify(ctx, x.fx.Desc, sc.sig, notation.VerifierVerifyOptions{ArtifactReference: ref, SignatureMediaType: sc.mt})
			touchOutcome(o, stage)
			seen[judgeVerifier(res, "verifier.Verify", c, o, err, selectableOCI(doc, ref))] = true
			*stage = "notation.Verify"
			seen[x.judgeNotationVerify(res, c, stage, v, &mockRepo{desc: x.fx.Desc, sig: sc.sig, mt: sc.mt}, ref)] = true
			res.Evals += 2
		}
	}
	return summarise(seen)
}

// exerciseBlob does the same for verifier.VerifyBlob and notation.VerifyBlob under every statement name and the global statement.
func (x *wctx) exerciseBlob(res *Result, c *Case, stage *string, v bothVerifier, doc *trustpolicy.BlobDocument, names []string) string {
	seen := map[string]bool{}
	for _, name := range names {
		for _, sc := range x.sigCases("blob") {
			*stage = "verifier.VerifyBlob"
			o, err := v.VerifyBlob(ctx, blobDescGen(x.fx.Blob), sc.sig, notation.BlobVerifierVerifyOptions{SignatureMediaType: sc.mt, TrustPolicyName: name})
			touchOutcome(o, stage)
			seen[judgeVerifier(res, "verifier.VerifyBlob", c, o, err, selectableBlob(doc, name))] = true
			*stage = "notation.VerifyBlob"
			_, o, err = notation.VerifyBlob(ctx, v, bytes.NewReader(x.fx.Blob), sc.sig, notation.VerifyBlobOptions{BlobVerifierVerifyOptions: notation.BlobVerifierVerifyOptions{SignatureMediaType: sc.mt, TrustPolicyName: name}})
			touchOutcome(o, stage)
			seen["nvb-"+judgeNotationVerifyBlob(res, c, o, err)] = true
			res.Evals += 2
		}
	}
	return summarise(seen)
}

// ---------------------------------------------------------------------------
// family: hostile OCI layout

func (x *wctx) buildLayout(c *Case) (string, error) {
	x.layoutSeq++
	root := filepath.Join(x.dir, fmt.Sprintf("layout-%d", x.layoutSeq))
	blobs := filepath.Join(root, "blobs", "sha256")
	if err := os.MkdirAll(blobs, 0o755); err != nil {
		return root, err
	}
	if err := os.WriteFile(filepath.Join(root, "oci-layout"), []byte(`{"imageLayoutVersion":"1.0.0"}`), 0o644); err != nil {
		return root, err
	}
	index := x.fx.LayoutIndex
	for dg, b := range x.fx.LayoutBlobs {
		d := digest.Digest(dg)
		if c.Kind != "index.json" && d == x.fx.LayoutDocs[c.Kind].Digest {
			switch c.Variant {
			case "stale-digest":
				b = c.Input
			default:
				// stored under its own digest; index.json names the new descriptor
				old := x.fx.LayoutDocs[c.Kind]
				nd := digest.FromBytes(c.Input)
				var idx struct {
					SchemaVersion int                  `json:"schemaVersion"`
					MediaType     string               `json:"mediaType"`
					Manifests     []ocispec.Descriptor `json:"manifests"`
				}
				if err := json.Unmarshal(index, &idx); err != nil {
					return root, err
				}
				for i := range idx.Manifests {
					if idx.Manifests[i].Digest == old.Digest {
						idx.Manifests[i].Digest = nd
						idx.Manifests[i].Size = int64(len(c.Input))
					}
				}
				index = mustJSON(idx)
				d, b = nd, c.Input
			}
		}
		if err := os.WriteFile(filepath.Join(blobs, d.Encoded()), b, 0o644); err != nil {
			return root, err
		}
	}
	if c.Kind == "index.json" {
		index = c.Input
	}
	return root, os.WriteFile(filepath.Join(root, "index.json"), index, 0o644)
}

func (x *wctx) runLayout(c *Case, res *Result) error {
	root, err := x.buildLayout(c)
	defer os.RemoveAll(root)
	if err != nil {
		return err
	}
	pre := c.Family + ":" + c.Kind + "(" + c.Variant + "):"
	var repo registry.Repository
	var oerr error
	if x.call(res, c, "registry.NewOCIRepository", func(*string) {
		repo, oerr = registry.NewOCIRepository(root, registry.RepositoryOptions{})
		if oerr != nil {
			_ = oerr.Error()
		}
	}) {
		res.class("%spanicked", pre)
		return nil
	}
	if oerr != nil {
		res.class("%slayout-refused-on-open", pre)
		return nil
	}
	res.Nontrivial = true
	var parts []string
	x.call(res, c, "registry.Repository.Resolve", func(*string) {
		for _, r := range []string{refTag, x.fx.Desc.Digest.String()} {
			if _, err := repo.Resolve(ctx, r); err != nil {
				_ = err.Error()
				parts = append(parts, "resolve-error")
			} else {
				parts = append(parts, "resolved")
			}
		}
	})
	var listed []ocispec.Descriptor
	x.call(res, c, "registry.Repository.ListSignatures", func(*string) {
		err := repo.ListSignatures(ctx, x.fx.Desc, func(page []ocispec.Descriptor) error {
			listed = append(listed, page...)
			return nil
		})
		if err != nil {
			_ = err.Error()
			parts = append(parts, "list-error")
		} else {
			parts = append(parts, fmt.Sprintf("listed-%d", len(listed)))
		}
	})
	// every listed manifest and the three documents' own descriptors (a caller may hold them from elsewhere)
	cands := append([]ocispec.Descriptor{}, listed...)
	for _, k := range []string{"signature-manifest", "legacy-artifact-manifest"} {
		cands = append(cands, x.fx.LayoutDocs[k])
	}
	if c.Kind != "index.json" && c.Variant == "consistent" {
		cands = append(cands, ocispec.Descriptor{MediaType: x.fx.LayoutDocs[c.Kind].MediaType, Digest: digest.FromBytes(c.Input), Size: int64(len(c.Input))})
	}
	// the same content under the media type of the OTHER manifest format, and with odd sizes: a descriptor handed to
	// FetchSignatureBlob comes from a listing, i.e. from the registry
	nlisted := len(cands)
	for _, d := range cands[:nlisted] {
		other := mtLegacy
		if d.MediaType == mtLegacy {
			other = mtImage
		}
		cands = append(cands, ocispec.Descriptor{MediaType: other, Digest: d.Digest, Size: d.Size})
	}
	cands = append(cands, ocispec.Descriptor{MediaType: mtIndex, Digest: x.fx.LayoutDocs["signature-manifest"].Digest, Size: x.fx.LayoutDocs["signature-manifest"].Size},
		ocispec.Descriptor{MediaType: mtImage, Digest: x.fx.LayoutDocs["signature-manifest"].Digest, Size: -1},
		ocispec.Descriptor{MediaType: mtImage, Digest: "deadbeef", Size: 10})
	listedRefused := 0
	x.call(res, c, "registry.Repository.FetchSignatureBlob", func(*string) {
		ok, bad := 0, 0
		for i, d := range cands {
			if b, bd, err := repo.FetchSignatureBlob(ctx, d); err != nil {
				_ = err.Error()
				bad++
				if i < len(listed) {
					listedRefused++
				}
			} else {
				_ = len(b) + len(bd.MediaType)
				ok++
			}
		}
		parts = append(parts, fmt.Sprintf("fetched-%d-refused-%d", ok, bad))
	})
	v, err := x.envVerifier("strict")
	if err != nil {
		return err
	}
	for _, ref := range []string{refRepo + ":" + refTag, refRepo + "@" + x.fx.Desc.Digest.String()} {
		x.call(res, c, "notation.Verify", func(stage *string) {
			cl := x.judgeNotationVerify(res, c, stage, v, repo, ref)
			if listedRefused > 0 && listedRefused < len(listed) && (cl == "accepted" || cl == "retrieval-failed") {
				// the store lists the referrers in map order: whether the refused or the good manifest comes first is not fixed
				cl = "accepted-or-retrieval-failed(depends on the listing order)"
			}
			parts = append(parts, "verify-"+cl)
		})
	}
	res.class("%s%s", pre, strings.Join(parts, ","))
	return nil
}

// ---------------------------------------------------------------------------
// family: plugin output

type plugBehaviour struct {
	Exit   int    `json:"exit"`
	Stdout string `json:"stdout"`
	Stderr string `json:"stderr"`
}

func (x *wctx) script(c *Case, metadataKey string) error {
	cmds := map[string]plugBehaviour{}
	for _, cmd := range protoCommands {
		cmds[cmd] = plugBehaviour{Stdout: x.fx.PluginOut[cmd]}
	}
	cmds["get-plugin-metadata"] = plugBehaviour{Stdout: x.fx.PluginOut[metadataKey]}
	if c.Variant == "stderr" {
		cmds[c.Kind] = plugBehaviour{Exit: 1, Stderr: string(c.Input)}
	} else {
		cmds[c.Kind] = plugBehaviour{Stdout: string(c.Input)}
	}
	return os.WriteFile(x.plugExe+".json", mustJSON(map[string]any{"name": pluginName, "version": "1.0.0", "commands": cmds}), 0o644)
}

func pluginErrClass(err error) string {
	if err == nil {
		return "ok"
	}
	_ = err.Error()
	var me *plugin.PluginMalformedError
	var ee *plugin.PluginExecutableFileError
	var re proto.RequestError
	switch {
	case errors.As(err, &me):
		return "malformed-output"
	case errors.As(err, &ee):
		return "executable-error"
	case errors.As(err, &re):
		_ = re.Unwrap()
		return "request-error"
	}
	return "other-error"
}

func (x *wctx) runPlugin(c *Case, res *Result) error {
	if err := x.installPlugin(); err != nil {
		return err
	}
	pre := "plugin-output:" + c.Kind + ":" + c.Variant + ":"
	for _, entry := range c.Entries {
		switch entry {
		case "direct":
			if err := x.script(c, "get-plugin-metadata"); err != nil {
				return err
			}
			class := "panicked"
			name := "plugin.CLIPlugin." + c.Kind
			x.call(res, c, name, func(*string) {
				pl, err := plugin.NewCLIPlugin(ctx, pluginName, x.plugExe)
				if err != nil {
					class = "plugin-not-created"
					return
				}
				switch c.Kind {
				case "get-plugin-metadata":
					r, err := pl.GetMetadata(ctx, &fw.GetMetadataRequest{})
					class = pluginErrClass(err)
					if err == nil {
						_ = r.HasCapability(fw.CapabilitySignatureGenerator)
					}
				case "describe-key":
					r, err := pl.DescribeKey(ctx, &fw.DescribeKeyRequest{KeyID: keyID})
					class = pluginErrClass(err)
					if r != nil {
						_ = r.KeyID + string(r.KeySpec)
					}
				case "generate-signature":
					r, err := pl.GenerateSignature(ctx, &fw.GenerateSignatureRequest{KeyID: keyID, KeySpec: fw.KeySpecEC256, Hash: fw.HashAlgorithmSHA256, Payload: []byte("payload")})
					class = pluginErrClass(err)
					if r != nil {
						_ = len(r.Signature) + len(r.CertificateChain)
					}
				case "generate-envelope":
					r, err := pl.GenerateEnvelope(ctx, &fw.GenerateEnvelopeRequest{KeyID: keyID, PayloadType: "application/vnd.cncf.notary.payload.v1+json", SignatureEnvelopeType: mtJWS, Payload: []byte("{}")})
					class = pluginErrClass(err)
					if r != nil {
						_ = len(r.SignatureEnvelope) + len(r.Annotations)
					}
				case "verify-signature":
					r, err := pl.VerifySignature(ctx, &fw.VerifySignatureRequest{Signature: fw.Signature{CriticalAttributes: fw.CriticalAttributes{ContentType: "x", SigningScheme: "notary.x509"}}, TrustPolicy: fw.TrustPolicy{TrustedIdentities: []string{"*"}, SignatureVerification: []fw.Capability{fw.CapabilityTrustedIdentityVerifier}}})
					class = pluginErrClass(err)
					if r != nil {
						for _, vr := range r.VerificationResults {
							if vr != nil {
								_ = vr.Reason
							}
						}
					}
				}
				if class == "ok" {
					res.Nontrivial = true
				}
			})
			res.class("%s%s:%s", pre, name, class)
		case "composite":
			// the same output met on the library's own paths
			type path struct{ name, metadata string }
			var paths []path
			switch c.Kind {
			case "get-plugin-metadata":
				paths = []path{{"PluginSigner.Sign", "get-plugin-metadata"}, {"verifier.Verify", "get-plugin-metadata"}}
			case "describe-key":
				paths = []path{{"PluginSigner.Sign", "get-plugin-metadata"}, {"PluginSigner.SignBlob", "get-plugin-metadata"}}
			case "generate-signature":
				paths = []path{{"PluginSigner.Sign", "get-plugin-metadata"}}
			case "generate-envelope":
				paths = []path{{"PluginSigner.Sign", "get-plugin-metadata/envelope"}, {"PluginSigner.SignBlob", "get-plugin-metadata/envelope"}}
			case "verify-signature":
				paths = []path{{"verifier.Verify", "get-plugin-metadata"}}
			}
			for _, p := range paths {
				if err := x.script(c, p.metadata); err != nil {
					return err
				}
				class := "panicked"
				x.call(res, c, p.name, func(stage *string) {
					switch p.name {
					case "verifier.Verify":
						v, err := verifier.NewVerifierWithOptions(x.ts, verifier.VerifierOptions{
							OCITrustPolicy:                 &trustpolicy.OCIDocument{Version: "1.0", TrustPolicies: []trustpolicy.OCITrustPolicy{{Name: "p", RegistryScopes: []string{"*"}, SignatureVerification: trustpolicy.SignatureVerification{VerificationLevel: "strict"}, TrustStores: []string{"ca:s"}, TrustedIdentities: []string{"*"}}}},
							PluginManager:                  plugin.NewCLIManager(dir.NewSysFS(x.plugRoot)),
							RevocationCodeSigningValidator: okValidator(),
						})
						if err != nil {
							class = "construction-refused"
							return
						}
						o, err := v.Verify(ctx, x.fx.Desc, x.fx.Sigs["oci/jws+plugin"], notation.VerifierVerifyOptions{ArtifactReference: refRepo + "@" + x.fx.Desc.Digest.String(), SignatureMediaType: mtJWS})
						touchOutcome(o, stage)
						class = judgeVerifier(res, "verifier.Verify", c, o, err, true)
						if class == "accepted" {
							res.Nontrivial = true
						}
					default:
						pl, err := plugin.NewCLIPlugin(ctx, pluginName, x.plugExe)
						if err != nil {
							class = "plugin-not-created"
							return
						}
						ps, err := signer.NewPluginSigner(pl, keyID, map[string]string{"a": "b"})
						if err != nil {
							class = "signer-refused"
							return
						}
						var sig []byte
						var si *signature.SignerInfo
						if p.name == "PluginSigner.Sign" {
							sig, si, err = ps.Sign(ctx, x.fx.Desc, notation.SignerSignOptions{SignatureMediaType: mtJWS})
						} else {
							gen := func(alg digest.Algorithm) (ocispec.Descriptor, error) { return x.fx.Desc, nil }
							sig, si, err = ps.SignBlob(ctx, gen, notation.SignerSignOptions{SignatureMediaType: mtJWS})
						}
						if err != nil {
							_ = err.Error()
							class = "sign-error"
							return
						}
						if len(sig) == 0 {
							res.viol("consistency/sign-success-without-result:"+p.name, "%s returned no error and no signature | case: %s", p.name, c.describe())
							class = "violation"
							return
						}
						if si == nil {
							res.class("recorded:PluginSigner.Sign/success-with-nil-signer-info")
						}
						_ = ps.PluginAnnotations()
						class = "signed"
						res.Nontrivial = true
					}
				})
				res.class("%s%s:%s", pre, p.name, class)
			}
		}
	}
	return nil
}

// ---------------------------------------------------------------------------
// family: hostile repository (answers of a foreign registry.Repository implementation)

type hostileRepo struct {
	desc                 ocispec.Descriptor
	sig                  []byte
	resolve, list, fetch string
	odd                  digest.Digest
}

func (h *hostileRepo) Resolve(_ context.Context, ref string) (ocispec.Descriptor, error) {
	d := h.desc
	switch h.resolve {
	case "error":
		return ocispec.Descriptor{}, errors.New("hostile repository: resolve fails")
	case "zero-descriptor":
		return ocispec.Descriptor{}, nil
	case "negative-size":
		d.Size = -1
	case "empty-media-type":
		d.MediaType = ""
	case "odd-digest":
		d.Digest = h.odd
	}
	return d, nil
}

func (h *hostileRepo) manifest(k int, odd bool) ocispec.Descriptor {
	d := ocispec.Descriptor{MediaType: mtImage, Digest: digest.FromString(fmt.Sprintf("signature manifest %d", k)), Size: 18}
	if odd {
		d.Digest = h.odd
	}
	return d
}

func (h *hostileRepo) ListSignatures(_ context.Context, _ ocispec.Descriptor, fn func([]ocispec.Descriptor) error) error {
	switch h.list {
	case "none":
		return fn([]ocispec.Descriptor{})
	case "nil-page":
		return fn(nil)
	case "error":
		return errors.New("hostile repository: listing fails")
	case "two-pages":
		if err := fn([]ocispec.Descriptor{h.manifest(1, false)}); err != nil {
			return err
		}
		return fn([]ocispec.Descriptor{h.manifest(2, false)})
	case "good-then-odd":
		return fn([]ocispec.Descriptor{h.manifest(1, false), h.manifest(2, true)})
	case "odd-then-good":
		return fn([]ocispec.Descriptor{h.manifest(1, true), h.manifest(2, false)})
	case "odd-only":
		return fn([]ocispec.Descriptor{h.manifest(1, true)})
	case "callback-error-ignored":
		_ = fn([]ocispec.Descriptor{h.manifest(1, false)})
		return fn([]ocispec.Descriptor{h.manifest(2, false)})
	}
	return fn([]ocispec.Descriptor{h.manifest(1, false)})
}

func (h *hostileRepo) FetchSignatureBlob(_ context.Context, m ocispec.Descriptor) ([]byte, ocispec.Descriptor, error) {
	d := ocispec.Descriptor{MediaType: mtJWS, Digest: digest.FromBytes(h.sig), Size: int64(len(h.sig))}
	if m.Digest == h.odd && h.odd != "-" && (strings.Contains(h.list, "odd")) {
		// the odd manifest of a listing has no fetchable signature
		return nil, ocispec.Descriptor{}, fmt.Errorf("hostile repository: manifest %q unknown", m.Digest)
	}
	switch h.fetch {
	case "error":
		return nil, ocispec.Descriptor{}, errors.New("hostile repository: fetch fails")
	case "nil-blob":
		return nil, ocispec.Descriptor{}, nil
	case "empty-media-type":
		d.MediaType = ""
	case "odd-digest-in-descriptor":
		d.Digest = h.odd
	case "garbage":
		return []byte("\x00garbage"), d, nil
	}
	return h.sig, d, nil
}

func (h *hostileRepo) PushSignature(context.Context, string, []byte, ocispec.Descriptor, map[string]string) (ocispec.Descriptor, ocispec.Descriptor, error) {
	return ocispec.Descriptor{}, ocispec.Descriptor{}, errors.New("hostile repository: read-only")
}

func (x *wctx) runHostileRepo(c *Case, res *Result) error {
	if len(c.Entries) != 3 {
		return fmt.Errorf("hostile-repository case without answers")
	}
	res.Nontrivial = true
	var classes []string
	for _, level := range []string{"strict", "audit"} {
		v, err := x.envVerifier(level)
		if err != nil {
			return err
		}
		repo := &hostileRepo{desc: x.fx.Desc, sig: x.fx.Sigs["oci/jws"], resolve: c.Entries[0], list: c.Entries[1], fetch: c.Entries[2], odd: digest.Digest(c.Variant)}
		ref := refRepo + "@" + x.fx.Desc.Digest.String()
		class := "panicked"
		x.call(res, c, "notation.Verify", func(stage *string) {
			class = x.judgeNotationVerify(res, c, stage, v, repo, ref)
		})
		classes = append(classes, coarse(class))
	}
	if c.Entries[0] == "ok" {
		res.class("hostile-repository:list=%s,fetch=%s:%s", c.Entries[1], c.Entries[2], strings.Join(classes, ","))
	} else {
		res.class("hostile-repository:resolve=%s:%s", c.Entries[0], strings.Join(classes, ","))
	}
	return nil
}

// ---------------------------------------------------------------------------
// family: oversized plugin output. The plugin answers with its valid response followed by N blanks (stdout) or
// exits 1 with its error followed by N blanks (stderr), for two sizes far above any answer. "Never runaway
// allocation" is judged relatively, not against the library's own cap: of the additional output between the two
// sizes, at most half may turn up as additional allocation of the call.

const (
	oversizeSmall = 160 << 20
	oversizeLarge = 480 << 20
)

func (x *wctx) runOversized(c *Case, res *Result) error {
	if err := x.installPlugin(); err != nil {
		return err
	}
	var deltas [2]uint64
	var classes [2]string
	for k, size := range []int{oversizeSmall, oversizeLarge} {
		cmds := map[string]map[string]any{}
		for _, cmd := range protoCommands {
			cmds[cmd] = map[string]any{"stdout": x.fx.PluginOut[cmd]}
		}
		if c.Variant == "stderr" {
			cmds[c.Kind] = map[string]any{"exit": 1, "stderr": x.fx.PluginOut["stderr"], "stderr_pad": size}
		} else {
			cmds[c.Kind] = map[string]any{"stdout": x.fx.PluginOut[c.Kind], "stdout_pad": size}
		}
		if err := os.WriteFile(x.plugExe+".json", mustJSON(map[string]any{"name": pluginName, "version": "1.0.0", "commands": cmds}), 0o644); err != nil {
			return err
		}
		class := "panicked"
		x.call(res, c, "plugin.CLIPlugin."+c.Kind, func(*string) {
			pl, err := plugin.NewCLIPlugin(ctx, pluginName, x.plugExe)
			if err != nil {
				class = "plugin-not-created"
				return
			}
			switch c.Kind {
			case "get-plugin-metadata":
				_, err = pl.GetMetadata(ctx, &fw.GetMetadataRequest{})
			case "describe-key":
				_, err = pl.DescribeKey(ctx, &fw.DescribeKeyRequest{KeyID: keyID})
			case "generate-signature":
				_, err = pl.GenerateSignature(ctx, &fw.GenerateSignatureRequest{KeyID: keyID, KeySpec: fw.KeySpecEC256, Hash: fw.HashAlgorithmSHA256, Payload: []byte("payload")})
			case "generate-envelope":
				_, err = pl.GenerateEnvelope(ctx, &fw.GenerateEnvelopeRequest{KeyID: keyID, PayloadType: "application/vnd.cncf.notary.payload.v1+json", SignatureEnvelopeType: mtJWS, Payload: []byte("{}")})
			case "verify-signature":
				_, err = pl.VerifySignature(ctx, &fw.VerifySignatureRequest{Signature: fw.Signature{CriticalAttributes: fw.CriticalAttributes{ContentType: "x", SigningScheme: "notary.x509"}}, TrustPolicy: fw.TrustPolicy{TrustedIdentities: []string{"*"}, SignatureVerification: []fw.Capability{fw.CapabilityTrustedIdentityVerifier}}})
			}
			if err != nil {
				_ = err.Error()
				class = "error"
			} else {
				class = "accepted"
			}
		})
		deltas[k], classes[k] = x.lastAlloc, class
		runtime.GC()
		debug.FreeOSMemory()
	}
	res.Nontrivial = true
	extraOut := uint64(oversizeLarge - oversizeSmall)
	if deltas[1] > deltas[0] && deltas[1]-deltas[0] > extraOut/2 {
		res.viol("runaway-allocation:oversized-plugin-output:"+c.Kind+":"+c.Variant, "plugin.CLIPlugin.%s: %d MiB allocated for %d MiB of plugin %s, %d MiB for %d MiB: the allocation grows with the output (more than half of the additional %d MiB) | case: %s",
			c.Kind, deltas[0]>>20, oversizeSmall>>20, c.Variant, deltas[1]>>20, oversizeLarge>>20, extraOut>>20, c.describe())
		res.class("oversized-plugin-output:%s:%s:violation", c.Kind, c.Variant)
		return nil
	}
	res.class("oversized-plugin-output:%s:%s:allocation-bounded(%s,%s)", c.Kind, c.Variant, classes[0], classes[1])
	return nil
}

// ---------------------------------------------------------------------------
// family: nil / empty / degenerate arguments (the API documents an error)

type failingReader struct{}

func (failingReader) Read([]byte) (int, error) { return 0, errors.New("harness: reader fails") }

type nilOutcomeVerifier struct{}

func (nilOutcomeVerifier) Verify(context.Context, ocispec.Descriptor, []byte, notation.VerifierVerifyOptions) (*notation.VerificationOutcome, error) {
	return nil, errors.New("harness: foreign verifier fails without outcome")
}

func (x *wctx) runNilArgs(c *Case, res *Result) error {
	v, err := x.envVerifier("strict")
	if err != nil {
		return err
	}
	repo := &mockRepo{desc: x.fx.Desc, sig: x.fx.Sigs["oci/jws"], mt: mtJWS}
	ref := refRepo + "@" + x.fx.Desc.Digest.String()
	vbo := notation.VerifyBlobOptions{BlobVerifierVerifyOptions: notation.BlobVerifierVerifyOptions{SignatureMediaType: mtJWS, TrustPolicyName: "p"}}
	sig := x.fx.Sigs["blob/jws"]
	var gotErr error
	wantErr, unknown := true, false
	x.call(res, c, c.Label, func(stage *string) {
		switch c.Label {
		case "notation.Verify:nil-verifier":
			_, _, gotErr = notation.Verify(ctx, nil, repo, notation.VerifyOptions{ArtifactReference: ref, MaxSignatureAttempts: 1})
		case "notation.Verify:nil-repository":
			_, _, gotErr = notation.Verify(ctx, v, nil, notation.VerifyOptions{ArtifactReference: ref, MaxSignatureAttempts: 1})
		case "notation.Verify:max-attempts-0":
			_, _, gotErr = notation.Verify(ctx, v, repo, notation.VerifyOptions{ArtifactReference: ref})
		case "notation.Verify:empty-reference":
			_, _, gotErr = notation.Verify(ctx, v, repo, notation.VerifyOptions{MaxSignatureAttempts: 1})
		case "notation.Verify:reference-without-tag-or-digest":
			_, _, gotErr = notation.Verify(ctx, v, repo, notation.VerifyOptions{ArtifactReference: refRepo, MaxSignatureAttempts: 1})
		case "notation.Verify:foreign-verifier-returning-nil-outcome-with-error":
			_, _, gotErr = notation.Verify(ctx, nilOutcomeVerifier{}, repo, notation.VerifyOptions{ArtifactReference: ref, MaxSignatureAttempts: 1})
		case "notation.VerifyBlob:nil-verifier":
			_, _, gotErr = notation.VerifyBlob(ctx, nil, bytes.NewReader(x.fx.Blob), sig, vbo)
		case "notation.VerifyBlob:nil-reader":
			_, _, gotErr = notation.VerifyBlob(ctx, v, nil, sig, vbo)
		case "notation.VerifyBlob:nil-signature":
			_, _, gotErr = notation.VerifyBlob(ctx, v, bytes.NewReader(x.fx.Blob), nil, vbo)
		case "notation.VerifyBlob:empty-signature":
			_, _, gotErr = notation.VerifyBlob(ctx, v, bytes.NewReader(x.fx.Blob), []byte{}, vbo)
		case "notation.VerifyBlob:bad-content-media-type":
			o := vbo
			o.ContentMediaType = "not a media type;;"
			_, _, gotErr = notation.VerifyBlob(ctx, v, bytes.NewReader(x.fx.Blob), sig, o)
		case "notation.VerifyBlob:bad-signature-media-type":
			o := vbo
			o.SignatureMediaType = "text/plain"
			_, _, gotErr = notation.VerifyBlob(ctx, v, bytes.NewReader(x.fx.Blob), sig, o)
		case "notation.VerifyBlob:failing-reader":
			var o *notation.VerificationOutcome
			_, o, gotErr = notation.VerifyBlob(ctx, v, io.Reader(failingReader{}), sig, vbo)
			touchOutcome(o, stage)
		case "verifier.NewVerifierWithOptions:nil-trust-store":
			_, gotErr = verifier.NewVerifierWithOptions(nil, verifier.VerifierOptions{OCITrustPolicy: &trustpolicy.OCIDocument{}})
		case "verifier.NewVerifierWithOptions:no-policy":
			_, gotErr = verifier.NewVerifierWithOptions(x.ts, verifier.VerifierOptions{})
		case "verifier.NewVerifierWithOptions:invalid-policy":
			_, gotErr = verifier.NewVerifierWithOptions(x.ts, verifier.VerifierOptions{OCITrustPolicy: &trustpolicy.OCIDocument{}, BlobTrustPolicy: &trustpolicy.BlobDocument{}})
		case "verifier.New:nil-policy":
			_, gotErr = verifier.New(nil, x.ts, nil)
		case "verifier.NewWithOptions:nil-policy":
			_, gotErr = verifier.NewWithOptions(nil, x.ts, nil, verifier.VerifierOptions{})
		case "verifier.NewOCIVerifierFromConfig:empty-config-dir":
			x.cleanConfig()
			_, gotErr = verifier.NewOCIVerifierFromConfig()
		case "verifier.NewBlobVerifierFromConfig:empty-config-dir":
			x.cleanConfig()
			_, gotErr = verifier.NewBlobVerifierFromConfig()
		case "verifier.Verify:zero-descriptor":
			var o *notation.VerificationOutcome
			o, gotErr = v.Verify(ctx, ocispec.Descriptor{}, x.fx.Sigs["oci/jws"], notation.VerifierVerifyOptions{ArtifactReference: ref, SignatureMediaType: mtJWS})
			touchOutcome(o, stage)
			_ = judgeVerifier(res, "verifier.Verify", c, o, gotErr, true)
		case "verifier.VerifyBlob:failing-descriptor-generator":
			var o *notation.VerificationOutcome
			o, gotErr = v.VerifyBlob(ctx, func(digest.Algorithm) (ocispec.Descriptor, error) {
				return ocispec.Descriptor{}, errors.New("harness: generator fails")
			}, sig, vbo.BlobVerifierVerifyOptions)
			touchOutcome(o, stage)
			_ = judgeVerifier(res, "verifier.VerifyBlob", c, o, gotErr, true)
		case "verifier.Verify:nil-maps-and-empty-options":
			var o *notation.VerificationOutcome
			o, gotErr = v.Verify(ctx, x.fx.Desc, x.fx.Sigs["oci/jws"], notation.VerifierVerifyOptions{})
			touchOutcome(o, stage)
			_ = judgeVerifier(res, "verifier.Verify", c, o, gotErr, false) // an empty reference selects nothing
		case "VerificationOutcome.UserMetadata:zero-outcome":
			_, gotErr = (&notation.VerificationOutcome{}).UserMetadata()
		case "VerificationOutcome.UserMetadata:non-json-payload":
			_, gotErr = (&notation.VerificationOutcome{EnvelopeContent: &signature.EnvelopeContent{Payload: signature.Payload{Content: []byte("\x00not json")}}}).UserMetadata()
		case "VerificationOutcome.UserMetadata:null-payload":
			wantErr = false
			_, gotErr = (&notation.VerificationOutcome{EnvelopeContent: &signature.EnvelopeContent{Payload: signature.Payload{Content: []byte("null")}}}).UserMetadata()
		case "signer.NewPluginSigner:nil-plugin":
			_, gotErr = signer.NewPluginSigner(nil, keyID, nil)
		case "signer.NewPluginSigner:empty-key-id":
			_, gotErr = signer.NewPluginSigner(&envPlugin{}, "", nil)
		case "plugin.NewCLIPlugin:missing-file":
			_, gotErr = plugin.NewCLIPlugin(ctx, "nope", filepath.Join(x.emptyDir, "nope"))
		case "plugin.NewCLIPlugin:directory":
			_, gotErr = plugin.NewCLIPlugin(ctx, "nope", x.emptyDir)
		case "plugin.CLIManager.Get:empty-name":
			_, gotErr = plugin.NewCLIManager(dir.NewSysFS(x.emptyDir)).Get(ctx, "")
		case "plugin.CLIManager.List:missing-directory":
			wantErr = false
			_, gotErr = plugin.NewCLIManager(dir.NewSysFS(filepath.Join(x.emptyDir, "missing"))).List(ctx)
		case "crl.NewFileCache:get-missing":
			fc, err := crl.NewFileCache(filepath.Join(x.dir, "crl-empty"))
			if err != nil {
				gotErr = err
				return
			}
			_, gotErr = fc.Get(ctx, "http://nowhere.example/x.crl")
		case "crl.FileCache.Set:nil-bundle":
			fc, err := crl.NewFileCache(filepath.Join(x.dir, "crl-empty"))
			if err != nil {
				gotErr = err
				return
			}
			gotErr = fc.Set(ctx, crlURL, nil)
		case "crl.FileCache.Get:directory-at-entry":
			root := filepath.Join(x.dir, "crl-dir")
			fc, err := crl.NewFileCache(root)
			if err != nil {
				gotErr = err
				return
			}
			_ = os.MkdirAll(filepath.Join(root, digest.FromString(crlURL).Encoded()), 0o755)
			_, gotErr = fc.Get(ctx, crlURL)
		case "registry.NewOCIRepository:missing-path":
			_, gotErr = registry.NewOCIRepository(filepath.Join(x.dir, "no-such-layout"), registry.RepositoryOptions{})
		case "registry.NewOCIRepository:file-path":
			p := filepath.Join(x.dir, "a-file")
			_ = os.WriteFile(p, []byte("x"), 0o644)
			_, gotErr = registry.NewOCIRepository(p, registry.RepositoryOptions{})
		case "registry.NewOCIRepository:empty-directory":
			wantErr = false
			p := filepath.Join(x.dir, "empty-layout")
			_ = os.MkdirAll(p, 0o755)
			var r registry.Repository
			r, gotErr = registry.NewOCIRepository(p, registry.RepositoryOptions{})
			if gotErr == nil {
				_, _ = r.Resolve(ctx, refTag)
			}
			_ = os.RemoveAll(p)
		case "registry.Repository.FetchSignatureBlob:zero-descriptor", "registry.Repository.ListSignatures:zero-descriptor":
			p := filepath.Join(x.dir, "empty-layout2")
			_ = os.MkdirAll(p, 0o755)
			defer os.RemoveAll(p)
			r, err := registry.NewOCIRepository(p, registry.RepositoryOptions{})
			if err != nil {
				gotErr = err
				return
			}
			if strings.Contains(c.Label, "Fetch") {
				_, _, gotErr = r.FetchSignatureBlob(ctx, ocispec.Descriptor{})
			} else {
				wantErr = false
				gotErr = r.ListSignatures(ctx, ocispec.Descriptor{}, func([]ocispec.Descriptor) error { return nil })
			}
		default:
			unknown = true
		}
		if gotErr != nil {
			_ = gotErr.Error()
		}
	})
	if unknown {
		return fmt.Errorf("unknown nil-argument case %q", c.Label)
	}
	res.Nontrivial = true
	switch {
	case gotErr != nil:
		res.class("nil-arguments:error-returned")
	case wantErr:
		// the statement demands a normal return (no panic), not an error
		res.class("recorded:nil-arguments/no-error:%s", c.Label)
	default:
		res.class("nil-arguments:returned-normally")
	}
	return nil
}

// settle waits until the goroutines the case started are gone (bounded). oras-go indexes a layout on goroutines
// of its own (syncutil.Go); the call returns at the first error while the others still run, and what they do
// (allocate, panic) must be charged to THIS case, not to the next one of the batch.
func settle(baseline int, min, max time.Duration) {
	start := time.Now()
	for {
		el := time.Since(start)
		if el >= max || (el >= min && runtime.NumGoroutine() <= baseline) {
			return
		}
		time.Sleep(time.Millisecond)
	}
}

// runSettled executes one case, waits for its stray goroutines and meters the whole case.
func (x *wctx) runSettled(c *Case, isolated bool) (*Result, error) {
	baseline := runtime.NumGoroutine()
	var m0, m1 runtime.MemStats
	runtime.ReadMemStats(&m0)
	res, err := x.run(c)
	if isolated {
		settle(baseline, time.Second, 20*time.Second)
	} else if runtime.NumGoroutine() > baseline {
		settle(baseline, 0, 10*time.Second)
	}
	if res != nil {
		res.Isolated = isolated
		runtime.ReadMemStats(&m1)
		d := m1.TotalAlloc - m0.TotalAlloc
		calls := uint64(res.Evals)
		if calls == 0 {
			calls = 1
		}
		if d > allocCeiling*calls && len(c.Input) <= smallInput && !c.BigInput {
			already := false
			for _, v := range res.Viols {
				if strings.HasPrefix(v.Key, "runaway-allocation") {
					already = true
				}
			}
			if !already {
				res.viol(allocKey(c), "the case allocated %d MiB in %d calls including the goroutines it left behind (ceiling %d MiB per call) for an input of %d bytes | case: %s", d>>20, calls, allocCeiling>>20, len(c.Input), c.describe())
			}
		}
	}
	return res, err
}

// run executes one case.
func (x *wctx) run(c *Case) (*Result, error) {
	res := &Result{I: c.I}
	c.materialise(x.fx)
	var err error
	switch c.Family {
	case "config-matrix":
		x.runMatrix(c, res)
	case "reader-seam":
		err = x.runReaderSeam(c, res)
	case "nil-arguments":
		err = x.runNilArgs(c, res)
	case "envelope-byte-mutation", "envelope-json-node":
		err = x.runEnvelope(c, res)
	case "json-node", "crl-der-byte-mutation", "document-byte-mutation":
		err = x.runDocument(c, res)
	case "oci-layout", "oci-layout-byte-mutation":
		err = x.runLayout(c, res)
	case "plugin-output":
		err = x.runPlugin(c, res)
	case "oversized-plugin-output":
		err = x.runOversized(c, res)
	case "hostile-repository":
		err = x.runHostileRepo(c, res)
	default:
		err = fmt.Errorf("unknown family %q", c.Family)
	}
	return res, err
}
