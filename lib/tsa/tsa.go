// Package tsa is an offline RFC 3161 time-stamping authority: it builds
// TimeStampTokens (CMS SignedData over a TSTInfo with the signed attributes
// contentType, messageDigest, signingTime, signingCertificateV2) with
// encoding/asn1 only, for any message, generation time, accuracy and TSA chain.
package tsa

import (
	"crypto"
	"crypto/rand"
	"crypto/rsa"
	"crypto/sha256"
	"crypto/x509"
	"crypto/x509/pkix"
	"encoding/asn1"
	"math/big"
	"time"

	"github.com/notaryproject/notation-go/zzverif/lib/pki"
)

var (
	oidSignedData  = asn1.ObjectIdentifier{1, 2, 840, 113549, 1, 7, 2}
	oidTSTInfo     = asn1.ObjectIdentifier{1, 2, 840, 113549, 1, 9, 16, 1, 4}
	oidContentType = asn1.ObjectIdentifier{1, 2, 840, 113549, 1, 9, 3}
	oidMsgDigest   = asn1.ObjectIdentifier{1, 2, 840, 113549, 1, 9, 4}
	oidSigningTime = asn1.ObjectIdentifier{1, 2, 840, 113549, 1, 9, 5}
	oidSignCertV2  = asn1.ObjectIdentifier{1, 2, 840, 113549, 1, 9, 16, 2, 47}
	oidSHA256      = asn1.ObjectIdentifier{2, 16, 840, 1, 101, 3, 4, 2, 1}
	oidSHA256RSA   = asn1.ObjectIdentifier{1, 2, 840, 113549, 1, 1, 11}
	oidPolicy      = asn1.ObjectIdentifier{1, 3, 6, 1, 4, 1, 4146, 2, 3}
)

type contentInfo struct {
	ContentType asn1.ObjectIdentifier
	Content     asn1.RawValue `asn1:"explicit,tag:0"`
}
type signedData struct {
	Version      int
	DigestAlgs   []pkix.AlgorithmIdentifier `asn1:"set"`
	Encap        encap
	Certificates asn1.RawValue `asn1:"optional,tag:0"`
	SignerInfos  []signerInfo  `asn1:"set"`
}
type encap struct {
	ContentType asn1.ObjectIdentifier
	Content     []byte `asn1:"explicit,optional,tag:0"`
}
type issuerAndSerial struct {
	Issuer asn1.RawValue
	Serial *big.Int
}
type attribute struct {
	Type   asn1.ObjectIdentifier
	Values asn1.RawValue `asn1:"set"`
}
type signerInfo struct {
	Version     int
	SID         issuerAndSerial
	DigestAlg   pkix.AlgorithmIdentifier
	SignedAttrs []attribute `asn1:"optional,tag:0"`
	SigAlg      pkix.AlgorithmIdentifier
	Signature   []byte
}
type essCertIDv2 struct {
	HashAlgorithm pkix.AlgorithmIdentifier `asn1:"optional"`
	CertHash      []byte
}
type signingCertV2 struct {
	Certs []essCertIDv2
}
type messageImprint struct {
	HashAlgorithm pkix.AlgorithmIdentifier
	HashedMessage []byte
}
type accuracy struct {
	Seconds      int `asn1:"optional"`
	Milliseconds int `asn1:"optional,tag:0"`
	Microseconds int `asn1:"optional,tag:1"`
}
type tstInfo struct {
	Version        int
	Policy         asn1.ObjectIdentifier
	MessageImprint messageImprint
	SerialNumber   *big.Int
	GenTime        time.Time `asn1:"generalized"`
	Accuracy       accuracy  `asn1:"optional"`
}

func raw(v interface{}, params string) asn1.RawValue {
	b, err := asn1.MarshalWithParams(v, params)
	if err != nil {
		panic(err)
	}
	var r asn1.RawValue
	if _, err := asn1.UnmarshalWithParams(b, &r, params); err != nil {
		panic(err)
	}
	return r
}

// Authority is a TSA: root CA and time-stamping leaf (RSA-2048 keys from the pki cache).
type Authority struct {
	Root *pki.Cert
	Leaf *pki.Cert
}

// LeafKind selects the shape of the TSA leaf certificate.
type LeafKind int

const (
	LeafProper         LeafKind = iota // critical EKU = {timeStamping}, digitalSignature
	LeafEKUNotCritical                 // EKU timeStamping but not critical
	LeafCodeSigning                    // EKU codeSigning (mis-purposed)
)

// New creates an authority. idx selects the key pair set (different idx: unrelated authority).
// The certificates are valid from notBefore to notAfter.
func New(name string, idx int, kind LeafKind, notBefore, notAfter time.Time) *Authority {
	root := pki.Make(pki.Tmpl{Subject: pkix.Name{CommonName: name + " tsa root", Organization: []string{"Verif"}, Country: []string{"US"}, Province: []string{"WA"}}, CA: true, PathLen: -1, NotBefore: notBefore, NotAfter: notAfter}, pki.Key(pki.RSA2048, 200+2*idx), nil)
	t := pki.Tmpl{Subject: pkix.Name{CommonName: name + " tsa", Organization: []string{"Verif"}, Country: []string{"US"}, Province: []string{"WA"}}, NotBefore: notBefore, NotAfter: notAfter, KeyUsage: x509.KeyUsageDigitalSignature}
	switch kind {
	case LeafProper:
		t.EKU = []x509.ExtKeyUsage{x509.ExtKeyUsageTimeStamping}
		t.EKUCritical = true
	case LeafEKUNotCritical:
		t.EKU = []x509.ExtKeyUsage{x509.ExtKeyUsageTimeStamping}
	case LeafCodeSigning:
		t.EKU = []x509.ExtKeyUsage{x509.ExtKeyUsageCodeSigning}
	}
	leaf := pki.Make(t, pki.Key(pki.RSA2048, 201+2*idx), root)
	return &Authority{Root: root, Leaf: leaf}
}

// Opts of one token.
type Opts struct {
	Message         []byte // what is time-stamped (the envelope's signature value)
	GenTime         time.Time
	AccuracySeconds int  // 0: field absent (the baseline policy then means 1 s)
	WrongImprint    bool // imprint of another message
}

// Token returns the DER TimeStampToken (a CMS ContentInfo).
func (a *Authority) Token(o Opts) []byte {
	msg := o.Message
	if o.WrongImprint {
		msg = append([]byte("another signature value:"), msg...)
	}
	md := sha256.Sum256(msg)
	info := tstInfo{
		Version:        1,
		Policy:         oidPolicy,
		MessageImprint: messageImprint{HashAlgorithm: pkix.AlgorithmIdentifier{Algorithm: oidSHA256}, HashedMessage: md[:]},
		SerialNumber:   big.NewInt(42),
		GenTime:        o.GenTime.UTC().Truncate(time.Second),
		Accuracy:       accuracy{Seconds: o.AccuracySeconds},
	}
	infoBytes, err := asn1.Marshal(info)
	if err != nil {
		panic(err)
	}
	var issuer asn1.RawValue
	if _, err := asn1.Unmarshal(a.Leaf.Cert.RawIssuer, &issuer); err != nil {
		panic(err)
	}
	infoDigest := sha256.Sum256(infoBytes)
	certHash := sha256.Sum256(a.Leaf.Cert.Raw)
	attrs := []attribute{
		{Type: oidContentType, Values: raw([]interface{}{oidTSTInfo}, "set")},
		{Type: oidMsgDigest, Values: raw([]interface{}{infoDigest[:]}, "set")},
		{Type: oidSigningTime, Values: raw([]interface{}{o.GenTime.UTC()}, "set")},
		{Type: oidSignCertV2, Values: raw([]interface{}{signingCertV2{Certs: []essCertIDv2{{CertHash: certHash[:]}}}}, "set")},
	}
	encAttrs, err := asn1.MarshalWithParams(attrs, "set")
	if err != nil {
		panic(err)
	}
	h := sha256.Sum256(encAttrs)
	sig, err := rsa.SignPKCS1v15(rand.Reader, a.Leaf.Key.(*rsa.PrivateKey), crypto.SHA256, h[:])
	if err != nil {
		panic(err)
	}
	sd := signedData{
		Version:      3,
		DigestAlgs:   []pkix.AlgorithmIdentifier{{Algorithm: oidSHA256}},
		Encap:        encap{ContentType: oidTSTInfo, Content: infoBytes},
		Certificates: raw(append(append([]byte{}, a.Leaf.Cert.Raw...), a.Root.Cert.Raw...), "tag:0"),
		SignerInfos: []signerInfo{{Version: 1, SID: issuerAndSerial{Issuer: issuer, Serial: a.Leaf.Cert.SerialNumber},
			DigestAlg: pkix.AlgorithmIdentifier{Algorithm: oidSHA256}, SignedAttrs: attrs,
			SigAlg: pkix.AlgorithmIdentifier{Algorithm: oidSHA256RSA}, Signature: sig}},
	}
	ci := contentInfo{ContentType: oidSignedData, Content: raw(sd, "explicit,tag:0")}
	out, err := asn1.Marshal(ci)
	if err != nil {
		panic(err)
	}
	return out
}
