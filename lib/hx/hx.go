// Package hx is the small runtime shared by all harnesses: tier/seed/replay
// handling, coverage counters, violation reporting with replay artefacts,
// known-finding matching and the evidence file.
package hx

import (
	"bufio"
	"crypto/sha256"
	"encoding/hex"
	"encoding/json"
	"fmt"
	"os"
	"path/filepath"
	"runtime"
	"runtime/debug"
	"sort"
	"strconv"
	"strings"
	"sync"
	"sync/atomic"
	"time"
)

// Scratch returns a per-run scratch directory (tmpfs when the check script provides one).
func Scratch() string {
	if d := os.Getenv("VERIF_SCRATCH"); d != "" {
		_ = os.MkdirAll(d, 0o755)
		return d
	}
	d, err := os.MkdirTemp("", "verif-scratch-")
	if err != nil {
		panic(err)
	}
	return d
}

// Plugbin is the path of the scripted plugin executable built by the check script.
func Plugbin() string {
	if p := os.Getenv("VERIF_PLUGBIN"); p != "" {
		return p
	}
	return filepath.Join(VerifDir(), "build", "bin", "plugbin")
}

// VerifDir is the root of the verification tree.
func VerifDir() string {
	if d := os.Getenv("VERIF_DIR"); d != "" {
		return d
	}
	return "/verif"
}

// RepoDir is the repository under verification.
func RepoDir() string {
	if d := os.Getenv("VERIF_REPO"); d != "" {
		return d
	}
	return "/repo"
}

type finding struct {
	glob string
	text string
	hit  int64
}

// Run collects what one check execution covered.
type Run struct {
	ID      string
	Tier    string
	Seed    int64
	Level   string
	Replay  string // path of a replay file, "" when exploring
	Rule    string
	Explain string

	Assumptions []string
	Extra       map[string]any
	Exhaustive  bool
	CapNote     string // non-empty: a cap/deadline was hit, what was fully covered below it

	start time.Time

	evaluations atomic.Int64
	states      atomic.Int64
	transitions atomic.Int64
	traces      atomic.Int64

	mu         sync.Mutex
	distinct   map[[16]byte]struct{}
	outcomes   map[string]int64
	samples    []any
	sampleSeen int64
	violKeys   map[string]int
	violFiles  []string
	findings   []*finding
	infraErr   []string
	deadline   time.Time
}

// New parses the command line (`--tier quick|thorough`, `--replay file`) and
// environment (VERIF_SEED, VERIF_TIER) and loads KNOWN_FINDINGS.txt.
func New(id string) *Run {
	r := &Run{ID: id, Tier: "quick", Level: "model_checking", start: time.Now(),
		distinct: map[[16]byte]struct{}{}, outcomes: map[string]int64{}, violKeys: map[string]int{},
		Extra: map[string]any{}, Exhaustive: true}
	if t := os.Getenv("VERIF_TIER"); t == "quick" || t == "thorough" {
		r.Tier = t
	}
	if s := os.Getenv("VERIF_SEED"); s != "" {
		if v, err := strconv.ParseInt(s, 10, 64); err == nil {
			r.Seed = v
		}
	}
	args := os.Args[1:]
	for i := 0; i < len(args); i++ {
		switch args[i] {
		case "--tier":
			if i+1 < len(args) {
				r.Tier = args[i+1]
				i++
			}
		case "--replay":
			if i+1 < len(args) {
				r.Replay = args[i+1]
				i++
			}
		case "quick", "thorough":
			r.Tier = args[i]
		}
	}
	if r.Tier != "quick" && r.Tier != "thorough" {
		r.Tier = "quick"
	}
	r.loadFindings()
	// the harnesses allocate heavily (certificate parsing); memory is plentiful, GC time is not
	if os.Getenv("GOGC") == "" {
		debug.SetGCPercent(800)
	}
	return r
}

func (r *Run) Thorough() bool { return r.Tier == "thorough" }

// SetDeadline installs an internal deadline; Expired() turns true after it and
// the harness is expected to stop enumerating, call Capped and finish.
// The budget is scaled by BudgetScale(): internal deadlines exist to bound the run on an idle 16-core machine, not to
// cut an exhaustive enumeration short because the machine is shared.
func (r *Run) SetDeadline(d time.Duration) {
	r.deadline = r.start.Add(Budget(d))
	if f := BudgetScale(); f != 1 {
		r.mu.Lock()
		r.Extra["budget_scale"] = fmt.Sprintf("%.2f (internal deadlines stretched: machine load / VERIF_BUDGET_SCALE)", f)
		r.mu.Unlock()
	}
}

var (
	scaleOnce sync.Once
	scale     = 1.0
)

// BudgetScale is VERIF_BUDGET_SCALE when set (> 0), otherwise the 1-minute load average per CPU at start-up,
// clamped to [1, 4]. The enumeration bounds never depend on it, only how long a run may take before it gives up
// and reports exhaustive:false.
func BudgetScale() float64 {
	scaleOnce.Do(func() {
		if f, err := strconv.ParseFloat(os.Getenv("VERIF_BUDGET_SCALE"), 64); err == nil && f > 0 {
			scale = f
			return
		}
		b, err := os.ReadFile("/proc/loadavg")
		if err != nil {
			return
		}
		fs := strings.Fields(string(b))
		if len(fs) == 0 {
			return
		}
		l, err := strconv.ParseFloat(fs[0], 64)
		if err != nil {
			return
		}
		f := l / float64(runtime.NumCPU())
		if f > 4 {
			f = 4
		}
		if f > 1 {
			scale = f
		}
	})
	return scale
}

// Overloaded reports whether the machine is, right now, oversubscribed beyond what Budget() compensates for (1-minute
// load average above 6 per CPU). A clause that measures elapsed time must not be judged then: record it instead.
func Overloaded() bool {
	b, err := os.ReadFile("/proc/loadavg")
	if err != nil {
		return false
	}
	fs := strings.Fields(string(b))
	if len(fs) == 0 {
		return false
	}
	l, err := strconv.ParseFloat(fs[0], 64)
	return err == nil && l/float64(runtime.NumCPU()) > 6
}

// Budget stretches a wall-clock allowance by BudgetScale().
func Budget(d time.Duration) time.Duration { return time.Duration(float64(d) * BudgetScale()) }
func (r *Run) Expired() bool               { return !r.deadline.IsZero() && time.Now().After(r.deadline) }

// Capped records that the space was not enumerated completely.
func (r *Run) Capped(note string) {
	r.mu.Lock()
	r.Exhaustive = false
	if r.CapNote == "" {
		r.CapNote = note
	} else if !strings.Contains(r.CapNote, note) {
		r.CapNote += "; " + note
	}
	r.mu.Unlock()
}

func (r *Run) loadFindings() {
	f, err := os.Open(filepath.Join(VerifDir(), "KNOWN_FINDINGS.txt"))
	if err != nil {
		return
	}
	defer f.Close()
	sc := bufio.NewScanner(f)
	for sc.Scan() {
		line := strings.TrimSpace(sc.Text())
		if !strings.HasPrefix(line, "finding:") {
			continue // comments and "fixed:" lines suppress nothing
		}
		rest := strings.TrimSpace(strings.TrimPrefix(line, "finding:"))
		fields := strings.Fields(rest)
		if len(fields) < 2 || fields[0] != "property="+r.ID || !strings.HasPrefix(fields[1], "key=") {
			continue
		}
		glob := strings.TrimPrefix(fields[1], "key=")
		text := strings.TrimSpace(strings.SplitN(rest, fields[1], 2)[1])
		r.findings = append(r.findings, &finding{glob: glob, text: text})
	}
}

// Eval counts n executions of real code.
func (r *Run) Eval(n int)         { r.evaluations.Add(int64(n)) }
func (r *Run) State(n int)        { r.states.Add(int64(n)) }
func (r *Run) Transition(n int)   { r.transitions.Add(int64(n)) }
func (r *Run) Trace(n int)        { r.traces.Add(int64(n)) }
func (r *Run) Evaluations() int64 { return r.evaluations.Load() }

// Outcome adds one observation to the outcome-class histogram.
func (r *Run) Outcome(class string) {
	r.mu.Lock()
	r.outcomes[class]++
	r.mu.Unlock()
}

// Nontrivial records a case that is non-trivial by the harness's rule; distinct
// keys are counted.
func (r *Run) Nontrivial(key string) {
	h := sha256.Sum256([]byte(key))
	var k [16]byte
	copy(k[:], h[:16])
	r.mu.Lock()
	r.distinct[k] = struct{}{}
	r.mu.Unlock()
}

// Sample offers a case for the evidence file; at most 5 are kept, chosen by a
// deterministic function of the seed and the arrival index.
func (r *Run) Sample(v any) {
	r.mu.Lock()
	defer r.mu.Unlock()
	r.sampleSeen++
	if len(r.samples) < 5 {
		r.samples = append(r.samples, v)
		return
	}
	// deterministic reservoir: xorshift of (seed, index)
	x := uint64(r.Seed)*0x9E3779B97F4A7C15 + uint64(r.sampleSeen)*0xBF58476D1CE4E5B9
	x ^= x >> 31
	x *= 0x94D049BB133111EB
	x ^= x >> 29
	if j := x % uint64(r.sampleSeen); j < 5 {
		r.samples[j] = v
	}
}

// Infra records an infrastructure problem (harness cannot judge): exit code 2,
// never a VIOLATION line.
func (r *Run) Infra(format string, a ...any) {
	r.mu.Lock()
	r.infraErr = append(r.infraErr, fmt.Sprintf(format, a...))
	r.mu.Unlock()
}

func globMatch(glob, s string) bool {
	// '*' matches any run of characters; everything else is literal.
	parts := strings.Split(glob, "*")
	if len(parts) == 1 {
		return glob == s
	}
	if !strings.HasPrefix(s, parts[0]) {
		return false
	}
	s = s[len(parts[0]):]
	for i := 1; i < len(parts)-1; i++ {
		j := strings.Index(s, parts[i])
		if j < 0 {
			return false
		}
		s = s[j+len(parts[i]):]
	}
	return strings.HasSuffix(s, parts[len(parts)-1])
}

// Violation reports a property violation. key is the stable class of the
// failing case (what KNOWN_FINDINGS.txt is matched against, no blanks), what is
// a human sentence, replay is the JSON-serialisable case that `--replay`
// understands. The first case of every key is written out and printed.
func (r *Run) Violation(key, what string, replay any) {
	key = strings.ReplaceAll(key, " ", "_")
	r.mu.Lock()
	defer r.mu.Unlock()
	for _, f := range r.findings {
		if globMatch(f.glob, key) {
			f.hit++
			return
		}
	}
	r.violKeys[key]++
	if r.violKeys[key] > 1 {
		return
	}
	if len(r.violKeys) > 40 {
		return // counted, not printed
	}
	h := sha256.Sum256([]byte(key))
	dir := filepath.Join(VerifDir(), "violations", r.ID)
	if d := os.Getenv("VERIF_VIOLATIONS_DIR"); d != "" {
		dir = filepath.Join(d, r.ID) // mutation self-tests keep their artefacts out of /verif
	}
	_ = os.MkdirAll(dir, 0o755)
	path := filepath.Join(dir, hex.EncodeToString(h[:6])+".json")
	body, err := json.MarshalIndent(map[string]any{"property": r.ID, "key": key, "what": what, "case": replay}, "", " ")
	if err != nil {
		body, _ = json.MarshalIndent(map[string]any{"property": r.ID, "key": key, "what": what, "case": fmt.Sprintf("%+v", replay)}, "", " ")
	}
	_ = os.WriteFile(path, body, 0o644)
	r.violFiles = append(r.violFiles, path)
	if len(what) > 400 {
		what = what[:400] + "…"
	}
	what = strings.ReplaceAll(what, "\n", " ")
	fmt.Printf("VIOLATION property=%s replay=%s key=%s :: %s\n", r.ID, path, key, what)
}

// Violations returns the number of distinct violation keys so far.
func (r *Run) Violations() int {
	r.mu.Lock()
	defer r.mu.Unlock()
	return len(r.violKeys)
}

// LoadReplay reads the "case" member of a replay file into v.
func (r *Run) LoadReplay(v any) error {
	b, err := os.ReadFile(r.Replay)
	if err != nil {
		return err
	}
	var w struct {
		Case json.RawMessage `json:"case"`
	}
	if err := json.Unmarshal(b, &w); err != nil {
		return err
	}
	return json.Unmarshal(w.Case, v)
}

// Parallel runs f(i) for i in [0,n) on all cores. A panic inside f is handed
// to onPanic (with the stack) and does not stop the other cases.
func (r *Run) Parallel(n int, f func(i int), onPanic func(i int, v any, stack string)) {
	workers := runtime.GOMAXPROCS(0)
	if w := os.Getenv("VERIF_WORKERS"); w != "" {
		if x, err := strconv.Atoi(w); err == nil && x > 0 {
			workers = x
		}
	}
	if workers > n {
		workers = n
	}
	var next atomic.Int64
	var wg sync.WaitGroup
	for w := 0; w < workers; w++ {
		wg.Add(1)
		go func() {
			defer wg.Done()
			for {
				i := int(next.Add(1) - 1)
				if i >= n {
					return
				}
				func() {
					defer func() {
						if v := recover(); v != nil {
							st := string(debug.Stack())
							if onPanic != nil {
								onPanic(i, v, st)
							} else {
								r.Infra("panic in case %d: %v\n%s", i, v, st)
							}
						}
					}()
					f(i)
				}()
			}
		}()
	}
	wg.Wait()
}

// Finish writes the evidence file, prints the summary and exits.
func (r *Run) Finish() {
	wall := time.Since(r.start).Seconds()
	r.mu.Lock()
	classes := make([]string, 0, len(r.outcomes))
	for k := range r.outcomes {
		classes = append(classes, k)
	}
	sort.Strings(classes)
	hist := map[string]int64{}
	for _, k := range classes {
		hist[k] = r.outcomes[k]
	}
	nviol := len(r.violKeys)
	var violTotal int
	for _, c := range r.violKeys {
		violTotal += c
	}
	samples := r.samples
	if len(samples) == 0 {
		samples = []any{"(no sample recorded)"}
	}
	ev := r.evaluations.Load()
	st, tr, tv := r.states.Load(), r.transitions.Load(), r.traces.Load()
	if st == 0 {
		st = int64(len(r.distinct))
	}
	if tr == 0 {
		tr = ev
	}
	if tv == 0 {
		tv = ev
	}
	cov := map[string]any{
		"evaluations":                   ev,
		"distinct_nontrivial":           len(r.distinct),
		"rule":                          r.Rule,
		"samples":                       samples,
		"states":                        st,
		"transitions":                   tr,
		"traces_validated_against_impl": tv,
		"exhaustive":                    r.Exhaustive,
		"outcome_classes":               hist,
		"distinct_outcome_classes":      len(hist),
	}
	if r.Explain != "" {
		cov["explanation"] = r.Explain
	}
	if r.CapNote != "" {
		cov["cap"] = r.CapNote
	}
	for k, v := range r.Extra {
		cov[k] = v
	}
	var known []string
	for _, f := range r.findings {
		if f.hit > 0 {
			known = append(known, fmt.Sprintf("%s (%d cases)", f.glob, f.hit))
		}
	}
	if len(known) > 0 {
		cov["known_findings_hit"] = known
	}
	evd := map[string]any{
		"property_id": r.ID,
		"tier":        r.Tier,
		"seed":        r.Seed,
		"level":       r.Level,
		"coverage":    cov,
		"assumptions": r.Assumptions,
		"wall_s":      wall,
		"violations":  nviol,
	}
	infra := append([]string(nil), r.infraErr...)
	findings := r.findings
	r.mu.Unlock()

	if r.Replay == "" {
		dir := filepath.Join(VerifDir(), "evidence")
		if d := os.Getenv("VERIF_EVIDENCE_DIR"); d != "" {
			dir = d // mutation self-tests must not overwrite the evidence of the unchanged tree
		}
		_ = os.MkdirAll(dir, 0o755)
		b, err := json.MarshalIndent(evd, "", " ")
		if err != nil {
			fmt.Fprintf(os.Stderr, "evidence marshal: %v\n", err)
			os.Exit(2)
		}
		if err := os.WriteFile(filepath.Join(dir, r.ID+".json"), append(b, '\n'), 0o644); err != nil {
			fmt.Fprintf(os.Stderr, "evidence write: %v\n", err)
			os.Exit(2)
		}
	}
	for _, f := range findings {
		if f.hit > 0 {
			fmt.Printf("KNOWN-FINDING: property=%s %s [key=%s, %d cases]\n", r.ID, f.text, f.glob, f.hit)
		}
	}
	fmt.Printf("SUMMARY property=%s tier=%s evaluations=%d distinct_nontrivial=%d states=%d transitions=%d outcome_classes=%d exhaustive=%v violations=%d(%d cases) wall=%.1fs\n",
		r.ID, r.Tier, ev, len(r.distinct), st, tr, len(hist), r.Exhaustive, nviol, violTotal, wall)
	for _, k := range classes {
		fmt.Printf("  outcome %-60s %d\n", k, hist[k])
	}
	if len(infra) > 0 {
		for i, e := range infra {
			if i < 10 {
				fmt.Fprintf(os.Stderr, "INFRA-ERROR property=%s %s\n", r.ID, e)
			}
		}
		if nviol == 0 {
			os.Exit(2)
		}
		// a violation is a concrete, replayable failing case on the real code: it stands even if another part of the
		// run could not be judged
	}
	if nviol > 0 {
		os.Exit(1)
	}
	os.Exit(0)
}
