// Package vt has helpers shared by the verifier harnesses: the table of
// reachable enforcement maps, policy document builders and outcome accessors.
package vt

import (
	"fmt"
	"sort"
	"strings"

	"github.com/notaryproject/notation-go"
	"github.com/notaryproject/notation-go/verifier/trustpolicy"
)

type T = trustpolicy.ValidationType
type A = trustpolicy.ValidationAction

var Types = []T{trustpolicy.TypeIntegrity, trustpolicy.TypeAuthenticity, trustpolicy.TypeAuthenticTimestamp, trustpolicy.TypeExpiry, trustpolicy.TypeRevocation}

// named base levels, written out here (not read from the code under test)
var baseMaps = map[string]map[T]A{
	"strict":     {trustpolicy.TypeIntegrity: "enforce", trustpolicy.TypeAuthenticity: "enforce", trustpolicy.TypeAuthenticTimestamp: "enforce", trustpolicy.TypeExpiry: "enforce", trustpolicy.TypeRevocation: "enforce"},
	"permissive": {trustpolicy.TypeIntegrity: "enforce", trustpolicy.TypeAuthenticity: "enforce", trustpolicy.TypeAuthenticTimestamp: "log", trustpolicy.TypeExpiry: "log", trustpolicy.TypeRevocation: "log"},
	"audit":      {trustpolicy.TypeIntegrity: "enforce", trustpolicy.TypeAuthenticity: "log", trustpolicy.TypeAuthenticTimestamp: "log", trustpolicy.TypeExpiry: "log", trustpolicy.TypeRevocation: "log"},
}

// Level is one way of reaching an enforcement map through a policy statement.
type Level struct {
	Base     string
	Override map[T]A
	Map      map[T]A // the expected effective enforcement map (oracle side)
}

func (l Level) String() string {
	var parts []string
	for _, t := range Types[1:] {
		parts = append(parts, fmt.Sprintf("%s=%s", shortType(t), l.Map[t]))
	}
	return l.Base + "{" + strings.Join(parts, ",") + "}"
}

func shortType(t T) string {
	switch t {
	case trustpolicy.TypeAuthenticity:
		return "auth"
	case trustpolicy.TypeAuthenticTimestamp:
		return "ts"
	case trustpolicy.TypeExpiry:
		return "exp"
	case trustpolicy.TypeRevocation:
		return "rev"
	}
	return string(t)
}

// SV renders the level as the policy's signatureVerification block.
func (l Level) SV() trustpolicy.SignatureVerification {
	sv := trustpolicy.SignatureVerification{VerificationLevel: l.Base}
	if len(l.Override) > 0 {
		sv.Override = map[T]A{}
		for k, v := range l.Override {
			sv.Override[k] = v
		}
	}
	return sv
}

// Levels returns every (base, override) pair that reaches each of the 24
// non-skip enforcement maps: 3 bases x 24 maps = 72 ways. The override is the
// minimal difference between the base and the target map.
func Levels() []Level {
	var out []Level
	acts2 := []A{"enforce", "log"}
	acts3 := []A{"enforce", "log", "skip"}
	for _, base := range []string{"strict", "permissive", "audit"} {
		for _, au := range acts2 {
			for _, ts := range acts2 {
				for _, ex := range acts2 {
					for _, rv := range acts3 {
						target := map[T]A{trustpolicy.TypeIntegrity: "enforce", trustpolicy.TypeAuthenticity: au, trustpolicy.TypeAuthenticTimestamp: ts, trustpolicy.TypeExpiry: ex, trustpolicy.TypeRevocation: rv}
						ov := map[T]A{}
						for _, t := range Types[1:] {
							if baseMaps[base][t] != target[t] {
								ov[t] = target[t]
							}
						}
						out = append(out, Level{Base: base, Override: ov, Map: target})
					}
				}
			}
		}
	}
	return out
}

// Levels24 returns one way per enforcement map, rotating the base level.
func Levels24() []Level {
	all := Levels()
	var out []Level
	for i := 0; i < 24; i++ {
		out = append(out, all[(i%3)*24+i])
	}
	return out
}

// Named returns the three named non-skip levels without overrides.
func Named() []Level {
	var out []Level
	for _, b := range []string{"strict", "permissive", "audit"} {
		out = append(out, Level{Base: b, Map: baseMaps[b]})
	}
	return out
}

// LE reports whether map a is pointwise at most as strict as b (enforce > log > skip).
func LE(a, b map[T]A) bool {
	rank := map[A]int{"skip": 0, "log": 1, "enforce": 2}
	for _, t := range Types {
		if rank[a[t]] > rank[b[t]] {
			return false
		}
	}
	return true
}

// OCIDoc builds a one-statement OCI policy document with wildcard scope.
func OCIDoc(sv trustpolicy.SignatureVerification, stores, identities []string) *trustpolicy.OCIDocument {
	return &trustpolicy.OCIDocument{Version: "1.0", TrustPolicies: []trustpolicy.OCITrustPolicy{{
		Name: "p", SignatureVerification: sv, TrustStores: stores, TrustedIdentities: identities, RegistryScopes: []string{"*"},
	}}}
}

// BlobDoc builds a blob policy document with a named statement "p" that is also global.
func BlobDoc(sv trustpolicy.SignatureVerification, stores, identities []string) *trustpolicy.BlobDocument {
	return &trustpolicy.BlobDocument{Version: "1.0", TrustPolicies: []trustpolicy.BlobTrustPolicy{{
		Name: "p", SignatureVerification: sv, TrustStores: stores, TrustedIdentities: identities, GlobalPolicy: true,
	}}}
}

// ResultOf returns the results of the given type in an outcome.
func ResultOf(o *notation.VerificationOutcome, t T) []*notation.ValidationResult {
	var out []*notation.ValidationResult
	if o == nil {
		return nil
	}
	for _, r := range o.VerificationResults {
		if r != nil && r.Type == t {
			out = append(out, r)
		}
	}
	return out
}

// MapString renders a string map deterministically.
func MapString(m map[string]string) string {
	keys := make([]string, 0, len(m))
	for k := range m {
		keys = append(keys, k)
	}
	sort.Strings(keys)
	var sb strings.Builder
	sb.WriteString("{")
	for i, k := range keys {
		if i > 0 {
			sb.WriteString(",")
		}
		sb.WriteString(k + ":" + m[k])
	}
	sb.WriteString("}")
	return sb.String()
}
