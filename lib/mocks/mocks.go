// Package mocks holds scripted, logging implementations of the verifier's
// collaborators: trust store, revocation validator/client, plugin manager and
// plugin. Every mock appends to a call log the oracles read.
package mocks

import (
	"context"
	"crypto/x509"
	"errors"
	"fmt"
	"sync"
	"time"

	"github.com/notaryproject/notation-core-go/revocation"
	"github.com/notaryproject/notation-core-go/revocation/result"
	"github.com/notaryproject/notation-go/plugin"
	"github.com/notaryproject/notation-go/verifier/truststore"
	fw "github.com/notaryproject/notation-plugin-framework-go/plugin"
)

// ---------------- trust store ----------------

type StoreCall struct {
	Type truststore.Type
	Name string
}

// TrustStore answers from a map "type:name" -> certificates; Errs makes a store fail to load.
type TrustStore struct {
	mu     sync.Mutex
	Stores map[string][]*x509.Certificate
	Errs   map[string]error
	Empty  map[string]bool // stores that load without error and hold no certificate
	Calls  []StoreCall
	NoLog  bool // do not record calls (shared, long-lived instances)
}

func NewTrustStore() *TrustStore {
	return &TrustStore{Stores: map[string][]*x509.Certificate{}, Errs: map[string]error{}, Empty: map[string]bool{}}
}

func (t *TrustStore) Put(typ, name string, certs ...*x509.Certificate) *TrustStore {
	t.Stores[typ+":"+name] = append(t.Stores[typ+":"+name], certs...)
	return t
}

func (t *TrustStore) GetCertificates(ctx context.Context, storeType truststore.Type, namedStore string) ([]*x509.Certificate, error) {
	if !t.NoLog {
		t.mu.Lock()
		t.Calls = append(t.Calls, StoreCall{storeType, namedStore})
		t.mu.Unlock()
	}
	key := string(storeType) + ":" + namedStore
	if err, ok := t.Errs[key]; ok {
		return nil, err
	}
	if t.Empty[key] {
		return []*x509.Certificate{}, nil // a store that loads, and holds nothing
	}
	certs, ok := t.Stores[key]
	if !ok || len(certs) == 0 {
		return nil, truststore.TrustStoreError{Msg: fmt.Sprintf("mock: the trust store %q of type %q does not exist", namedStore, storeType)}
	}
	return append([]*x509.Certificate(nil), certs...), nil
}

func (t *TrustStore) Reset() { t.mu.Lock(); t.Calls = nil; t.mu.Unlock() }

// LoggingStore decorates a real trust store.
type LoggingStore struct {
	Inner truststore.X509TrustStore
	mu    sync.Mutex
	Calls []StoreCall
}

func (l *LoggingStore) GetCertificates(ctx context.Context, storeType truststore.Type, namedStore string) ([]*x509.Certificate, error) {
	l.mu.Lock()
	l.Calls = append(l.Calls, StoreCall{storeType, namedStore})
	l.mu.Unlock()
	return l.Inner.GetCertificates(ctx, storeType, namedStore)
}

// ---------------- revocation ----------------

type RevCall struct {
	Chain       []*x509.Certificate
	SigningTime time.Time
	ViaContext  bool
}

// Validator implements revocation.Validator and (through Client()) the deprecated revocation.Revocation.
type Validator struct {
	mu      sync.Mutex
	Results func(chain []*x509.Certificate) ([]*result.CertRevocationResult, error)
	Calls   []RevCall
	NoLog   bool
}

// AllOK returns a validator that reports OK for every certificate.
func AllOK() *Validator {
	return &Validator{Results: func(chain []*x509.Certificate) ([]*result.CertRevocationResult, error) {
		out := make([]*result.CertRevocationResult, len(chain))
		for i := range chain {
			out[i] = &result.CertRevocationResult{Result: result.ResultOK, RevocationMethod: result.RevocationMethodOCSP, ServerResults: []*result.ServerResult{result.NewServerResult(result.ResultOK, "http://ocsp", nil)}}
		}
		return out, nil
	}}
}

// Fixed returns a validator answering with the given per-certificate results (leaf first).
func Fixed(rs []result.Result, err error) *Validator {
	return &Validator{Results: func(chain []*x509.Certificate) ([]*result.CertRevocationResult, error) {
		if err != nil {
			return nil, err
		}
		out := make([]*result.CertRevocationResult, len(chain))
		for i := range chain {
			r := result.ResultOK
			if i < len(rs) {
				r = rs[i]
			}
			out[i] = &result.CertRevocationResult{Result: r, RevocationMethod: result.RevocationMethodOCSP, ServerResults: []*result.ServerResult{result.NewServerResult(r, "http://ocsp", nil)}}
		}
		return out, nil
	}}
}

func (v *Validator) ValidateContext(ctx context.Context, o revocation.ValidateContextOptions) ([]*result.CertRevocationResult, error) {
	if !v.NoLog {
		v.mu.Lock()
		v.Calls = append(v.Calls, RevCall{Chain: o.CertChain, SigningTime: o.AuthenticSigningTime, ViaContext: true})
		v.mu.Unlock()
	}
	return v.Results(o.CertChain)
}

type client struct{ v *Validator }

func (c client) Validate(chain []*x509.Certificate, signingTime time.Time) ([]*result.CertRevocationResult, error) {
	if !c.v.NoLog {
		c.v.mu.Lock()
		c.v.Calls = append(c.v.Calls, RevCall{Chain: chain, SigningTime: signingTime})
		c.v.mu.Unlock()
	}
	return c.v.Results(chain)
}

// Client exposes the same script through the deprecated interface.
func (v *Validator) Client() revocation.Revocation { return client{v} }

// ---------------- plugins ----------------

type ManagerCall struct{ Name string }

// Manager is a scripted plugin.Manager.
type Manager struct {
	mu      sync.Mutex
	Plugins map[string]plugin.Plugin
	Calls   []ManagerCall
	NoLog   bool
}

func NewManager() *Manager { return &Manager{Plugins: map[string]plugin.Plugin{}} }

func (m *Manager) Get(ctx context.Context, name string) (plugin.Plugin, error) {
	if !m.NoLog {
		m.mu.Lock()
		m.Calls = append(m.Calls, ManagerCall{name})
		m.mu.Unlock()
	}
	p, ok := m.Plugins[name]
	if !ok {
		return nil, fmt.Errorf("mock: plugin %q not installed", name)
	}
	return p, nil
}

func (m *Manager) List(ctx context.Context) ([]string, error) {
	var out []string
	for k := range m.Plugins {
		out = append(out, k)
	}
	return out, nil
}

// VerifyPlugin is a scripted verification plugin.
type VerifyPlugin struct {
	mu           sync.Mutex
	Name         string
	Version      string
	Capabilities []fw.Capability
	MetadataErr  error
	// Verdicts per capability: "success", "failure", "missing".
	Verdicts map[fw.Capability]string
	// Processed lists the attribute keys the plugin claims to have processed;
	// ProcessAll echoes whatever it was asked to process.
	Processed  []any
	ProcessAll bool
	VerifyErr  error
	NoLog      bool

	MetadataCalls int
	VerifyCalls   []*fw.VerifySignatureRequest
}

func (p *VerifyPlugin) GetMetadata(ctx context.Context, req *fw.GetMetadataRequest) (*fw.GetMetadataResponse, error) {
	if !p.NoLog {
		p.mu.Lock()
		p.MetadataCalls++
		p.mu.Unlock()
	}
	if p.MetadataErr != nil {
		return nil, p.MetadataErr
	}
	return &fw.GetMetadataResponse{Name: p.Name, Description: "mock", Version: p.Version, URL: "http://x", SupportedContractVersions: []string{"1.0"}, Capabilities: p.Capabilities}, nil
}

func (p *VerifyPlugin) VerifySignature(ctx context.Context, req *fw.VerifySignatureRequest) (*fw.VerifySignatureResponse, error) {
	if !p.NoLog {
		p.mu.Lock()
		p.VerifyCalls = append(p.VerifyCalls, req)
		p.mu.Unlock()
	}
	if p.VerifyErr != nil {
		return nil, p.VerifyErr
	}
	resp := &fw.VerifySignatureResponse{VerificationResults: map[fw.Capability]*fw.VerificationResult{}}
	for _, c := range req.TrustPolicy.SignatureVerification {
		switch p.Verdicts[c] {
		case "failure":
			resp.VerificationResults[c] = &fw.VerificationResult{Success: false, Reason: "mock says no"}
		case "missing":
		default:
			resp.VerificationResults[c] = &fw.VerificationResult{Success: true}
		}
	}
	resp.ProcessedAttributes = append(resp.ProcessedAttributes, p.Processed...)
	if p.ProcessAll {
		for _, k := range req.Signature.UnprocessedAttributes {
			resp.ProcessedAttributes = append(resp.ProcessedAttributes, k)
		}
	}
	return resp, nil
}

var errNotSigner = errors.New("mock: not a signing plugin")

func (p *VerifyPlugin) DescribeKey(ctx context.Context, req *fw.DescribeKeyRequest) (*fw.DescribeKeyResponse, error) {
	return nil, errNotSigner
}
func (p *VerifyPlugin) GenerateSignature(ctx context.Context, req *fw.GenerateSignatureRequest) (*fw.GenerateSignatureResponse, error) {
	return nil, errNotSigner
}
func (p *VerifyPlugin) GenerateEnvelope(ctx context.Context, req *fw.GenerateEnvelopeRequest) (*fw.GenerateEnvelopeResponse, error) {
	return nil, errNotSigner
}
