// Package forge builds Notary Project signature envelopes (JWS JSON and
// COSE_Sign1) from scratch with the standard library / go-cose, so that every
// field can be chosen freely (signing time outside a certificate window,
// arbitrary critical attributes, foreign content types, re-assembled parts...).
// notation-core-go's own Sign is used by SignCore for the honest path.
package forge

import (
	"crypto"
	"crypto/ecdsa"
	"crypto/rand"
	"crypto/rsa"
	"crypto/x509"
	"encoding/base64"
	"encoding/json"
	"fmt"
	"time"

	"github.com/fxamacker/cbor/v2"
	"github.com/notaryproject/notation-core-go/signature"
	_ "github.com/notaryproject/notation-core-go/signature/cose"
	_ "github.com/notaryproject/notation-core-go/signature/jws"
	ocispec "github.com/opencontainers/image-spec/specs-go/v1"
	"github.com/veraison/go-cose"
)

const (
	JWS  = "application/jose+json"
	COSE = "application/cose"

	PayloadType = "application/vnd.cncf.notary.payload.v1+json"

	SchemeX509 = "notary.x509"
	SchemeSA   = "notary.x509.signingAuthority"

	HdrPlugin       = "io.cncf.notary.verificationPlugin"
	HdrPluginMinVer = "io.cncf.notary.verificationPluginMinVersion"
)

var Formats = []string{JWS, COSE}

// Attr is an extended signed attribute.
type Attr struct {
	Key      any
	Critical bool
	Value    any
}

// Spec describes an envelope completely.
type Spec struct {
	Format      string
	Chain       []*x509.Certificate // goes to x5c / x5chain, leaf first
	Key         crypto.Signer       // signing key (normally the leaf's)
	ContentType string              // default PayloadType
	Payload     []byte
	Scheme      string    // default SchemeX509
	SigningTime time.Time // default now-1m (truncated to seconds)
	Expiry      time.Time // zero: none
	Ext         []Attr
	Agent       string
	// Timestamp, when non-nil, is called with the signature value and returns
	// the RFC 3161 token to embed in the unprotected header.
	Timestamp func(sig []byte) []byte
	// NoCrit leaves the named header out of the crit list although the spec demands it.
	NoCrit map[string]bool
	// CorruptSig flips one bit of the signature value.
	CorruptSig bool
}

// PayloadFor returns the JSON Notary payload for a descriptor.
func PayloadFor(d ocispec.Descriptor) []byte {
	type p struct {
		TargetArtifact ocispec.Descriptor `json:"targetArtifact"`
	}
	b, err := json.Marshal(p{d})
	if err != nil {
		panic(err)
	}
	return b
}

func hashFor(pub crypto.PublicKey) crypto.Hash {
	switch k := pub.(type) {
	case *rsa.PublicKey:
		switch k.Size() {
		case 256:
			return crypto.SHA256
		case 384:
			return crypto.SHA384
		default:
			return crypto.SHA512
		}
	case *ecdsa.PublicKey:
		switch k.Curve.Params().BitSize {
		case 256:
			return crypto.SHA256
		case 384:
			return crypto.SHA384
		default:
			return crypto.SHA512
		}
	}
	panic("unsupported key")
}

// HashOf is the hash the Notary spec binds to the key.
func HashOf(pub crypto.PublicKey) crypto.Hash { return hashFor(pub) }

func jwsAlg(pub crypto.PublicKey) string {
	h := hashFor(pub)
	n := map[crypto.Hash]string{crypto.SHA256: "256", crypto.SHA384: "384", crypto.SHA512: "512"}[h]
	if _, ok := pub.(*rsa.PublicKey); ok {
		return "PS" + n
	}
	return "ES" + n
}

func coseAlg(pub crypto.PublicKey) cose.Algorithm {
	h := hashFor(pub)
	if _, ok := pub.(*rsa.PublicKey); ok {
		return map[crypto.Hash]cose.Algorithm{crypto.SHA256: cose.AlgorithmPS256, crypto.SHA384: cose.AlgorithmPS384, crypto.SHA512: cose.AlgorithmPS512}[h]
	}
	return map[crypto.Hash]cose.Algorithm{crypto.SHA256: cose.AlgorithmES256, crypto.SHA384: cose.AlgorithmES384, crypto.SHA512: cose.AlgorithmES512}[h]
}

// rawSign signs msg the JWS way (PSS with salt=hash length; ECDSA r||s).
func rawSign(key crypto.Signer, msg []byte) []byte {
	h := hashFor(key.Public())
	hh := h.New()
	hh.Write(msg)
	d := hh.Sum(nil)
	switch k := key.(type) {
	case *rsa.PrivateKey:
		s, err := rsa.SignPSS(rand.Reader, k, h, d, &rsa.PSSOptions{SaltLength: rsa.PSSSaltLengthEqualsHash})
		if err != nil {
			panic(err)
		}
		return s
	case *ecdsa.PrivateKey:
		r, s, err := ecdsa.Sign(rand.Reader, k, d)
		if err != nil {
			panic(err)
		}
		n := (k.Curve.Params().BitSize + 7) / 8
		out := make([]byte, 2*n)
		r.FillBytes(out[:n])
		s.FillBytes(out[n:])
		return out
	}
	panic("unsupported key type")
}

func (s *Spec) defaults() {
	if s.ContentType == "" {
		s.ContentType = PayloadType
	}
	if s.Scheme == "" {
		s.Scheme = SchemeX509
	}
	if s.SigningTime.IsZero() {
		s.SigningTime = time.Now().Add(-time.Minute)
	}
	s.SigningTime = s.SigningTime.Truncate(time.Second).UTC()
	if !s.Expiry.IsZero() {
		s.Expiry = s.Expiry.Truncate(time.Second).UTC()
	}
}

// JWSParts is the JWS JSON serialisation split into its members.
type JWSParts struct {
	Payload   string         `json:"payload"`
	Protected string         `json:"protected"`
	Header    map[string]any `json:"header"`
	Signature string         `json:"signature"`
}

func (p JWSParts) Bytes() []byte {
	b, err := json.Marshal(p)
	if err != nil {
		panic(err)
	}
	return b
}

// SplitJWS parses an envelope into parts.
func SplitJWS(env []byte) JWSParts {
	var p JWSParts
	if err := json.Unmarshal(env, &p); err != nil {
		panic(err)
	}
	return p
}

var b64 = base64.RawURLEncoding

// Build creates the envelope bytes.
func Build(s Spec) []byte {
	s.defaults()
	if s.Format == COSE {
		return buildCOSE(s)
	}
	return buildJWS(s)
}

func buildJWS(s Spec) []byte {
	prot := map[string]any{
		"alg":                          jwsAlg(s.Key.Public()),
		"cty":                          s.ContentType,
		"io.cncf.notary.signingScheme": s.Scheme,
	}
	crit := []string{}
	if !s.NoCrit["io.cncf.notary.signingScheme"] {
		crit = append(crit, "io.cncf.notary.signingScheme")
	}
	switch s.Scheme {
	case SchemeSA:
		prot["io.cncf.notary.authenticSigningTime"] = s.SigningTime.Format(time.RFC3339)
		if !s.NoCrit["io.cncf.notary.authenticSigningTime"] {
			crit = append(crit, "io.cncf.notary.authenticSigningTime")
		}
	default:
		prot["io.cncf.notary.signingTime"] = s.SigningTime.Format(time.RFC3339)
	}
	if !s.Expiry.IsZero() {
		prot["io.cncf.notary.expiry"] = s.Expiry.Format(time.RFC3339)
		if !s.NoCrit["io.cncf.notary.expiry"] {
			crit = append(crit, "io.cncf.notary.expiry")
		}
	}
	for _, a := range s.Ext {
		k, ok := a.Key.(string)
		if !ok {
			panic("JWS supports string attribute keys only")
		}
		prot[k] = a.Value
		if a.Critical {
			crit = append(crit, k)
		}
	}
	prot["crit"] = crit
	pj, err := json.Marshal(prot)
	if err != nil {
		panic(err)
	}
	p := JWSParts{Protected: b64.EncodeToString(pj), Payload: b64.EncodeToString(s.Payload)}
	sig := rawSign(s.Key, []byte(p.Protected+"."+p.Payload))
	if s.CorruptSig {
		sig[len(sig)/2] ^= 1
	}
	p.Signature = b64.EncodeToString(sig)
	var x5c []string
	for _, c := range s.Chain {
		x5c = append(x5c, base64.StdEncoding.EncodeToString(c.Raw))
	}
	p.Header = map[string]any{"x5c": x5c}
	if s.Agent != "" {
		p.Header["io.cncf.notary.signingAgent"] = s.Agent
	}
	if s.Timestamp != nil {
		if tok := s.Timestamp(sig); tok != nil {
			p.Header["io.cncf.notary.timestampSignature"] = base64.StdEncoding.EncodeToString(tok)
		}
	}
	return p.Bytes()
}

var cborTimeEnc = func() cbor.EncMode {
	m, err := cbor.EncOptions{Time: cbor.TimeUnix, TimeTag: cbor.EncTagRequired}.EncMode()
	if err != nil {
		panic(err)
	}
	return m
}()

func cborTime(t time.Time) cbor.RawMessage {
	b, err := cborTimeEnc.Marshal(t)
	if err != nil {
		panic(err)
	}
	return cbor.RawMessage(b)
}

func buildCOSE(s Spec) []byte {
	msg := cose.NewSign1Message()
	alg := coseAlg(s.Key.Public())
	msg.Headers.Protected.SetAlgorithm(alg)
	crit := []any{}
	if !s.NoCrit["io.cncf.notary.signingScheme"] {
		crit = append(crit, "io.cncf.notary.signingScheme")
	}
	msg.Headers.Protected["io.cncf.notary.signingScheme"] = s.Scheme
	switch s.Scheme {
	case SchemeSA:
		msg.Headers.Protected["io.cncf.notary.authenticSigningTime"] = cborTime(s.SigningTime)
		if !s.NoCrit["io.cncf.notary.authenticSigningTime"] {
			crit = append(crit, "io.cncf.notary.authenticSigningTime")
		}
	default:
		msg.Headers.Protected["io.cncf.notary.signingTime"] = cborTime(s.SigningTime)
	}
	if !s.Expiry.IsZero() {
		msg.Headers.Protected["io.cncf.notary.expiry"] = cborTime(s.Expiry)
		if !s.NoCrit["io.cncf.notary.expiry"] {
			crit = append(crit, "io.cncf.notary.expiry")
		}
	}
	for _, a := range s.Ext {
		msg.Headers.Protected[a.Key] = a.Value
		if a.Critical {
			crit = append(crit, a.Key)
		}
	}
	msg.Headers.Protected[cose.HeaderLabelCritical] = crit
	msg.Headers.Protected[cose.HeaderLabelContentType] = s.ContentType
	msg.Payload = s.Payload
	signer, err := cose.NewSigner(alg, s.Key)
	if err != nil {
		panic(err)
	}
	if err := msg.Sign(rand.Reader, nil, signer); err != nil {
		panic(fmt.Sprintf("cose sign: %v", err))
	}
	if s.CorruptSig {
		msg.Signature[len(msg.Signature)/2] ^= 1
	}
	chain := make([]any, len(s.Chain))
	for i, c := range s.Chain {
		chain[i] = c.Raw
	}
	msg.Headers.Unprotected[cose.HeaderLabelX5Chain] = chain
	if s.Agent != "" {
		msg.Headers.Unprotected["io.cncf.notary.signingAgent"] = s.Agent
	}
	if s.Timestamp != nil {
		if tok := s.Timestamp(msg.Signature); tok != nil {
			msg.Headers.Unprotected["io.cncf.notary.timestampSignature"] = tok
		}
	}
	out, err := msg.MarshalCBOR()
	if err != nil {
		panic(fmt.Sprintf("cose marshal: %v", err))
	}
	return out
}

// COSEParts splits a COSE_Sign1 envelope.
type COSEParts struct {
	Protected   cbor.RawMessage // bstr-wrapped protected header as encoded
	Unprotected cbor.RawMessage
	Payload     []byte
	Signature   []byte
}

// SplitCOSE decodes the tagged COSE_Sign1 array without interpreting headers.
func SplitCOSE(env []byte) COSEParts {
	var tag cbor.RawTag
	if err := cbor.Unmarshal(env, &tag); err != nil {
		panic(err)
	}
	var arr []cbor.RawMessage
	if err := cbor.Unmarshal(tag.Content, &arr); err != nil || len(arr) != 4 {
		panic(fmt.Sprintf("cose split: %v", err))
	}
	var p COSEParts
	p.Protected = arr[0]
	p.Unprotected = arr[1]
	_ = cbor.Unmarshal(arr[2], &p.Payload)
	_ = cbor.Unmarshal(arr[3], &p.Signature)
	return p
}

func (p COSEParts) Bytes() []byte {
	pl, _ := cbor.Marshal(p.Payload)
	sg, _ := cbor.Marshal(p.Signature)
	content, err := cbor.Marshal([]cbor.RawMessage{p.Protected, p.Unprotected, pl, sg})
	if err != nil {
		panic(err)
	}
	out, err := cbor.Marshal(cbor.RawTag{Number: 18, Content: content})
	if err != nil {
		panic(err)
	}
	return out
}

// SignCore signs with notation-core-go's own implementation (honest path).
func SignCore(format string, chain []*x509.Certificate, key crypto.PrivateKey, req signature.SignRequest) ([]byte, error) {
	signer, err := signature.NewLocalSigner(chain, key)
	if err != nil {
		return nil, err
	}
	req.Signer = signer
	if req.SigningScheme == "" {
		req.SigningScheme = signature.SigningSchemeX509
	}
	if req.SigningTime.IsZero() {
		req.SigningTime = time.Now().Add(-time.Minute)
	}
	if req.Payload.ContentType == "" {
		req.Payload.ContentType = PayloadType
	}
	env, err := signature.NewEnvelope(format)
	if err != nil {
		return nil, err
	}
	return env.Sign(&req)
}
