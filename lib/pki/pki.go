// Package pki generates keys (cached under build/keys), certificates, chains
// and CRLs for the harnesses.
package pki

import (
	"crypto"
	"crypto/ecdsa"
	"crypto/elliptic"
	"crypto/rand"
	"crypto/rsa"
	"crypto/x509"
	"crypto/x509/pkix"
	"encoding/asn1"
	"encoding/pem"
	"fmt"
	"math/big"
	"os"
	"path/filepath"
	"sync"
	"sync/atomic"
	"time"

	"github.com/notaryproject/notation-go/zzverif/lib/hx"
)

// Key specs understood by Key().
const (
	RSA2048 = "rsa2048"
	RSA3072 = "rsa3072"
	RSA4096 = "rsa4096"
	EC256   = "ec256"
	EC384   = "ec384"
	EC521   = "ec521"
)

var AllSpecs = []string{RSA2048, RSA3072, RSA4096, EC256, EC384, EC521}

var (
	keyMu    sync.Mutex
	keyCache = map[string]crypto.Signer{}
)

func keyDir() string { return filepath.Join(hx.VerifDir(), "build", "keys") }

func genKey(spec string) (crypto.Signer, error) {
	switch spec {
	case RSA2048:
		return rsa.GenerateKey(rand.Reader, 2048)
	case RSA3072:
		return rsa.GenerateKey(rand.Reader, 3072)
	case RSA4096:
		return rsa.GenerateKey(rand.Reader, 4096)
	case EC256:
		return ecdsa.GenerateKey(elliptic.P256(), rand.Reader)
	case EC384:
		return ecdsa.GenerateKey(elliptic.P384(), rand.Reader)
	case EC521:
		return ecdsa.GenerateKey(elliptic.P521(), rand.Reader)
	case "rsa1024": // unsupported by the Notary spec on purpose
		return rsa.GenerateKey(rand.Reader, 1024)
	case "ec224":
		return ecdsa.GenerateKey(elliptic.P224(), rand.Reader)
	}
	return nil, fmt.Errorf("unknown key spec %q", spec)
}

// Key returns the idx-th key of the given spec; keys are generated once and
// cached on disk (RSA generation is slow).
func Key(spec string, idx int) crypto.Signer {
	name := fmt.Sprintf("%s-%d", spec, idx)
	keyMu.Lock()
	defer keyMu.Unlock()
	if k, ok := keyCache[name]; ok {
		return k
	}
	path := filepath.Join(keyDir(), name+".pem")
	if b, err := os.ReadFile(path); err == nil {
		if blk, _ := pem.Decode(b); blk != nil {
			if k, err := x509.ParsePKCS8PrivateKey(blk.Bytes); err == nil {
				s := k.(crypto.Signer)
				keyCache[name] = s
				return s
			}
		}
	}
	k, err := genKey(spec)
	if err != nil {
		panic(err)
	}
	der, err := x509.MarshalPKCS8PrivateKey(k)
	if err != nil {
		panic(err)
	}
	_ = os.MkdirAll(keyDir(), 0o755)
	tmp := fmt.Sprintf("%s.%d.tmp", path, os.Getpid())
	if err := os.WriteFile(tmp, pem.EncodeToMemory(&pem.Block{Type: "PRIVATE KEY", Bytes: der}), 0o600); err == nil {
		_ = os.Rename(tmp, path)
	}
	keyCache[name] = k
	return k
}

var serial atomic.Int64

func nextSerial() *big.Int { return big.NewInt(1000 + serial.Add(1)) }

// Cert is a certificate with its private key.
type Cert struct {
	Cert *x509.Certificate
	Key  crypto.Signer
}

// Tmpl describes one certificate.
type Tmpl struct {
	Subject     pkix.Name
	RawSubject  []pkix.RelativeDistinguishedNameSET // overrides Subject when non-nil (multi-valued RDNs, duplicates, odd OIDs)
	NotBefore   time.Time
	NotAfter    time.Time
	CA          bool
	PathLen     int // -1: absent
	KeyUsage    x509.KeyUsage
	EKU         []x509.ExtKeyUsage
	EKUCritical bool // timestamping leaf needs a critical EKU extension
	NoKeyUsage  bool
	CRLURLs     []string
	OCSPURLs    []string
	Serial      *big.Int // nil: a fresh serial number
}

// DefaultWindow is the validity used when a template leaves the window zero.
func DefaultWindow() (time.Time, time.Time) {
	now := time.Now()
	return now.Add(-30 * 24 * time.Hour).Truncate(time.Second), now.Add(365 * 24 * time.Hour).Truncate(time.Second)
}

var oidEKU = asn1.ObjectIdentifier{2, 5, 29, 37}
var oidTimestamping = asn1.ObjectIdentifier{1, 3, 6, 1, 5, 5, 7, 3, 8}

// Make creates a certificate for key, signed by issuer (nil: self-signed).
func Make(t Tmpl, key crypto.Signer, issuer *Cert) *Cert {
	if t.NotBefore.IsZero() && t.NotAfter.IsZero() {
		t.NotBefore, t.NotAfter = DefaultWindow()
	}
	serialNo := t.Serial
	if serialNo == nil {
		serialNo = nextSerial()
	}
	c := &x509.Certificate{
		SerialNumber:          serialNo,
		Subject:               t.Subject,
		NotBefore:             t.NotBefore,
		NotAfter:              t.NotAfter,
		BasicConstraintsValid: true,
		IsCA:                  t.CA,
		KeyUsage:              t.KeyUsage,
		CRLDistributionPoints: t.CRLURLs,
		OCSPServer:            t.OCSPURLs,
	}
	if t.RawSubject != nil {
		b, err := asn1.Marshal(pkix.RDNSequence(t.RawSubject))
		if err != nil {
			panic(err)
		}
		c.RawSubject = b
	}
	if t.CA {
		if t.PathLen >= 0 {
			c.MaxPathLen = t.PathLen
			c.MaxPathLenZero = t.PathLen == 0
		} else {
			c.MaxPathLen = -1
		}
		if c.KeyUsage == 0 && !t.NoKeyUsage {
			c.KeyUsage = x509.KeyUsageCertSign | x509.KeyUsageCRLSign
		}
	} else if c.KeyUsage == 0 && !t.NoKeyUsage {
		c.KeyUsage = x509.KeyUsageDigitalSignature
	}
	if t.EKUCritical {
		var oids []asn1.ObjectIdentifier
		for _, e := range t.EKU {
			if e == x509.ExtKeyUsageTimeStamping {
				oids = append(oids, oidTimestamping)
			}
		}
		v, _ := asn1.Marshal(oids)
		c.ExtraExtensions = append(c.ExtraExtensions, pkix.Extension{Id: oidEKU, Critical: true, Value: v})
	} else {
		c.ExtKeyUsage = t.EKU
	}
	parent := c
	signer := key
	if issuer != nil {
		parent = issuer.Cert
		signer = issuer.Key
	}
	der, err := x509.CreateCertificate(rand.Reader, c, parent, key.Public(), signer)
	if err != nil {
		panic(fmt.Sprintf("CreateCertificate: %v", err))
	}
	out, err := x509.ParseCertificate(der)
	if err != nil {
		panic(fmt.Sprintf("ParseCertificate: %v", err))
	}
	return &Cert{Cert: out, Key: key}
}

// Name builds a simple subject.
func Name(cn string) pkix.Name {
	return pkix.Name{Country: []string{"US"}, Province: []string{"WA"}, Organization: []string{"Verif"}, CommonName: cn}
}

// Chain is a signing chain, leaf first.
type Chain struct {
	Certs []*Cert // leaf ... root
}

func (c *Chain) X509() []*x509.Certificate {
	out := make([]*x509.Certificate, len(c.Certs))
	for i, x := range c.Certs {
		out[i] = x.Cert
	}
	return out
}
func (c *Chain) Leaf() *Cert { return c.Certs[0] }
func (c *Chain) Root() *Cert { return c.Certs[len(c.Certs)-1] }

// ChainOpts describes a code-signing chain.
type ChainOpts struct {
	Len         int     // 1 = self-signed leaf, 2 = leaf<-root, 3 = leaf<-inter<-root, ...
	LeafSpec    string  // key spec of the leaf (default ec256)
	LeafIdx     int     // key index of the leaf
	CAIdx       int     // key index base for CA keys (ec256)
	Prefix      string  // CN prefix
	Leaf        *Tmpl   // optional overrides (subject, window...)
	CAs         []*Tmpl // optional overrides for CAs from the one next to the leaf up to the root
	CodeSignEKU bool
	ReuseCAs    []*Cert // when set, the leaf is issued under these CAs (next-to-leaf first) instead of fresh ones
}

// NewChain builds a chain that notation-core-go accepts (unless templates say otherwise).
func NewChain(o ChainOpts) *Chain {
	if o.Len == 0 {
		o.Len = 3
	}
	if o.LeafSpec == "" {
		o.LeafSpec = EC256
	}
	if o.Prefix == "" {
		o.Prefix = "verif"
	}
	leafKey := Key(o.LeafSpec, o.LeafIdx)
	leafT := Tmpl{Subject: Name(o.Prefix + " leaf")}
	if o.Leaf != nil {
		leafT = *o.Leaf
	}
	leafT.CA = false
	if o.CodeSignEKU {
		leafT.EKU = []x509.ExtKeyUsage{x509.ExtKeyUsageCodeSigning}
	}
	if o.Len == 1 {
		return &Chain{Certs: []*Cert{Make(leafT, leafKey, nil)}}
	}
	if o.ReuseCAs != nil {
		leaf := Make(leafT, leafKey, o.ReuseCAs[0])
		return &Chain{Certs: append([]*Cert{leaf}, o.ReuseCAs...)}
	}
	// build CAs from the root down
	nCA := o.Len - 1
	cas := make([]*Cert, nCA) // cas[0] next to leaf ... cas[nCA-1] root
	for i := nCA - 1; i >= 0; i-- {
		t := Tmpl{Subject: Name(fmt.Sprintf("%s ca%d", o.Prefix, i)), PathLen: -1}
		if i < len(o.CAs) && o.CAs[i] != nil {
			t = *o.CAs[i]
		}
		t.CA = true
		if t.PathLen == 0 && !(i < len(o.CAs) && o.CAs[i] != nil) {
			t.PathLen = -1
		}
		k := Key(EC256, 100+o.CAIdx*10+i)
		var iss *Cert
		if i < nCA-1 {
			iss = cas[i+1]
		}
		cas[i] = Make(t, k, iss)
	}
	leaf := Make(leafT, leafKey, cas[0])
	return &Chain{Certs: append([]*Cert{leaf}, cas...)}
}

// CRL creates a CRL signed by issuer.
func CRL(issuer *Cert, number int64, thisUpdate, nextUpdate time.Time, revoked []*big.Int, deltaOf int64) *x509.RevocationList {
	t := &x509.RevocationList{Number: big.NewInt(number), ThisUpdate: thisUpdate, NextUpdate: nextUpdate}
	for _, s := range revoked {
		t.RevokedCertificateEntries = append(t.RevokedCertificateEntries, x509.RevocationListEntry{SerialNumber: s, RevocationTime: thisUpdate})
	}
	if deltaOf > 0 {
		v, _ := asn1.Marshal(big.NewInt(deltaOf))
		t.ExtraExtensions = append(t.ExtraExtensions, pkix.Extension{Id: asn1.ObjectIdentifier{2, 5, 29, 27}, Critical: true, Value: v})
	}
	der, err := x509.CreateRevocationList(rand.Reader, t, issuer.Cert, issuer.Key)
	if err != nil {
		panic(err)
	}
	c, err := x509.ParseRevocationList(der)
	if err != nil {
		panic(err)
	}
	return c
}

// PEM encodes certificates.
func PEM(certs ...*x509.Certificate) []byte {
	var out []byte
	for _, c := range certs {
		out = append(out, pem.EncodeToMemory(&pem.Block{Type: "CERTIFICATE", Bytes: c.Raw})...)
	}
	return out
}
