// Package refsig is the oracles' independent signature check: it shares no code
// with notation-core-go. It answers one question: do these raw bytes carry a
// signature by the key of their own first certificate over their own protected
// header and payload, and what are that payload and content type.
package refsig

import (
	"crypto"
	"crypto/ecdsa"
	"crypto/rsa"
	"crypto/x509"
	"encoding/base64"
	"encoding/json"
	"errors"
	"fmt"
	"math/big"

	"github.com/fxamacker/cbor/v2"
)

type Result struct {
	Payload     []byte
	ContentType string
	Leaf        *x509.Certificate
	Alg         string
	Hash        crypto.Hash
	SigValue    []byte
}

func verifyRaw(pub crypto.PublicKey, rsaAlg bool, h crypto.Hash, msg, sig []byte) error {
	hh := h.New()
	hh.Write(msg)
	d := hh.Sum(nil)
	switch k := pub.(type) {
	case *rsa.PublicKey:
		if !rsaAlg {
			return errors.New("algorithm/key type mismatch")
		}
		return rsa.VerifyPSS(k, h, d, sig, &rsa.PSSOptions{SaltLength: rsa.PSSSaltLengthAuto})
	case *ecdsa.PublicKey:
		if rsaAlg {
			return errors.New("algorithm/key type mismatch")
		}
		n := (k.Curve.Params().BitSize + 7) / 8
		if len(sig) != 2*n {
			return fmt.Errorf("ecdsa signature length %d, want %d", len(sig), 2*n)
		}
		r := new(big.Int).SetBytes(sig[:n])
		s := new(big.Int).SetBytes(sig[n:])
		if !ecdsa.Verify(k, d, r, s) {
			return errors.New("ecdsa verification failed")
		}
		return nil
	}
	return errors.New("unsupported public key")
}

var jwsAlgs = map[string]struct {
	rsa bool
	h   crypto.Hash
}{
	"PS256": {true, crypto.SHA256}, "PS384": {true, crypto.SHA384}, "PS512": {true, crypto.SHA512},
	"ES256": {false, crypto.SHA256}, "ES384": {false, crypto.SHA384}, "ES512": {false, crypto.SHA512},
}

var coseAlgs = map[int64]struct {
	name string
	rsa  bool
	h    crypto.Hash
}{
	-37: {"PS256", true, crypto.SHA256}, -38: {"PS384", true, crypto.SHA384}, -39: {"PS512", true, crypto.SHA512},
	-7: {"ES256", false, crypto.SHA256}, -35: {"ES384", false, crypto.SHA384}, -36: {"ES512", false, crypto.SHA512},
}

// VerifyJWS checks a JWS JSON envelope.
func VerifyJWS(env []byte) (*Result, error) {
	var e struct {
		Payload   string `json:"payload"`
		Protected string `json:"protected"`
		Header    struct {
			X5c []string `json:"x5c"`
		} `json:"header"`
		Signature string `json:"signature"`
	}
	if err := json.Unmarshal(env, &e); err != nil {
		return nil, err
	}
	pj, err := base64.RawURLEncoding.DecodeString(e.Protected)
	if err != nil {
		return nil, fmt.Errorf("protected: %w", err)
	}
	var prot struct {
		Alg string `json:"alg"`
		Cty string `json:"cty"`
	}
	if err := json.Unmarshal(pj, &prot); err != nil {
		return nil, err
	}
	a, ok := jwsAlgs[prot.Alg]
	if !ok {
		return nil, fmt.Errorf("alg %q", prot.Alg)
	}
	if len(e.Header.X5c) == 0 {
		return nil, errors.New("no x5c")
	}
	der, err := base64.StdEncoding.DecodeString(e.Header.X5c[0])
	if err != nil {
		return nil, err
	}
	leaf, err := x509.ParseCertificate(der)
	if err != nil {
		return nil, err
	}
	sig, err := base64.RawURLEncoding.DecodeString(e.Signature)
	if err != nil {
		return nil, fmt.Errorf("signature: %w", err)
	}
	payload, err := base64.RawURLEncoding.DecodeString(e.Payload)
	if err != nil {
		return nil, fmt.Errorf("payload: %w", err)
	}
	if err := verifyRaw(leaf.PublicKey, a.rsa, a.h, []byte(e.Protected+"."+e.Payload), sig); err != nil {
		return nil, err
	}
	return &Result{Payload: payload, ContentType: prot.Cty, Leaf: leaf, Alg: prot.Alg, Hash: a.h, SigValue: sig}, nil
}

// VerifyCOSE checks a tagged COSE_Sign1 envelope.
func VerifyCOSE(env []byte) (*Result, error) {
	var tag cbor.RawTag
	if err := cbor.Unmarshal(env, &tag); err != nil {
		return nil, err
	}
	if tag.Number != 18 {
		return nil, fmt.Errorf("tag %d", tag.Number)
	}
	var arr []cbor.RawMessage
	if err := cbor.Unmarshal(tag.Content, &arr); err != nil {
		return nil, err
	}
	if len(arr) != 4 {
		return nil, errors.New("COSE_Sign1 must have 4 members")
	}
	var protBytes, payload, sig []byte
	if err := cbor.Unmarshal(arr[0], &protBytes); err != nil {
		return nil, err
	}
	if err := cbor.Unmarshal(arr[2], &payload); err != nil {
		return nil, err
	}
	if err := cbor.Unmarshal(arr[3], &sig); err != nil {
		return nil, err
	}
	var prot map[any]cbor.RawMessage
	if err := cbor.Unmarshal(protBytes, &prot); err != nil {
		return nil, err
	}
	var unprot map[any]cbor.RawMessage
	if err := cbor.Unmarshal(arr[1], &unprot); err != nil {
		return nil, err
	}
	get := func(m map[any]cbor.RawMessage, label int64) (cbor.RawMessage, bool) {
		for k, v := range m {
			switch x := k.(type) {
			case int64:
				if x == label {
					return v, true
				}
			case uint64:
				if label >= 0 && x == uint64(label) {
					return v, true
				}
			}
		}
		return nil, false
	}
	ar, ok := get(prot, 1)
	if !ok {
		return nil, errors.New("no alg")
	}
	var algv int64
	if err := cbor.Unmarshal(ar, &algv); err != nil {
		return nil, err
	}
	a, ok := coseAlgs[algv]
	if !ok {
		return nil, fmt.Errorf("alg %d", algv)
	}
	var cty string
	if cr, ok := get(prot, 3); ok {
		_ = cbor.Unmarshal(cr, &cty)
	}
	xr, ok := get(unprot, 33)
	if !ok {
		return nil, errors.New("no x5chain")
	}
	var chain [][]byte
	if err := cbor.Unmarshal(xr, &chain); err != nil {
		var one []byte
		if err2 := cbor.Unmarshal(xr, &one); err2 != nil {
			return nil, err
		}
		chain = [][]byte{one}
	}
	if len(chain) == 0 {
		return nil, errors.New("empty x5chain")
	}
	leaf, err := x509.ParseCertificate(chain[0])
	if err != nil {
		return nil, err
	}
	// Sig_structure = ["Signature1", protected, external_aad, payload]
	tbs, err := cbor.Marshal([]any{"Signature1", protBytes, []byte{}, payload})
	if err != nil {
		return nil, err
	}
	if err := verifyRaw(leaf.PublicKey, a.rsa, a.h, tbs, sig); err != nil {
		return nil, err
	}
	return &Result{Payload: payload, ContentType: cty, Leaf: leaf, Alg: a.name, Hash: a.h, SigValue: sig}, nil
}

// Verify dispatches on the media type.
func Verify(format string, env []byte) (*Result, error) {
	switch format {
	case "application/jose+json":
		return VerifyJWS(env)
	case "application/cose":
		return VerifyCOSE(env)
	}
	return nil, fmt.Errorf("unknown format %q", format)
}
