#!/bin/bash
# Offline setup: warms the Go build cache under /verif/build and pre-builds every harness.
set -u
cd "$(dirname "$(readlink -f "$0")")"
VERIF=$(pwd)
export GOFLAGS=-mod=mod GOPROXY=off GOSUMDB=off GOTOOLCHAIN=local
export GOCACHE=$VERIF/build/gocache
mkdir -p build/bin build/keys "$GOCACHE" evidence
rc=0
for d in harness/*/; do
  id=$(basename "$d")
  if [ -x "$d/build.sh" ]; then
    "$d/build.sh" "$VERIF/build/bin/$id" || rc=1
  else
    go build -o "build/bin/$id" "./$d" || rc=1
  fi
done
# key fixtures (RSA key generation is slow; done once)
if [ -d lib/pki/cmd/genkeys ]; then
  go run ./lib/pki/cmd/genkeys "$VERIF/build/keys" || rc=1
fi
exit $rc
